(** C01, part 2: the run_quick loop simulates the reference runner. *)
From BB Require Import Base TM Ref TapeModel InstrsModel MachineModel.
From BB Require Import TapeCanon TapeObs StepSim Loops.

(** ---- blank tests on lists ---- *)
Lemma all_blankb_spec l : all_blankb l = true <-> all_blank l.
Proof.
  unfold all_blankb. induction l as [|x l IH]; cbn [forallb].
  - split; [intros _; apply all_blank_nil|reflexivity].
  - rewrite andb_true_iff, IH, N.eqb_eq. split.
    + intros [Hx Hl] [|i]; [unfold cell; cbn; auto|apply Hl].
    + intros H. split; [symmetry; exact (H O)|intro i; exact (H (S i))].
Qed.

Lemma all_blank_side_eq a b : side_eq a b -> all_blank a -> all_blank b.
Proof. intros H Ha i. rewrite <- H. apply Ha. Qed.

Lemma all_blankb_side_eq a b : side_eq a b -> all_blankb a = all_blankb b.
Proof.
  intros H. destruct (all_blankb a) eqn:Ea, (all_blankb b) eqn:Eb; try reflexivity.
  - apply all_blankb_spec in Ea. apply (all_blank_side_eq _ _ H) in Ea.
    apply all_blankb_spec in Ea. congruence.
  - apply all_blankb_spec in Eb. apply (all_blank_side_eq _ _ (side_eq_sym _ _ H)) in Eb.
    apply all_blankb_spec in Eb. congruence.
Qed.

Lemma tape_blankb_spec z : tape_blankb z = true <-> tape_blank z.
Proof.
  unfold tape_blankb, tape_blank. rewrite !andb_true_iff, !all_blankb_spec, N.eqb_eq. tauto.
Qed.

Lemma tape_blank_eq a b : tape_eq a b -> tape_blank a -> tape_blank b.
Proof.
  intros (H1 & H2 & H3) (B1 & B2 & B3). repeat split.
  - eapply all_blank_side_eq; eassumption.
  - congruence.
  - eapply all_blank_side_eq; eassumption.
Qed.

Lemma tape_blankb_eq a b : tape_eq a b -> tape_blankb a = tape_blankb b.
Proof.
  intros H. destruct (tape_blankb a) eqn:Ea, (tape_blankb b) eqn:Eb; try reflexivity.
  - apply tape_blankb_spec in Ea. apply (tape_blank_eq _ _ H) in Ea.
    apply tape_blankb_spec in Ea. congruence.
  - apply tape_blankb_spec in Eb. apply (tape_blank_eq _ _ (tape_eq_sym _ _ H)) in Eb.
    apply tape_blankb_spec in Eb. congruence.
Qed.

Lemma side_tape_eq sh a b : tape_eq a b -> side_eq (side sh a) (side sh b).
Proof. intros (H1 & _ & H3). destruct sh; assumption. Qed.

Lemma side_move sh pr z : side sh (tm_move z sh pr) = tl (side sh z).
Proof. destruct sh; reflexivity. Qed.
Lemma zc_move sh pr z : zc (tm_move z sh pr) = cell (side sh z) 0.
Proof. destruct sh; cbn; apply cell_hd0. Qed.

Lemma all_blank_tl l : all_blank l -> all_blank (tl l).
Proof. intros H i. rewrite cell_tl. apply H. Qed.
Lemma all_blank_skipn k l : all_blank l -> all_blank (skipn k l).
Proof. intros H i. rewrite cell_skipn. apply H. Qed.
Lemma skipn_tl {A} k (l : list A) : skipn k (tl l) = skipn (S k) l.
Proof. destruct l; [destruct k; reflexivity|reflexivity]. Qed.

(** ---- the reference machine during a sweep ---- *)
Section Sweep.
Variable P : prog.

(** j intermediate steps of a sweep: the instruction keeps the state, the
    next j cells on side [sh] hold the scanned colour c, and when c = 0 the
    tape beyond those cells is not blank. *)
Lemma ref_sweep j : forall f q c pr sh,
  f_q f = q -> zc (f_t f) = c -> P (q, c) = Some (pr, sh, q) ->
  (forall i, (i < j)%nat -> cell (side sh (f_t f)) i = c) ->
  (c = 0 -> ~ all_blank (skipn j (side sh (f_t f)))) ->
  iter_nat j (ref_body P) f =
    inl (mkF q (mv_n j sh pr (f_t f)) (f_steps f + N.of_nat j) (f_blanks f)).
Proof.
  induction j as [|j IH]; intros f q c pr sh Hq Hc HP Hcells Hnb.
  - cbn [iter_nat mv_n]. destruct f as [fq ft fs fb]. cbn in *. subst fq.
    f_equal. f_equal. lia.
  - cbn [iter_nat mv_n].
    assert (Hnb1 : c = 0 -> ~ all_blank (skipn 1 (side sh (f_t f)))).
    { intros Hc0 Hb. apply (Hnb Hc0). replace (S j) with (j + 1)%nat by lia.
      intro i. rewrite cell_skipn. specialize (Hb (j + i)%nat). rewrite cell_skipn in Hb.
      rewrite <- Hb. f_equal. lia. }
    assert (Hstep : ref_body P f = inl (mkF q (tm_move (f_t f) sh pr) (f_steps f + 1) (f_blanks f))).
    { unfold ref_body. rewrite Hq, Hc, HP. rewrite N.eqb_refl. cbn [andb].
      destruct ((c =? 0) && all_blankb (side sh (f_t f))) eqn:Esp.
      - exfalso. apply andb_prop in Esp as [E0 Eb]. apply N.eqb_eq in E0.
        apply all_blankb_spec in Eb. apply (Hnb1 E0). apply all_blank_skipn. exact Eb.
      - destruct ((pr =? 0) && tape_blankb (tm_move (f_t f) sh pr)) eqn:Ebl; [|reflexivity].
        exfalso. apply andb_prop in Ebl as [_ Eb]. apply tape_blankb_spec in Eb.
        destruct Eb as (B1 & B2 & B3). rewrite zc_move in B2.
        rewrite (Hcells O) in B2 by lia.
        apply (Hnb1 B2).
        assert (Hs : all_blank (side sh (tm_move (f_t f) sh pr))) by (destruct sh; assumption).
        rewrite side_move in Hs. destruct (side sh (f_t f)); [apply all_blank_nil|exact Hs]. }
    rewrite Hstep.
    rewrite (IH (mkF q (tm_move (f_t f) sh pr) (f_steps f + 1) (f_blanks f)) q c pr sh).
    + cbn [f_t f_steps f_blanks]. f_equal. f_equal. lia.
    + reflexivity.
    + cbn [f_t]. rewrite zc_move. apply Hcells. lia.
    + exact HP.
    + cbn [f_t]. intros i Hi. rewrite side_move, cell_tl. apply Hcells. lia.
    + cbn [f_t]. intros Hc0. rewrite side_move, skipn_tl. apply Hnb. exact Hc0.
Qed.
End Sweep.

(** ---- simulation invariant ---- *)
Definition Inv (s : qstate) (f : refstate) : Prop :=
  canon_tape (q_tape s) /\ f_q f = q_state s /\ tape_eq (f_t f) (unroll_tape (q_tape s)) /\
  f_steps f = q_steps s /\ f_blanks f = q_blanks s.

Definition rel_out (comp : comp_prog)
  (x : qstate + (termres * N * option slot * qstate))
  (y : refstate + (termres * option slot * refstate)) : Prop :=
  match x, y with
  | inl s, inl f => Inv s f
  | inr (res, _, ls, s), inr (res', ls', f) => res = res' /\ ls = ls' /\ Inv s f
  | _, _ => False
  end.

Lemma canon_nonblank_beyond c n rest :
  canon ((c, n) :: rest) -> c = 0 -> ~ all_blank (unroll_span rest).
Proof.
  intros Hc Hc0 Hb. pose proof (canon_tail _ _ Hc) as Hr.
  destruct rest as [|b rest'].
  - destruct Hc as (_ & _ & Hl). apply last_nonzero_single in Hl. cbn in Hl. contradiction.
  - destruct (lln_nonblank (unroll_span (b :: rest'))) as [i Hi].
    + destruct b as [d m]. rewrite unroll_cons. destruct Hr as (Hp & _). inversion Hp; subst. cbn in *.
      destruct (N.to_nat m) eqn:E; [lia|discriminate].
    + apply canon_unroll_lln. exact Hr.
    + apply Hi. apply Hb.
Qed.

Ltac ssplit := repeat match goal with |- _ /\ _ => split end.
Ltac inv_done := unfold Inv; ssplit;
  cbn [q_tape q_state q_steps q_blanks q_cycle f_q f_t f_steps f_blanks]; auto.

Section Sim.
Variable comp : comp_prog.
Let P := to_prog comp.

Lemma body_sim s f :
  Inv s f ->
  exists k, rel_out comp (quick_body comp s) (iter_nat k (ref_body P) f) /\
    (forall s', quick_body comp s = inl s' ->
       (1 <= k)%nat /\ q_steps s' = q_steps s + N.of_nat k /\ q_cycle s' = q_cycle s + 1) /\
    (forall res cyc ls s', quick_body comp s = inr (res, cyc, ls, s') ->
       q_steps s' + 1 = q_steps s + N.of_nat k \/ (q_steps s' = q_steps s + N.of_nat k /\ res = infrul)).
Proof.
  intros (Hcan & Hq & Ht & Hst & Hbl).
  unfold quick_body.
  assert (Hzc : zc (f_t f) = scan (q_tape s)) by (destruct Ht as (_ & H & _); exact H).
  destruct (cp_get comp (q_state s, scan (q_tape s))) as [[[color sh] next]|] eqn:Eget.
  2:{ (* undefined *)
    exists 1%nat. cbn [iter_nat]. unfold ref_body. rewrite Hq, Hzc. fold P. unfold P, to_prog.
    rewrite Eget. cbn [rel_out]. split; [|split].
    - inv_done.
    - intros s' H; discriminate.
    - intros res cyc ls s' H. inversion H; subst. left. lia. }
  assert (Hsp : (scan (q_tape s) =? 0) && all_blankb (side sh (f_t f)) = at_edge (q_tape s) sh).
  { destruct (at_edge (q_tape s) sh) eqn:E.
    - apply (at_edge_spec (q_tape s) sh Hcan) in E as [E1 E2]. cbn in E1. rewrite E1. cbn.
      apply all_blankb_spec. eapply all_blank_side_eq; [|exact E2].
      apply side_eq_sym. apply side_tape_eq. exact Ht.
    - destruct ((scan (q_tape s) =? 0) && all_blankb (side sh (f_t f))) eqn:E'; [|reflexivity].
      apply andb_prop in E' as [E1 E2]. apply N.eqb_eq in E1. apply all_blankb_spec in E2.
      assert (at_edge (q_tape s) sh = true); [|congruence].
      apply (at_edge_spec (q_tape s) sh Hcan). split; [exact E1|]. eapply all_blank_side_eq; [|exact E2].
      apply side_tape_eq. exact Ht. }
  destruct ((q_state s =? next) && at_edge (q_tape s) sh) eqn:Espin.
  { (* spin-out *)
    exists 1%nat. cbn [iter_nat]. unfold ref_body. rewrite Hq, Hzc. fold P. unfold P, to_prog.
    rewrite Eget. rewrite <- andb_assoc, Hsp, Espin. cbn [rel_out]. split; [|split].
    - inv_done.
    - intros s' H; discriminate.
    - intros res cyc ls s' H. inversion H; subst. left. lia. }
  (* a real step *)
  destruct (step (q_tape s) sh color (q_state s =? next)) as [t' stepped] eqn:Estep.
  destruct (step_unroll _ _ _ _ _ _ (canon_tape_counts_pos _ Hcan) Estep)
    as (j & Hj & Hteq & Hcells & Hcp & Hblk).
  assert (Hcan' : canon_tape t').
  { replace t' with (fst (step (q_tape s) sh color (q_state s =? next))) by (rewrite Estep; reflexivity).
    apply canon_step. exact Hcan. }
  assert (Hstepped : stepped = N.of_nat (S j)) by lia.
  (* j <> 0 implies the instruction keeps the state *)
  assert (Hsame : j <> O -> next = q_state s).
  { intros Hj0. destruct (q_state s =? next) eqn:E; [apply N.eqb_eq in E; auto|].
    exfalso. unfold step in Estep. destruct sh.
    - destruct (rspan (q_tape s)) as [|[c n] r]; cbn in Estep.
      + inversion Estep; subst. cbn in Hj. lia.
      + destruct (1 <? n); inversion Estep; subst; cbn in Hj; lia.
    - destruct (lspan (q_tape s)) as [|[c n] r]; cbn in Estep.
      + inversion Estep; subst. cbn in Hj. lia.
      + destruct (1 <? n); inversion Estep; subst; cbn in Hj; lia. }
  (* the j intermediate reference steps *)
  assert (Hmid : iter_nat j (ref_body P) f =
     inl (mkF (q_state s) (mv_n j sh color (f_t f)) (f_steps f + N.of_nat j) (f_blanks f))).
  { destruct j as [|j'].
    - cbn [iter_nat mv_n]. destruct f as [fq ft fs fb]. cbn in *. subst fq. f_equal. f_equal. lia.
    - apply (ref_sweep P (S j') f (q_state s) (scan (q_tape s)) color sh); auto.
      + unfold P, to_prog. rewrite Eget. rewrite (Hsame ltac:(discriminate)). reflexivity.
      + intros i Hi. rewrite (side_tape_eq sh _ _ Ht). apply Hcells. exact Hi.
      + intros Hc0 Hb.
        destruct (Hblk ltac:(discriminate)) as (c & n & rest & Hside & Hc & Hn).
        assert (Hb' : all_blank (skipn (S j') (side sh (unroll_tape (q_tape s))))).
        { eapply all_blank_side_eq; [|exact Hb]. apply side_eq_skipn. apply side_tape_eq. exact Ht. }
        assert (Hsideu : side sh (unroll_tape (q_tape s)) = unroll_span ((c, n) :: rest)).
        { destruct sh; cbn [side unroll_tape zl zr]; rewrite Hside; reflexivity. }
        rewrite Hsideu, unroll_cons, Hn in Hb'.
        rewrite skipn_repeat_app in Hb'.
        refine (canon_nonblank_beyond c n rest _ _ Hb').
        * destruct Hcan as [Hl Hr]. destruct sh; rewrite Hside in *; assumption.
        * congruence. }
  (* the final reference step *)
  set (fj := mkF (q_state s) (mv_n j sh color (f_t f)) (f_steps f + N.of_nat j) (f_blanks f)) in *.
  assert (Hzcj : zc (f_t fj) = scan (q_tape s)).
  { cbn [fj f_t]. destruct j as [|j']; [exact Hzc|].
    destruct sh.
    - destruct (mv_n_R (S j') color (f_t f)) as (_ & _ & M). rewrite (M j' eq_refl).
      change (zr (f_t f)) with (side true (f_t f)). rewrite (side_tape_eq true _ _ Ht). apply Hcells. lia.
    - destruct (mv_n_L (S j') color (f_t f)) as (_ & _ & M). rewrite (M j' eq_refl).
      change (zl (f_t f)) with (side false (f_t f)). rewrite (side_tape_eq false _ _ Ht). apply Hcells. lia. }
  assert (Hmv : tm_move (f_t fj) sh color = mv_n (S j) sh color (f_t f)).
  { cbn [fj f_t]. clear. generalize (f_t f) as z. induction j as [|j IH]; intro z; [reflexivity|].
    cbn [mv_n] in *. apply IH. }
  assert (Hteq' : tape_eq (mv_n (S j) sh color (f_t f)) (unroll_tape t')).
  { apply tape_eq_sym. eapply tape_eq_trans; [exact Hteq|]. apply mv_n_eq. apply tape_eq_sym. exact Ht. }
  assert (Hnospin : (q_state s =? next) && (scan (q_tape s) =? 0) && all_blankb (side sh (f_t fj)) = false).
  { destruct j as [|j'].
    - cbn [fj f_t mv_n]. rewrite <- andb_assoc, Hsp. exact Espin.
    - destruct (scan (q_tape s) =? 0) eqn:E0; [|rewrite andb_false_r; reflexivity].
      apply N.eqb_eq in E0.
      destruct (all_blankb (side sh (f_t fj))) eqn:Eb; [|rewrite andb_false_r; reflexivity].
      exfalso. apply all_blankb_spec in Eb.
      destruct (Hblk ltac:(discriminate)) as (c & n & rest & Hside & Hc & Hn).
      assert (Hsj : side sh (f_t fj) = skipn (S j') (side sh (f_t f))).
      { cbn [fj f_t]. destruct sh.
        - destruct (mv_n_R (S j') color (f_t f)) as (_ & M & _). exact M.
        - destruct (mv_n_L (S j') color (f_t f)) as (_ & M & _). exact M. }
      rewrite Hsj in Eb.
      assert (Hb' : all_blank (skipn (S j') (side sh (unroll_tape (q_tape s))))).
      { eapply all_blank_side_eq; [|exact Eb]. apply side_eq_skipn. apply side_tape_eq. exact Ht. }
      assert (Hsideu : side sh (unroll_tape (q_tape s)) = unroll_span ((c, n) :: rest)).
      { destruct sh; cbn [side unroll_tape zl zr]; rewrite Hside; reflexivity. }
      rewrite Hsideu, unroll_cons, Hn, skipn_repeat_app in Hb'.
      refine (canon_nonblank_beyond c n rest _ _ Hb').
      + destruct Hcan as [Hl Hr]. destruct sh; rewrite Hside in *; assumption.
      + congruence. }
  assert (Hblank : tape_blankb (mv_n (S j) sh color (f_t f)) = blank t').
  { rewrite (tape_blankb_eq _ _ Hteq').
    destruct (blank t') eqn:E.
    - apply tape_blankb_spec. apply (blank_spec t' Hcan'). exact E.
    - destruct (tape_blankb (unroll_tape t')) eqn:E'; [|reflexivity].
      apply tape_blankb_spec in E'. apply (blank_spec t' Hcan') in E'. congruence. }
  exists (j + 1)%nat. rewrite iter_nat_add, Hmid. cbn [iter_nat].
  assert (Hbody : ref_body P fj =
    let t1 := mv_n (S j) sh color (f_t f) in
    let steps' := f_steps f + N.of_nat j + 1 in
    if (color =? 0) && blank t' then
      if blanks_mem next (f_blanks f) then inr (infrul, None, mkF next t1 steps' (f_blanks f))
      else let s'' := mkF next t1 steps' (blanks_insert next steps' (f_blanks f)) in
           if next =? 0 then inr (infrul, None, s'') else inl s''
    else inl (mkF next t1 steps' (f_blanks f))).
  { unfold ref_body. cbn [f_q fj]. rewrite Hzcj. fold fj. unfold P, to_prog. rewrite Eget.
    rewrite Hnospin. rewrite Hmv. rewrite Hblank. cbn [f_steps f_blanks fj]. reflexivity. }
  rewrite Hbody. cbn zeta.
  assert (Hsteps : f_steps f + N.of_nat j + 1 = q_steps s + stepped) by lia.
  rewrite Hsteps, Hbl.
  destruct ((color =? 0) && blank t') eqn:Ecb.
  - destruct (blanks_mem next (q_blanks s)) eqn:Emem.
    + cbn [rel_out]. split; [|split].
      * inv_done.
      * intros s' H; discriminate.
      * intros res cyc ls s' H. inversion H; subst. right. cbn. split; [lia|reflexivity].
    + destruct (next =? 0) eqn:En.
      * cbn [rel_out]. split; [|split].
        -- inv_done.
        -- intros s' H; discriminate.
        -- intros res cyc ls s' H. inversion H; subst. right. cbn. split; [lia|reflexivity].
      * cbn [rel_out]. split; [|split].
        -- inv_done.
        -- intros s' H. inversion H; subst. cbn. repeat split; lia.
        -- intros res cyc ls s' H; discriminate.
  - cbn [rel_out]. split; [|split].
    + inv_done.
    + intros s' H. inversion H; subst. cbn. repeat split; lia.
    + intros res cyc ls s' H; discriminate.
Qed.
End Sim.

(** ---- whole-loop simulation ---- *)
Section Loop.
Variable comp : comp_prog.
Let P := to_prog comp.

(** m cycles of the compressed loop correspond to K base steps of the reference *)
Lemma loop_sim m : forall s f, Inv s f ->
  exists K, rel_out comp (iter_nat m (quick_body comp) s) (iter_nat K (ref_body P) f) /\
    (forall s', iter_nat m (quick_body comp) s = inl s' ->
       q_steps s' = q_steps s + N.of_nat K /\ q_cycle s' = q_cycle s + N.of_nat m /\ (m <= K)%nat) /\
    (forall res cyc ls s', iter_nat m (quick_body comp) s = inr (res, cyc, ls, s') ->
       q_steps s' + 1 = q_steps s + N.of_nat K \/ (q_steps s' = q_steps s + N.of_nat K /\ res = infrul)).
Proof.
  induction m as [|m IH]; intros s f HI.
  - exists O. cbn [iter_nat rel_out]. split; [exact HI|]. split.
    + intros s' H. inversion H; subst. repeat split; lia.
    + intros res cyc ls s' H; discriminate.
  - cbn [iter_nat].
    destruct (body_sim comp s f HI) as (k & Hrel & Hinl & Hinr). fold P in Hrel.
    destruct (quick_body comp s) as [s1|[[[res cyc] ls] s1]] eqn:Eb.
    + destruct (iter_nat k (ref_body P) f) as [f1|[[res' ls'] f1]] eqn:Ek; [|contradiction].
      cbn [rel_out] in Hrel.
      destruct (Hinl s1 eq_refl) as (Hk & Hs1 & Hc1).
      destruct (IH s1 f1 Hrel) as (K & HrelK & HinlK & HinrK).
      exists (k + K)%nat. rewrite iter_nat_add. rewrite Ek. split; [exact HrelK|]. split.
      * intros s' H. destruct (HinlK s' H) as (A & B & C). repeat split; lia.
      * intros res cyc ls s' H. destruct (HinrK res cyc ls s' H) as [A|[A B]]; [left; lia|right; split; [lia|exact B]].
    + exists k. split; [exact Hrel|]. split.
      * intros s' H; discriminate.
      * intros res0 cyc0 ls0 s' H. inversion H; subst. apply (Hinr _ _ _ _ eq_refl).
Qed.

Definition q_init : qstate := mkQ (init_tape 0) 0 0 0 [].

Lemma Inv_init : Inv q_init ref_init.
Proof.
  unfold Inv, q_init, ref_init. cbn. repeat split; try apply canon_nil; intro i; reflexivity.
Qed.

Lemma marks_of_eq a b : tape_eq a b -> marks_of a = marks_of b.
Proof.
  intros (H1 & H2 & H3). unfold marks_of. fold (nonzero_count (zl a ++ zc a :: zr a)).
  fold (nonzero_count (zl b ++ zc b :: zr b)).
  assert (Hs : forall x y, side_eq x y -> nonzero_count x = nonzero_count y).
  { induction x as [|u x IHx]; intros y Hxy.
    - induction y as [|v y IHy]; [reflexivity|].
      change (v :: y) with ([v] ++ y). rewrite nonzero_count_app, nonzero_count_single.
      assert (v = 0) by (symmetry; exact (Hxy O)). subst v. rewrite N.eqb_refl.
      rewrite <- IHy; [reflexivity|]. intro i. specialize (Hxy (S i)). rewrite cell_nil in *. exact Hxy.
    - destruct y as [|v y].
      + change (u :: x) with ([u] ++ x). rewrite nonzero_count_app, nonzero_count_single.
        assert (u = 0) by (exact (Hxy O)). subst u. rewrite N.eqb_refl.
        rewrite (IHx []); [reflexivity|]. intro i. specialize (Hxy (S i)). rewrite cell_nil in *. exact Hxy.
      + change (u :: x) with ([u] ++ x). change (v :: y) with ([v] ++ y).
        rewrite !nonzero_count_app, !nonzero_count_single.
        assert (u = v) by (exact (Hxy O)). subst v. rewrite (IHx y); [reflexivity|].
        intro i. exact (Hxy (S i)). }
  change (zc a :: zr a) with ([zc a] ++ zr a). change (zc b :: zr b) with ([zc b] ++ zr b).
  rewrite !nonzero_count_app, !nonzero_count_single, H2, (Hs _ _ H1), (Hs _ _ H3). reflexivity.
Qed.

(** The headline theorem: for EVERY cycle limit n the compressed run and the
    cell-by-cell reference agree on termination kind, base steps, marks,
    blank record and halting slot. *)
Theorem quick_eq_ref n :
  let r := run_quick comp n in
  (r_result r <> xlimit ->
     forall L, r_steps r < L ->
       let rr := ref_run P L in
       rr_result rr = r_result r /\ rr_steps rr = r_steps r /\ rr_marks rr = r_marks r /\
       rr_blanks rr = r_blanks r /\ rr_last_slot rr = r_last_slot r) /\
  (r_result r = xlimit ->
     let rr := ref_run P (r_steps r) in
       rr_result rr = xlimit /\ rr_steps rr = r_steps r /\ rr_marks rr = r_marks r /\
       rr_blanks rr = r_blanks r /\ rr_last_slot rr = r_last_slot r /\ n <= r_steps r).
Proof.
  unfold run_quick, ref_run. rewrite for_upto_iter. fold q_init.
  destruct (loop_sim (N.to_nat n) q_init ref_init Inv_init) as (K & Hrel & Hinl & Hinr).
  destruct (iter_nat (N.to_nat n) (quick_body comp) q_init) as [s|[[[res cyc] ls] s]] eqn:Eq.
  - (* limit reached *)
    destruct (iter_nat K (ref_body P) ref_init) as [f|[[res' ls'] f]] eqn:Ek; [|contradiction].
    cbn [rel_out] in Hrel. destruct Hrel as (Hcan & Hq & Ht & Hst & Hbl).
    destruct (Hinl s eq_refl) as (A & B & C). cbn in A, B.
    cbn [finish r_result r_steps r_marks r_blanks r_last_slot]. split; [intros H; congruence|].
    intros _. rewrite for_upto_iter. replace (N.to_nat (q_steps s)) with K by lia.
    fold P. rewrite Ek. cbn [ref_finish rr_result rr_steps rr_marks rr_blanks rr_last_slot].
    repeat split; auto.
    + rewrite (marks_of_eq _ _ Ht). symmetry. apply marks_spec.
    + lia.
  - destruct (iter_nat K (ref_body P) ref_init) as [f|[[res' ls'] f]] eqn:Ek; [contradiction|].
    cbn [rel_out] in Hrel. destruct Hrel as (Hres & Hls & (Hcan & Hq & Ht & Hst & Hbl)). subst res' ls'.
    cbn [finish r_result r_steps r_marks r_blanks r_last_slot]. split; [|intros H].
    + intros _ L HL. rewrite for_upto_iter. fold P.
      assert (HK : (K <= N.to_nat L)%nat).
      { destruct (Hinr _ _ _ _ eq_refl) as [A|[A _]]; cbn in A; lia. }
      rewrite (iter_nat_inr_mono _ _ _ _ _ Ek HK).
      cbn [ref_finish rr_result rr_steps rr_marks rr_blanks rr_last_slot].
      repeat split; auto. rewrite (marks_of_eq _ _ Ht). symmetry. apply marks_spec.
    + (* a break never reports xlimit *)
      exfalso. clear - Eq H. subst res.
      assert (G : forall m s0, iter_nat m (quick_body comp) s0 <> inr (xlimit, cyc, ls, s)).
      { induction m as [|m IH]; intros s0; cbn [iter_nat]; [discriminate|].
        destruct (quick_body comp s0) as [s1|[[[r0 c0] l0] s1]] eqn:E; [apply IH|].
        intro X. inversion X; subst. unfold quick_body in E.
        repeat match type of E with
               | context [match ?x with _ => _ end] => destruct x; try discriminate
               | context [if ?x then _ else _] => destruct x; try discriminate
               end. }
      exact (G _ _ Eq).
Qed.

(** At every intermediate cycle the compressed tape unrolls to the real tape. *)
Lemma ref_iter_tm K : forall f f', iter_nat K (ref_body P) f = inl f' ->
  tm_steps P K (f_q f, f_t f) = Some (f_q f', f_t f') /\ f_steps f' = f_steps f + N.of_nat K.
Proof.
  induction K as [|K IH]; intros f f' H.
  - cbn in H. inversion H; subst. split; [reflexivity|lia].
  - cbn [iter_nat] in H. destruct (ref_body P f) as [f1|r] eqn:Eb; [|discriminate].
    destruct (IH f1 f' H) as [A B].
    assert (Hstep : tm_step P (f_q f, f_t f) = Some (f_q f1, f_t f1) /\ f_steps f1 = f_steps f + 1).
    { unfold ref_body in Eb. unfold tm_step.
      destruct (P (f_q f, zc (f_t f))) as [[[pr sh] q']|]; [|discriminate].
      destruct ((f_q f =? q') && (zc (f_t f) =? 0) && all_blankb (side sh (f_t f))); [discriminate|].
      destruct ((pr =? 0) && tape_blankb (tm_move (f_t f) sh pr)).
      - destruct (blanks_mem q' (f_blanks f)); [discriminate|].
        destruct (q' =? 0); [discriminate|]. inversion Eb; subst. split; reflexivity.
      - inversion Eb; subst. split; reflexivity. }
    destruct Hstep as [S1 S2]. cbn [tm_steps]. rewrite S1. split; [exact A|lia].
Qed.

Theorem quick_cycle_unrolls m s :
  iter_nat m (quick_body comp) q_init = inl s ->
  exists z, tm_steps P (N.to_nat (q_steps s)) init_config = Some (q_state s, z) /\
            tape_eq z (unroll_tape (q_tape s)) /\ canon_tape (q_tape s) /\ q_cycle s = N.of_nat m.
Proof.
  intros H. destruct (loop_sim m q_init ref_init Inv_init) as (K & Hrel & Hinl & _).
  rewrite H in Hrel. destruct (iter_nat K (ref_body P) ref_init) as [f|r] eqn:Ek; [|destruct r as [[? ?] ?]; contradiction].
  cbn [rel_out] in Hrel. destruct Hrel as (Hcan & Hq & Ht & Hst & Hbl).
  destruct (Hinl s H) as (A & B & _). cbn in A, B.
  destruct (ref_iter_tm K _ _ Ek) as [T _]. cbn in T.
  exists (f_t f). replace (N.to_nat (q_steps s)) with K by lia.
  rewrite <- Hq. split; [exact T|]. split; [exact Ht|]. split; [exact Hcan|lia].
Qed.
End Loop.
