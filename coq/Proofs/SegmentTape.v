(** C05 layer 1 — the run-length window tape of segment.rs against the
    absolute-tape machine (Spec/TMabs.v).

    A segment tape [t] (scan, lspan, rspan) is read HEAD-RELATIVE: [rep t T h]
    says that on the absolute tape [T], with the head on cell [h], the cells to
    the left of [h] spell [lspan] (nearest first), the cells to the right spell
    [rspan], and [T h] is the scanned colour when there is one.  When
    [scan = None] the head stands on the cell just outside the window.

    The window occupies [wl t h, wr t h] (it includes the head cell; when
    [scan = None] the head cell is the cell just outside).

    Main result [sg_tape_step_sim]: one [sg_tape_step] (with the run-length
    sweep [skip]) is k >= 1 steps of the base machine, the head staying inside
    the window before the last step; nothing outside the window changes. *)
From BB Require Import Base TM TMabs MacroSpec InstrsModel SegmentModel Loops TranslatedCycle AbsEquiv MacroSim.
Open Scope N_scope.

(** ---- spans ---- *)
Lemma sg_span_len_acc (s : sg_span) a :
  fold_left (fun acc b => acc + snd b) s a = a + fold_left (fun acc b => acc + snd b) s 0.
Proof.
  revert a. induction s as [|[c n] s IH]; intro a; cbn [fold_left snd]; [lia|].
  rewrite (IH (a + n)), (IH (0 + n)). lia.
Qed.

Lemma sg_span_len_nil : sg_span_len [] = 0.
Proof. reflexivity. Qed.

Lemma sg_span_len_cons c n (s : sg_span) : sg_span_len ((c, n) :: s) = n + sg_span_len s.
Proof.
  unfold sg_span_len. cbn [fold_left snd]. rewrite sg_span_len_acc. lia.
Qed.

Definition zlen (s : sg_span) : Z := Z.of_N (sg_span_len s).

Lemma zlen_nil : zlen [] = 0%Z.
Proof. reflexivity. Qed.
Lemma zlen_cons c n s : zlen ((c, n) :: s) = (Z.of_N n + zlen s)%Z.
Proof. unfold zlen. rewrite sg_span_len_cons. lia. Qed.
Lemma zlen_nonneg s : (0 <= zlen s)%Z.
Proof. unfold zlen. lia. Qed.

(** every block holds at least one cell *)
Definition span_ok (s : sg_span) : Prop := Forall (fun b => 1 <= snd b) s.

Lemma span_ok_inv c n s : span_ok ((c, n) :: s) -> 1 <= n /\ span_ok s.
Proof. intro H. inversion H as [|? ? Hn Hs]. cbn [snd] in Hn. split; assumption. Qed.

Lemma span_ok_empty s : span_ok s ->
  sg_span_is_empty s = match s with [] => true | _ => false end.
Proof.
  intro H. unfold sg_span_is_empty. destruct s as [|[c n] s]; [reflexivity|].
  rewrite sg_span_len_cons. destruct (span_ok_inv _ _ _ H) as [Hn _].
  apply N.eqb_neq. lia.
Qed.

(** the cells of [s] lie on [T] from [x] on, in direction [d] (+1 / -1) *)
Fixpoint span_at (s : sg_span) (T : atape) (x d : Z) : Prop :=
  match s with
  | [] => True
  | (c, n) :: s' =>
      (forall i, (0 <= i < Z.of_N n)%Z -> T (x + d * i)%Z = c) /\
      span_at s' T (x + d * Z.of_N n)%Z d
  end.

Lemma span_at_ext s : forall T T' x d,
  (forall i, (0 <= i < zlen s)%Z -> T' (x + d * i)%Z = T (x + d * i)%Z) ->
  span_at s T x d -> span_at s T' x d.
Proof.
  induction s as [|[c n] s IH]; intros T T' x d He H; cbn [span_at] in *; [exact I|].
  destruct H as [H1 H2]. rewrite zlen_cons in He. pose proof (zlen_nonneg s) as Hz. split.
  - intros i Hi. rewrite He by lia. apply H1. exact Hi.
  - apply (IH T); [|exact H2]. intros i Hi.
    replace (x + d * Z.of_N n + d * i)%Z with (x + d * (Z.of_N n + i))%Z by lia.
    apply He. lia.
Qed.

Lemma span_at_start s T x x' d : x = x' -> span_at s T x d -> span_at s T x' d.
Proof. intros ->. exact (fun H => H). Qed.

Lemma span_blank_at s : forall T x d,
  sg_span_blank s = true -> span_at s T x d ->
  forall i, (0 <= i < zlen s)%Z -> T (x + d * i)%Z = 0.
Proof.
  induction s as [|[c n] s IH]; intros T x d Hb H i Hi.
  - rewrite zlen_nil in Hi. lia.
  - unfold sg_span_blank in Hb. cbn [forallb fst] in Hb. apply andb_true_iff in Hb.
    destruct Hb as [Hc Hb]. apply N.eqb_eq in Hc. subst c.
    cbn [span_at] in H. destruct H as [H1 H2]. rewrite zlen_cons in Hi.
    destruct (Z_lt_le_dec i (Z.of_N n)) as [L|G].
    + apply H1. lia.
    + replace (x + d * i)%Z with (x + d * Z.of_N n + d * (i - Z.of_N n))%Z by lia.
      apply (IH T _ d Hb H2). lia.
Qed.

Lemma span_blank_zero s : forall x d,
  sg_span_blank s = true -> span_at s (fun _ => 0) x d.
Proof.
  induction s as [|[c n] s IH]; intros x d Hb; cbn [span_at]; [exact I|].
  unfold sg_span_blank in Hb. cbn [forallb fst] in Hb. apply andb_true_iff in Hb.
  destruct Hb as [Hc Hb]. apply N.eqb_eq in Hc. subst c.
  split; [reflexivity|apply IH; exact Hb].
Qed.

(** ---- tapes ---- *)
Definition rep (t : sg_tape) (T : atape) (h : Z) : Prop :=
  (forall c, sgt_scan t = Some c -> T h = c) /\
  span_at (sgt_lspan t) T (h - 1)%Z (-1)%Z /\
  span_at (sgt_rspan t) T (h + 1)%Z 1%Z.

Definition tape_ok (t : sg_tape) : Prop := span_ok (sgt_lspan t) /\ span_ok (sgt_rspan t).

(** the window, head cell included *)
Definition wl (t : sg_tape) (h : Z) : Z := (h - zlen (sgt_lspan t))%Z.
Definition wr (t : sg_tape) (h : Z) : Z := (h + zlen (sgt_rspan t))%Z.

Definition dz (sh : bool) : Z := if sh then 1%Z else (-1)%Z.

Section Sim.
Variable P : prog.

(** ---- the same-state sweep ---- *)
Lemma sweep_run sh q scan pr : P (q, scan) = Some (pr, sh, q) ->
  forall n h T,
  (forall i, (0 <= i < Z.of_nat n)%Z -> T (h + dz sh * i)%Z = scan) ->
  exists T',
    a_steps P n (mkA q h T) = Some (mkA q (h + dz sh * Z.of_nat n)%Z T') /\
    (forall y, (0 <= dz sh * (y - h) < Z.of_nat n)%Z -> T' y = pr) /\
    (forall y, ~ (0 <= dz sh * (y - h) < Z.of_nat n)%Z -> T' y = T y) /\
    (forall i ci, (i < n)%nat -> a_steps P i (mkA q h T) = Some ci ->
       (0 <= dz sh * (a_h ci - h) < Z.of_nat n)%Z /\ a_q ci = q /\ a_t ci (a_h ci) = scan).
Proof.
  intro HP. induction n as [|n IH]; intros h T Hs.
  - exists T. split; [cbn [a_steps]; f_equal; f_equal; destruct sh; cbn [dz]; lia|].
    split; [intros y Hy; lia|]. split; [reflexivity|]. intros i ci Hi; lia.
  - assert (H0 : T h = scan).
    { replace h with (h + dz sh * 0)%Z at 1 by lia. apply Hs. lia. }
    assert (Hstep : a_step P (mkA q h T) =
                    Some (mkA q (h + dz sh)%Z (a_write T h pr))).
    { unfold a_step. cbn [a_q a_h a_t]. rewrite H0, HP. f_equal. f_equal.
      destruct sh; cbn [dz]; lia. }
    destruct (IH (h + dz sh)%Z (a_write T h pr)) as (T' & R & Wp & Wo & Wi).
    { intros i Hi. unfold a_write.
      destruct (Z.eqb_spec (h + dz sh + dz sh * i) h) as [E|E].
      - exfalso. destruct sh; cbn [dz] in E; lia.
      - replace (h + dz sh + dz sh * i)%Z with (h + dz sh * (i + 1))%Z by lia.
        apply Hs. lia. }
    exists T'. split; [|split; [|split]].
    + cbn [a_steps]. rewrite Hstep, R. f_equal. f_equal.
      destruct sh; cbn [dz]; lia.
    + intros y Hy. destruct (Z.eq_dec y h) as [->|Ne].
      * rewrite Wo by (destruct sh; cbn [dz] in *; lia).
        unfold a_write. rewrite Z.eqb_refl. reflexivity.
      * apply Wp. destruct sh; cbn [dz] in *; lia.
    + intros y Hy. rewrite Wo by (destruct sh; cbn [dz] in *; lia).
      unfold a_write. destruct (Z.eqb_spec y h) as [->|Ne]; [|reflexivity].
      exfalso. apply Hy. destruct sh; cbn [dz]; lia.
    + intros [|i] ci Hi Hc.
      * cbn [a_steps] in Hc. injection Hc as <-. cbn [a_h a_q a_t].
        split; [destruct sh; cbn [dz]; lia|]. split; [reflexivity|exact H0].
      * cbn [a_steps] in Hc. rewrite Hstep in Hc.
        destruct (Wi i ci ltac:(lia) Hc) as (Hw & Hwq & Hws).
        split; [destruct sh; cbn [dz] in *; lia|]. split; assumption.
Qed.

(** ---- pull on one side, push on the other ---- *)
Lemma pull_push_sim sh q scan pr q' pl ps T h pl' scan' stepped :
  P (q, scan) = Some (pr, sh, q') ->
  span_ok pl -> span_ok ps ->
  T h = scan ->
  span_at pl T (h + dz sh)%Z (dz sh) -> span_at ps T (h - dz sh)%Z (- dz sh)%Z ->
  sg_span_pull pl scan (q' =? q) = (pl', scan', stepped) ->
  exists T',
    1 <= stepped /\
    a_steps P (N.to_nat stepped) (mkA q h T) =
      Some (mkA q' (h + dz sh * Z.of_N stepped)%Z T') /\
    span_ok pl' /\ span_ok (sg_span_push ps pr stepped) /\
    span_at pl' T' (h + dz sh * Z.of_N stepped + dz sh)%Z (dz sh) /\
    span_at (sg_span_push ps pr stepped) T' (h + dz sh * Z.of_N stepped - dz sh)%Z (- dz sh)%Z /\
    (forall c, scan' = Some c -> T' (h + dz sh * Z.of_N stepped)%Z = c) /\
    (forall y, ~ (0 <= dz sh * (y - h) < Z.of_N stepped)%Z -> T' y = T y) /\
    (forall i ci, (i < N.to_nat stepped)%nat -> a_steps P i (mkA q h T) = Some ci ->
       (0 <= dz sh * (a_h ci - h) < Z.of_N stepped)%Z /\ a_q ci = q /\ a_t ci (a_h ci) = scan) /\
    zlen pl = (Z.of_N stepped - 1 + (if scan' then 1 else 0) + zlen pl')%Z /\
    (scan' = None -> pl' = []) /\
    zlen (sg_span_push ps pr stepped) = (zlen ps + Z.of_N stepped)%Z.
Proof.
  intros HP Hokl Hoks H0 Hpl Hps Hpull.
  (* Part A: the sweep.  s1 = what is left on the pull side, first cell at h1 *)
  assert (A : exists s1 T1,
    1 <= stepped /\
    a_steps P (N.to_nat stepped) (mkA q h T) =
      Some (mkA q' (h + dz sh * Z.of_N stepped)%Z T1) /\
    (forall y, (0 <= dz sh * (y - h) < Z.of_N stepped)%Z -> T1 y = pr) /\
    (forall y, ~ (0 <= dz sh * (y - h) < Z.of_N stepped)%Z -> T1 y = T y) /\
    (forall i ci, (i < N.to_nat stepped)%nat -> a_steps P i (mkA q h T) = Some ci ->
       (0 <= dz sh * (a_h ci - h) < Z.of_N stepped)%Z /\ a_q ci = q /\ a_t ci (a_h ci) = scan) /\
    span_ok s1 /\ span_at s1 T (h + dz sh * Z.of_N stepped)%Z (dz sh) /\
    zlen pl = (Z.of_N stepped - 1 + zlen s1)%Z /\
    (pl', scan') =
      (if sg_span_is_empty s1 then (s1, None)
       else match s1 with
            | (c, n) :: s' => if 1 <? n then ((c, n - 1) :: s', Some c) else (s', Some c)
            | [] => (s1, None)
            end)).
  { (* one plain step *)
    assert (Plain : sg_span_pull pl scan (q' =? q) =
                    (let '(a, b) := (if sg_span_is_empty pl then (pl, None)
                       else match pl with
                            | (c, n) :: s' => if 1 <? n then ((c, n - 1) :: s', Some c) else (s', Some c)
                            | [] => (pl, None)
                            end) in (a, b, 1)) ->
            exists s1 T1,
    1 <= stepped /\
    a_steps P (N.to_nat stepped) (mkA q h T) =
      Some (mkA q' (h + dz sh * Z.of_N stepped)%Z T1) /\
    (forall y, (0 <= dz sh * (y - h) < Z.of_N stepped)%Z -> T1 y = pr) /\
    (forall y, ~ (0 <= dz sh * (y - h) < Z.of_N stepped)%Z -> T1 y = T y) /\
    (forall i ci, (i < N.to_nat stepped)%nat -> a_steps P i (mkA q h T) = Some ci ->
       (0 <= dz sh * (a_h ci - h) < Z.of_N stepped)%Z /\ a_q ci = q /\ a_t ci (a_h ci) = scan) /\
    span_ok s1 /\ span_at s1 T (h + dz sh * Z.of_N stepped)%Z (dz sh) /\
    zlen pl = (Z.of_N stepped - 1 + zlen s1)%Z /\
    (pl', scan') =
      (if sg_span_is_empty s1 then (s1, None)
       else match s1 with
            | (c, n) :: s' => if 1 <? n then ((c, n - 1) :: s', Some c) else (s', Some c)
            | [] => (s1, None)
            end)).
    { intro E. rewrite E in Hpull.
      assert (Es : stepped = 1).
      { destruct (if sg_span_is_empty pl then _ else _) as [a b] in Hpull.
        injection Hpull as _ _ <-. reflexivity. }
      subst stepped. exists pl, (a_write T h pr).
      split; [lia|]. split.
      { change (N.to_nat 1) with 1%nat. cbn [a_steps]. unfold a_step. cbn [a_q a_h a_t].
        rewrite H0, HP. f_equal. f_equal. destruct sh; cbn [dz]; lia. }
      split.
      { intros y Hy. unfold a_write. destruct (Z.eqb_spec y h) as [_|Ne]; [reflexivity|].
        exfalso. destruct sh; cbn [dz] in Hy; lia. }
      split.
      { intros y Hy. unfold a_write. destruct (Z.eqb_spec y h) as [->|Ne]; [|reflexivity].
        exfalso. apply Hy. destruct sh; cbn [dz]; lia. }
      split.
      { intros i ci Hi Hc. assert (i = O) by lia. subst i. cbn [a_steps] in Hc.
        injection Hc as <-. cbn [a_h a_q a_t]. split; [destruct sh; cbn [dz]; lia|].
        split; [reflexivity|exact H0]. }
      split; [exact Hokl|]. split.
      { apply (span_at_start pl T (h + dz sh)%Z); [lia|exact Hpl]. }
      split; [lia|].
      destruct (if sg_span_is_empty pl then _ else _) as [a b] in Hpull |- *.
      injection Hpull as <- <-. reflexivity. }
    destruct pl as [|[c n] pl0] eqn:Epl.
    - apply Plain. unfold sg_span_pull. reflexivity.
    - destruct ((q' =? q) && negb (sg_span_is_empty ((c, n) :: pl0)) && (c =? scan)) eqn:Esk.
      + (* the sweep over the whole block *)
        unfold sg_span_pull in Hpull. rewrite Esk in Hpull.
        apply andb_true_iff in Esk. destruct Esk as [Esk Ec].
        apply andb_true_iff in Esk. destruct Esk as [Eq _].
        apply N.eqb_eq in Eq, Ec. subst q' c.
        assert (Es : stepped = 1 + n).
        { destruct (sg_span_is_empty pl0); [injection Hpull as _ _ <-; reflexivity|].
          destruct pl0 as [|[c2 n2] s2]; [injection Hpull as _ _ <-; reflexivity|].
          destruct (1 <? n2); injection Hpull as _ _ <-; reflexivity. }
        subst stepped.
        cbn [span_at] in Hpl. destruct Hpl as [Hb Hrest].
        destruct (span_ok_inv _ _ _ Hokl) as [Hn Hokl0].
        destruct (sweep_run sh q scan pr HP (N.to_nat (1 + n)) h T) as (T1 & R & Wp & Wo & Wi).
        { intros i Hi. destruct (Z.eq_dec i 0) as [->|Ne].
          - replace (h + dz sh * 0)%Z with h by lia. exact H0.
          - replace (h + dz sh * i)%Z with (h + dz sh + dz sh * (i - 1))%Z by lia.
            apply Hb. lia. }
        rewrite !N_nat_Z in *.
        exists pl0, T1. split; [lia|]. split; [exact R|]. split; [exact Wp|].
        split; [exact Wo|]. split; [exact Wi|]. split; [exact Hokl0|]. split.
        { apply (span_at_start pl0 T (h + dz sh + dz sh * Z.of_N n)%Z); [lia|exact Hrest]. }
        split; [rewrite zlen_cons; lia|].
        destruct (sg_span_is_empty pl0); [injection Hpull as <- <-; reflexivity|].
        destruct pl0 as [|[c2 n2] s2]; [injection Hpull as <- <-; reflexivity|].
        destruct (1 <? n2); injection Hpull as <- <-; reflexivity.
      + apply Plain. unfold sg_span_pull. rewrite Esk.
        destruct (sg_span_is_empty ((c, n) :: pl0)); [reflexivity|].
        destruct (1 <? n); reflexivity. }
  destruct A as (s1 & T1 & Hst & R & Wp & Wo & Wi & Hok1 & Hs1 & Hlen & Hres).
  set (h1 := (h + dz sh * Z.of_N stepped)%Z) in *.
  (* cells of s1 are outside the sweep range, so T1 = T there *)
  assert (Hs1' : span_at s1 T1 h1 (dz sh)).
  { apply (span_at_ext s1 T); [|exact Hs1]. intros i Hi. apply Wo.
    unfold h1. destruct sh; cbn [dz]; lia. }
  (* the push side *)
  assert (Hpush : span_ok (sg_span_push ps pr stepped) /\
                  span_at (sg_span_push ps pr stepped) T1 (h1 - dz sh)%Z (- dz sh)%Z /\
                  zlen (sg_span_push ps pr stepped) = (zlen ps + Z.of_N stepped)%Z).
  { assert (Hps1 : span_at ps T1 (h - dz sh)%Z (- dz sh)%Z).
    { apply (span_at_ext ps T); [|exact Hps]. intros i Hi. apply Wo.
      destruct sh; cbn [dz]; lia. }
    assert (Hnew : forall i, (0 <= i < Z.of_N stepped)%Z ->
                     T1 (h1 - dz sh + - dz sh * i)%Z = pr).
    { intros i Hi. apply Wp. unfold h1. destruct sh; cbn [dz]; lia. }
    assert (Hblock : span_ok ((pr, stepped) :: ps) /\
              span_at ((pr, stepped) :: ps) T1 (h1 - dz sh)%Z (- dz sh)%Z /\
              zlen ((pr, stepped) :: ps) = (zlen ps + Z.of_N stepped)%Z).
    { split; [constructor; [cbn [snd]; lia|exact Hoks]|]. split; [|rewrite zlen_cons; lia].
      cbn [span_at]. split; [exact Hnew|].
      apply (span_at_start ps T1 (h - dz sh)%Z); [|exact Hps1].
      unfold h1. destruct sh; cbn [dz]; lia. }
    unfold sg_span_push. destruct ps as [|[c n] ps0]; [exact Hblock|].
    destruct (N.eqb_spec c pr) as [->|Ne]; [|exact Hblock].
    destruct (span_ok_inv _ _ _ Hoks) as [Hn Hoks0].
    cbn [span_at] in Hps1. destruct Hps1 as [Hb Hrest].
    split; [constructor; [cbn [snd]; lia|exact Hoks0]|].
    split; [|rewrite !zlen_cons; lia].
    cbn [span_at]. split.
    - intros i Hi. destruct (Z_lt_le_dec i (Z.of_N stepped)) as [L|G].
      + apply Hnew. lia.
      + replace (h1 - dz sh + - dz sh * i)%Z
          with (h - dz sh + - dz sh * (i - Z.of_N stepped))%Z
          by (unfold h1; destruct sh; cbn [dz]; lia).
        apply Hb. lia.
    - apply (span_at_start ps0 T1 (h - dz sh + - dz sh * Z.of_N n)%Z); [|exact Hrest].
      unfold h1. destruct sh; cbn [dz]; lia. }
  destruct Hpush as (Hpok & Hpat & Hplen).
  (* Part B: take the next cell *)
  rewrite (span_ok_empty s1 Hok1) in Hres.
  destruct s1 as [|[c2 n2] s2].
  - injection Hres as -> ->. exists T1.
    split; [exact Hst|]. split; [exact R|]. split; [constructor|]. split; [exact Hpok|].
    split; [exact I|]. split; [exact Hpat|]. split; [discriminate|]. split; [exact Wo|].
    split; [exact Wi|]. split; [rewrite Hlen, zlen_nil; lia|]. split; [reflexivity|exact Hplen].
  - destruct (span_ok_inv _ _ _ Hok1) as [Hn2 Hok2].
    cbn [span_at] in Hs1'. destruct Hs1' as [Hb2 Hrest2].
    assert (Hscan : T1 h1 = c2).
    { replace h1 with (h1 + dz sh * 0)%Z by lia. apply Hb2. lia. }
    destruct (N.ltb_spec 1 n2) as [L|G]; injection Hres as -> ->; exists T1.
    + split; [exact Hst|]. split; [exact R|].
      split; [constructor; [cbn [snd]; lia|exact Hok2]|]. split; [exact Hpok|].
      split.
      { cbn [span_at]. split.
        - intros i Hi. replace (h1 + dz sh + dz sh * i)%Z with (h1 + dz sh * (i + 1))%Z by lia.
          apply Hb2. lia.
        - apply (span_at_start s2 T1 (h1 + dz sh * Z.of_N n2)%Z); [|exact Hrest2].
          destruct sh; cbn [dz]; lia. }
      split; [exact Hpat|]. split; [intros c E; injection E as <-; exact Hscan|].
      split; [exact Wo|]. split; [exact Wi|].
      split; [rewrite Hlen, !zlen_cons; lia|]. split; [discriminate|exact Hplen].
    + assert (n2 = 1) by lia. subst n2.
      split; [exact Hst|]. split; [exact R|]. split; [exact Hok2|]. split; [exact Hpok|].
      split.
      { apply (span_at_start s2 T1 (h1 + dz sh * Z.of_N 1)%Z); [|exact Hrest2].
        destruct sh; cbn [dz]; lia. }
      split; [exact Hpat|]. split; [intros c E; injection E as <-; exact Hscan|].
      split; [exact Wo|]. split; [exact Wi|].
      split; [rewrite Hlen, !zlen_cons; lia|]. split; [discriminate|exact Hplen].
Qed.

(** ---- LAYER 1: one step of the window tape ---- *)
Theorem sg_tape_step_sim q c pr sh q' t t' T h :
  P (q, c) = Some (pr, sh, q') ->
  sgt_scan t = Some c -> tape_ok t -> rep t T h ->
  sg_tape_step t sh pr (q' =? q) = Ok t' ->
  exists k T' h',
    (1 <= k)%nat /\
    a_steps P k (mkA q h T) = Some (mkA q' h' T') /\
    tape_ok t' /\ rep t' T' h' /\
    (* the head is inside the window before the last step *)
    (forall i ci, (i < k)%nat -> a_steps P i (mkA q h T) = Some ci ->
       (wl t h <= a_h ci <= wr t h)%Z /\ a_q ci = q /\ a_t ci (a_h ci) = c) /\
    (* nothing outside the window changes *)
    (forall y, ~ (wl t h <= y <= wr t h)%Z -> T' y = T y) /\
    (* where the head and the window are afterwards *)
    match sgt_scan t' with
    | Some _ => wl t' h' = wl t h /\ wr t' h' = wr t h
    | None =>
        if sh then h' = (wr t h + 1)%Z /\ sgt_rspan t' = [] /\ wl t' h' = wl t h
        else h' = (wl t h - 1)%Z /\ sgt_lspan t' = [] /\ wr t' h' = wr t h
    end.
Proof.
  intros HP Hscan [Hokl Hokr] (Hrs & Hrl & Hrr) Hstep.
  unfold sg_tape_step in Hstep. rewrite Hscan in Hstep.
  pose proof (Hrs c Hscan) as H0.
  pose proof (zlen_nonneg (sgt_lspan t)) as Zl. pose proof (zlen_nonneg (sgt_rspan t)) as Zr.
  destruct sh.
  - destruct (sg_span_pull (sgt_rspan t) c (q' =? q)) as [[pl' scan'] stepped] eqn:Ep.
    injection Hstep as <-.
    destruct (pull_push_sim true q c pr q' (sgt_rspan t) (sgt_lspan t) T h pl' scan' stepped
                HP Hokr Hokl H0 Hrr Hrl Ep)
      as (T' & Hst & R & Ok1 & Ok2 & At1 & At2 & Sc & Wo & Wi & L1 & L2 & L3).
    cbn [dz] in *. pose proof (zlen_nonneg pl') as Zp.
    exists (N.to_nat stepped), T', (h + 1 * Z.of_N stepped)%Z.
    split; [lia|]. split; [exact R|]. split; [split; assumption|].
    split; [split; [exact Sc|split; assumption]|].
    unfold wl, wr. cbn [sgt_scan sgt_lspan sgt_rspan].
    split; [|split].
    + intros i ci Hi Hc. destruct (Wi i ci Hi Hc) as (Hw1 & Hw2 & Hw3).
      split; [destruct scan'; lia|split; assumption].
    + intros y Hy. apply Wo. destruct scan'; lia.
    + destruct scan' as [c'|].
      * lia.
      * rewrite (L2 eq_refl) in *. rewrite zlen_nil in *. split; [lia|]. split; [reflexivity|lia].
  - destruct (sg_span_pull (sgt_lspan t) c (q' =? q)) as [[pl' scan'] stepped] eqn:Ep.
    injection Hstep as <-.
    destruct (pull_push_sim false q c pr q' (sgt_lspan t) (sgt_rspan t) T h pl' scan' stepped
                HP Hokl Hokr H0 Hrl Hrr Ep)
      as (T' & Hst & R & Ok1 & Ok2 & At1 & At2 & Sc & Wo & Wi & L1 & L2 & L3).
    cbn [dz] in *. pose proof (zlen_nonneg pl') as Zp.
    exists (N.to_nat stepped), T', (h + -1 * Z.of_N stepped)%Z.
    split; [lia|]. split; [exact R|]. split; [split; assumption|].
    split; [split; [exact Sc|split; assumption]|].
    unfold wl, wr. cbn [sgt_scan sgt_lspan sgt_rspan].
    split; [|split].
    + intros i ci Hi Hc. destruct (Wi i ci Hi Hc) as (Hw1 & Hw2 & Hw3).
      split; [destruct scan'; lia|split; assumption].
    + intros y Hy. apply Wo. destruct scan'; lia.
    + destruct scan' as [c'|].
      * lia.
      * rewrite (L2 eq_refl) in *. rewrite zlen_nil in *. split; [lia|]. split; [reflexivity|lia].
Qed.

End Sim.

(** ---- shape preservation of [sg_tape_step] (no semantics needed) ---- *)
Lemma sg_span_pull_ok s scan skip s' o st :
  span_ok s -> sg_span_pull s scan skip = (s', o, st) -> span_ok s' /\ 1 <= st.
Proof.
  intros Hok Hp. unfold sg_span_pull in Hp.
  assert (G : forall s1 st1, span_ok s1 -> 1 <= st1 ->
    (if sg_span_is_empty s1 then (s1, None, st1)
     else match s1 with
          | (c, n) :: s2 => if 1 <? n then ((c, n - 1) :: s2, Some c, st1) else (s2, Some c, st1)
          | [] => (s1, None, st1)
          end) = (s', o, st) -> span_ok s' /\ 1 <= st).
  { intros s1 st1 Ok1 Hst E. destruct (sg_span_is_empty s1).
    - injection E as <- _ <-. split; assumption.
    - destruct s1 as [|[c n] s2].
      + injection E as <- _ <-. split; assumption.
      + destruct (span_ok_inv _ _ _ Ok1) as [Hn Ok2].
        destruct (N.ltb_spec 1 n); injection E as <- _ <-; (split; [|assumption]);
          [constructor; [cbn [snd]; lia|exact Ok2]|exact Ok2]. }
  destruct s as [|[c n] s0].
  - apply (G [] 1); [constructor|lia|exact Hp].
  - destruct (span_ok_inv _ _ _ Hok) as [Hn Ok0].
    destruct (skip && negb (sg_span_is_empty ((c, n) :: s0)) && (c =? scan)).
    + apply (G s0 (1 + n)); [exact Ok0|lia|exact Hp].
    + apply (G ((c, n) :: s0) 1); [exact Hok|lia|exact Hp].
Qed.

Lemma sg_span_push_ok s pr st : span_ok s -> 1 <= st -> span_ok (sg_span_push s pr st).
Proof.
  intros Hok Hst. unfold sg_span_push, sg_span_push_block. destruct s as [|[c n] s0].
  - constructor; [cbn [snd]; lia|constructor].
  - destruct (span_ok_inv _ _ _ Hok) as [Hn Ok0]. destruct (c =? pr).
    + constructor; [cbn [snd]; lia|exact Ok0].
    + constructor; [cbn [snd]; lia|exact Hok].
Qed.

Lemma sg_tape_step_ok t sh pr skip t' :
  tape_ok t -> sg_tape_step t sh pr skip = Ok t' -> tape_ok t'.
Proof.
  intros [Hl Hr] Hs. unfold sg_tape_step in Hs. destruct (sgt_scan t) as [c|]; [|discriminate].
  destruct sh.
  - destruct (sg_span_pull (sgt_rspan t) c skip) as [[s' o] st] eqn:E. injection Hs as <-.
    destruct (sg_span_pull_ok _ _ _ _ _ _ Hr E) as [Ok1 Hst].
    split; cbn [sgt_lspan sgt_rspan]; [apply sg_span_push_ok; assumption|exact Ok1].
  - destruct (sg_span_pull (sgt_lspan t) c skip) as [[s' o] st] eqn:E. injection Hs as <-.
    destruct (sg_span_pull_ok _ _ _ _ _ _ Hl E) as [Ok1 Hst].
    split; cbn [sgt_lspan sgt_rspan]; [exact Ok1|apply sg_span_push_ok; assumption].
Qed.

(** ---- [step_in] (the over-approximating re-entry): shape facts only ---- *)
Lemma sg_span_take_ok s s' c : span_ok s -> sg_span_take s = Ok (s', c) ->
  span_ok s' /\ zlen s = (1 + zlen s')%Z /\
  (sg_span_blank s = true -> c = 0 /\ sg_span_blank s' = true) /\
  (forall T x d, span_at s T x d -> T x = c /\ span_at s' T (x + d)%Z d).
Proof.
  intros Hok Ht. unfold sg_span_take in Ht. rewrite (span_ok_empty s Hok) in Ht.
  destruct s as [|[c0 n] s0]; [discriminate|].
  destruct (span_ok_inv _ _ _ Hok) as [Hn Hok0].
  unfold sg_span_blank. cbn [forallb fst].
  destruct (N.eqb_spec n 1) as [->|N1].
  - injection Ht as <- <-. split; [exact Hok0|]. split; [rewrite zlen_cons; lia|]. split.
    + intro Hb. apply andb_true_iff in Hb. destruct Hb as [Hc Hb]. apply N.eqb_eq in Hc.
      split; assumption.
    + intros T x d [H1 H2]. split.
      * replace x with (x + d * 0)%Z at 1 by lia. apply H1. lia.
      * apply (span_at_start s0 T (x + d * Z.of_N 1)%Z); [lia|exact H2].
  - destruct (N.eqb_spec n 0) as [->|N0]; [lia|]. injection Ht as <- <-.
    split; [constructor; [cbn [snd]; lia|exact Hok0]|]. split; [rewrite !zlen_cons; lia|]. split.
    + intro Hb. apply andb_true_iff in Hb. destruct Hb as [Hc Hb]. apply N.eqb_eq in Hc.
      split; [exact Hc|]. cbn [forallb fst]. apply andb_true_iff. split; [apply N.eqb_eq; exact Hc|exact Hb].
    + intros T x d [H1 H2]. split.
      * replace x with (x + d * 0)%Z at 1 by lia. apply H1. lia.
      * cbn [span_at]. split.
        -- intros i Hi. replace (x + d + d * i)%Z with (x + d * (i + 1))%Z by lia. apply H1. lia.
        -- apply (span_at_start s0 T (x + d * Z.of_N n)%Z); [lia|exact H2].
Qed.

Lemma sg_tape_step_in_ok t sh t' : tape_ok t -> sg_tape_step_in t sh = Ok t' ->
  tape_ok t' /\ (sg_tape_blank t = true -> sg_tape_blank t' = true) /\
  exists c, sgt_scan t' = Some c.
Proof.
  intros [Hl Hr] Hs. unfold sg_tape_step_in in Hs.
  destruct (sg_tape_side t) as [|sd]; [discriminate|]. cbn [obind] in Hs.
  destruct (negb (Bool.eqb sd (negb sh))); [discriminate|].
  unfold sg_tape_blank. destruct sh.
  - destruct (sg_span_take (sgt_rspan t)) as [|[r' c]] eqn:Et; [discriminate|].
    cbn [obind] in Hs. injection Hs as <-. cbn [sgt_scan sgt_lspan sgt_rspan].
    destruct (sg_span_take_ok _ _ _ Hr Et) as (Hok & _ & Hb & _).
    split; [split; assumption|]. split; [|eexists; reflexivity].
    intro H. apply andb_true_iff in H. destruct H as [H H3]. apply andb_true_iff in H.
    destruct H as [_ H2]. destruct (Hb H3) as [-> Hb']. rewrite H2, Hb'. reflexivity.
  - destruct (sg_span_take (sgt_lspan t)) as [|[l' c]] eqn:Et; [discriminate|].
    cbn [obind] in Hs. injection Hs as <-. cbn [sgt_scan sgt_lspan sgt_rspan].
    destruct (sg_span_take_ok _ _ _ Hl Et) as (Hok & _ & Hb & _).
    split; [split; assumption|]. split; [|eexists; reflexivity].
    intro H. apply andb_true_iff in H. destruct H as [H H3]. apply andb_true_iff in H.
    destruct H as [_ H2]. destruct (Hb H2) as [-> Hb']. rewrite H3, Hb'. reflexivity.
Qed.

(** ---- initial tapes ---- *)
Lemma sg_tape_init_ok seg pos t : sg_tape_init seg pos = Ok t ->
  tape_ok t /\ sg_tape_blank t = true.
Proof.
  unfold sg_tape_init. intro H.
  destruct (N.leb_spec 4 seg) as [H4|]; [|discriminate]. cbn [negb] in H.
  destruct (pos <=? seg); [|discriminate]. cbn [negb] in H.
  destruct (pos =? 0).
  { injection H as <-. split; [|reflexivity]. split; [constructor|].
    constructor; [cbn [snd]; lia|constructor]. }
  destruct (pos =? seg - 1).
  { injection H as <-. split; [|reflexivity]. split; [|constructor].
    constructor; [cbn [snd]; lia|constructor]. }
  destruct (seg - 2 <? pos); [discriminate|]. injection H as <-.
  split.
  - split; cbn [sgt_lspan sgt_rspan].
    + destruct (N.ltb_spec 0 (pos - 1)); constructor; [cbn [snd]; lia|constructor].
    + destruct (N.ltb_spec 0 (seg - 2 - pos)); constructor; [cbn [snd]; lia|constructor].
  - unfold sg_tape_blank. cbn [sgt_scan sgt_lspan sgt_rspan].
    destruct (0 <? pos - 1), (0 <? seg - 2 - pos); reflexivity.
Qed.

(** a blank window tape lies on the all-blank tape, wherever the head is *)
Lemma rep_blank_zero t h : sg_tape_blank t = true -> rep t (fun _ => 0) h.
Proof.
  unfold sg_tape_blank. intro H. apply andb_true_iff in H. destruct H as [H H3].
  apply andb_true_iff in H. destruct H as [H1 H2].
  split; [|split; apply span_blank_zero; assumption].
  intros c Hc. rewrite Hc in H1. apply N.eqb_eq in H1. symmetry. exact H1.
Qed.

(** a blank window tape holds only blanks *)
Lemma rep_blank_window t T h : sg_tape_blank t = true -> rep t T h ->
  forall y, (wl t h <= y <= wr t h)%Z -> (y <> h \/ sgt_scan t <> None) -> T y = 0.
Proof.
  unfold sg_tape_blank. intros H (Rs & Rl & Rr) y Hy Hne.
  apply andb_true_iff in H. destruct H as [H H3]. apply andb_true_iff in H. destruct H as [H1 H2].
  unfold wl, wr in Hy.
  destruct (Z.lt_trichotomy y h) as [L|[E|G]].
  - replace y with (h - 1 + -1 * (h - 1 - y))%Z by lia.
    apply (span_blank_at _ T _ _ H2 Rl). lia.
  - subst y. destruct (sgt_scan t) as [c|] eqn:Es.
    + rewrite (Rs c eq_refl). apply N.eqb_eq in H1. exact H1.
    + exfalso. destruct Hne as [Hne|Hne]; [lia|apply Hne; reflexivity].
  - replace y with (h + 1 + 1 * (y - h - 1))%Z by lia.
    apply (span_blank_at _ T _ _ H3 Rr). lia.
Qed.

(** structural equality *)
Lemma sg_span_eqb_eq a : forall b, sg_span_eqb a b = true -> a = b.
Proof.
  induction a as [|[c1 n1] a IH]; intros [|[c2 n2] b] H; cbn [sg_span_eqb] in H;
    try discriminate; [reflexivity|].
  apply andb_true_iff in H. destruct H as [H H3]. apply andb_true_iff in H. destruct H as [H1 H2].
  apply N.eqb_eq in H1, H2. subst. f_equal. apply IH. exact H3.
Qed.

Lemma sg_tape_eqb_eq a b : sg_tape_eqb a b = true -> a = b.
Proof.
  unfold sg_tape_eqb. intro H. apply andb_true_iff in H. destruct H as [H H3].
  apply andb_true_iff in H. destruct H as [H1 H2].
  apply sg_span_eqb_eq in H2, H3. destruct a as [sa la ra], b as [sb lb rb].
  cbn [sgt_scan sgt_lspan sgt_rspan] in *. subst. f_equal.
  destruct sa as [x|], sb as [y|]; cbn [sg_ocolour_eqb] in H1; try discriminate; [|reflexivity].
  apply N.eqb_eq in H1. subst. reflexivity.
Qed.

Print Assumptions sg_tape_step_sim.
