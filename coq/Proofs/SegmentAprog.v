(** C05 layer 5, part A — containers of the segment model and what
    [AnalyzedProg::new] (segment.rs:759) computes: [halts], [spinouts],
    [branches] contain every instruction of the table within the given
    dimensions. *)
From Coq Require Import FinFun.
From BB Require Import Base InstrsModel SegmentModel.
Open Scope N_scope.

(** ---- number sets ---- *)
Lemma sg_nset_mem_In x s : sg_nset_mem x s = true <-> In x s.
Proof.
  induction s as [|y s IH]; cbn [sg_nset_mem In]; [split; [discriminate|contradiction]|].
  rewrite orb_true_iff, IH, N.eqb_eq. split; intros [H|H]; auto.
Qed.

Lemma sg_nset_insert_In x y s : In x (sg_nset_insert y s) <-> x = y \/ In x s.
Proof.
  unfold sg_nset_insert. destruct (sg_nset_mem y s) eqn:E.
  - apply sg_nset_mem_In in E. split; [auto|]. intros [->|H]; assumption.
  - cbn [In]. split; intros [H|H]; auto.
Qed.

Lemma sg_nset_insert_NoDup y s : NoDup s -> NoDup (sg_nset_insert y s).
Proof.
  intro H. unfold sg_nset_insert. destruct (sg_nset_mem y s) eqn:E; [exact H|].
  constructor; [|exact H]. intro Hin. apply sg_nset_mem_In in Hin. congruence.
Qed.

Lemma sg_len_length {A} (l : list A) : sg_len l = N.of_nat (length l).
Proof.
  unfold sg_len. assert (G : forall a, fold_left (fun n (_ : A) => N.succ n) l a = a + N.of_nat (length l)).
  { induction l as [|x l IH]; intro a; cbn [fold_left length]; [lia|]. rewrite IH. lia. }
  rewrite G. lia.
Qed.

Lemma sg_len_insert y s :
  sg_len (sg_nset_insert y s) = if sg_nset_mem y s then sg_len s else sg_len s + 1.
Proof.
  unfold sg_nset_insert. destruct (sg_nset_mem y s); [reflexivity|].
  rewrite !sg_len_length. cbn [length]. lia.
Qed.

(** a duplicate-free set that holds 0 .. n-1 has at least n elements *)
Lemma sg_nset_full n s : NoDup s -> (forall p, p < n -> In p s) -> n <= sg_len s.
Proof.
  intros Hnd Hall. rewrite sg_len_length.
  set (l := map N.of_nat (seq 0 (N.to_nat n))).
  assert (Hl : NoDup l).
  { unfold l. apply Injective_map_NoDup; [|apply seq_NoDup].
    intros a b E. lia. }
  assert (Hincl : incl l s).
  { intros x Hx. unfold l in Hx. apply in_map_iff in Hx. destruct Hx as (i & <- & Hi).
    apply in_seq in Hi. apply Hall. lia. }
  pose proof (NoDup_incl_length Hl Hincl) as Hle. unfold l in Hle.
  rewrite map_length, seq_length in Hle. lia.
Qed.

(** ---- dictionaries ---- *)
Lemma sg_dict_get_set_same {V} k (v : V) d : sg_dict_get k (sg_dict_set k v d) = Some v.
Proof.
  induction d as [|[k' v'] d IH]; cbn [sg_dict_set sg_dict_get].
  - rewrite N.eqb_refl. reflexivity.
  - destruct (N.ltb_spec k k'); [cbn [sg_dict_get]; rewrite N.eqb_refl; reflexivity|].
    destruct (N.eqb_spec k k') as [->|Ne]; cbn [sg_dict_get].
    + rewrite N.eqb_refl. reflexivity.
    + destruct (N.eqb_spec k' k); [congruence|exact IH].
Qed.

Lemma sg_dict_get_set_other {V} k k0 (v : V) d : k0 <> k ->
  sg_dict_get k0 (sg_dict_set k v d) = sg_dict_get k0 d.
Proof.
  intro Hne. induction d as [|[k' v'] d IH]; cbn [sg_dict_set sg_dict_get].
  - destruct (N.eqb_spec k k0); [congruence|reflexivity].
  - destruct (N.ltb_spec k k').
    + cbn [sg_dict_get]. destruct (N.eqb_spec k k0); [congruence|reflexivity].
    + destruct (N.eqb_spec k k') as [->|Ne']; cbn [sg_dict_get].
      * destruct (N.eqb_spec k' k0); [congruence|reflexivity].
      * destruct (k' =? k0); [reflexivity|exact IH].
Qed.

Lemma sg_dict_entry_get {V} k (dflt : V) d :
  sg_dict_entry k dflt d = match sg_dict_get k d with Some v => v | None => dflt end.
Proof. reflexivity. Qed.

(** ---- ranges ---- *)
Lemma N_range_In fuel : forall lo x, In x (N_range fuel lo) <-> lo <= x < lo + N.of_nat fuel.
Proof.
  induction fuel as [|f IH]; intros lo x; cbn [N_range In]; [lia|].
  rewrite IH. lia.
Qed.

Lemma range_In lo hi x : In x (range lo hi) <-> lo <= x < hi.
Proof. unfold range. rewrite N_range_In. lia. Qed.

(** ---- sorting keeps the elements ---- *)
Lemma sg_sorted_insert_In x y l : In y (sg_sorted_insert x l) <-> y = x \/ In y l.
Proof.
  induction l as [|z l IH]; cbn [sg_sorted_insert In]; [split; intros [H|H]; auto|].
  destruct (x <? z); [cbn [In]; split; intros [H|H]; auto|].
  destruct (N.eqb_spec x z) as [->|Ne].
  - cbn [In]. split; [auto|]. intros [->|H]; auto.
  - cbn [In]. rewrite IH. split; intros [H|[H|H]]; auto.
Qed.

Lemma sg_sort_In y s : In y (sg_sort s) <-> In y s.
Proof.
  unfold sg_sort. induction s as [|x s IH]; cbn [fold_right In]; [reflexivity|].
  rewrite sg_sorted_insert_In, IH. split; intros [H|H]; auto.
Qed.

(** ---- folds ---- *)
Lemma fold_left_establish {A B} (f : A -> B -> A) (Q : A -> Prop) (l : list B) x :
  In x l -> (forall a, Q (f a x)) -> (forall a y, Q a -> Q (f a y)) ->
  forall a, Q (fold_left f l a).
Proof.
  intros Hin He Hp. induction l as [|y l IH]; [contradiction|]. intro a. cbn [fold_left].
  destruct Hin as [->|Hin].
  - assert (G : forall l a, Q a -> Q (fold_left f l a)).
    { clear -Hp. induction l as [|z l IH]; intros a Ha; cbn [fold_left]; [exact Ha|].
      apply IH, Hp, Ha. }
    apply G, He.
  - apply IH. exact Hin.
Qed.

Lemma fold_left_preserve {A B} (f : A -> B -> A) (Q : A -> Prop) (l : list B) :
  (forall a y, Q a -> Q (f a y)) -> forall a, Q a -> Q (fold_left f l a).
Proof.
  intro Hp. induction l as [|z l IH]; intros a Ha; cbn [fold_left]; [exact Ha|].
  apply IH, Hp, Ha.
Qed.

(** ---- [AnalyzedProg::new] ---- *)
Section Aprog.
Variables (prog : comp_prog) (S C : N).

Lemma color_step_halts_mono st a c x :
  In x (saa_halts a) -> In x (saa_halts (sg_ap_color_step prog st a c)).
Proof.
  intro H. unfold sg_ap_color_step. destruct (cp_get prog (st, c)) as [[[pr sh] nx]|].
  - destruct sh; cbn [saa_halts]; exact H.
  - cbn [saa_halts]. apply sg_nset_insert_In. right. exact H.
Qed.

Lemma color_fold_halts_mono st l a x :
  In x (saa_halts a) -> In x (saa_halts (fold_left (sg_ap_color_step prog st) l a)).
Proof.
  apply (fold_left_preserve _ (fun a => In x (saa_halts a))).
  intros a0 y. apply color_step_halts_mono.
Qed.

Lemma state_step_halts_mono acc st x :
  In x (fst (fst acc)) -> In x (fst (fst (sg_ap_state_step prog C acc st))).
Proof.
  destruct acc as [[halts spinouts] branches]. cbn [fst]. intro H.
  unfold sg_ap_state_step. cbn [fst]. apply color_fold_halts_mono. cbn [saa_halts]. exact H.
Qed.

(** an undefined slot within the dimensions puts its state into [halts] *)
Lemma aprog_halts (q : state) (c : colour) : q < S -> c < C -> cp_get prog (q, c) = None ->
  In q (sga_halts (sg_aprog_new prog (S, C))).
Proof.
  intros Hq Hc HP. unfold sg_aprog_new.
  assert (G : In q (fst (fst (fold_left (sg_ap_state_step prog C) (range 0 S) ([], [], []))))).
  { apply (fold_left_establish _ (fun acc => In q (fst (fst acc))) _ q).
    - apply range_In. lia.
    - intros [[halts spinouts] branches]. unfold sg_ap_state_step. cbn [fst].
      apply (fold_left_establish _ (fun a => In q (saa_halts a)) _ c).
      + apply range_In. lia.
      + intro a. unfold sg_ap_color_step. rewrite HP. cbn [saa_halts].
        apply sg_nset_insert_In. left. reflexivity.
      + intros a y. apply color_step_halts_mono.
    - intros acc y. apply state_step_halts_mono. }
  destruct (fold_left _ _ _) as [[halts spinouts] branches]. exact G.
Qed.

(** the three per-state sets only grow inside the colour loop *)
Lemma color_step_sets_mono st a c x :
  (In x (saa_diff a) -> In x (saa_diff (sg_ap_color_step prog st a c))) /\
  (In x (saa_lefts a) -> In x (saa_lefts (sg_ap_color_step prog st a c))) /\
  (In x (saa_rights a) -> In x (saa_rights (sg_ap_color_step prog st a c))).
Proof.
  unfold sg_ap_color_step. destruct (cp_get prog (st, c)) as [[[pr sh] nx]|].
  - destruct sh; cbn [saa_diff saa_lefts saa_rights];
      (split; [|split]); intro H; try exact H;
      try (destruct (nx =? st); [exact H|apply sg_nset_insert_In; right; exact H]);
      apply sg_nset_insert_In; right; exact H.
  - cbn [saa_diff saa_lefts saa_rights]. auto.
Qed.

(** a defined slot within the dimensions is recorded in [branches] *)
Lemma aprog_branches (q : state) (c : colour) pr sh (nx : state) : q < S -> c < C ->
  cp_get prog (q, c) = Some (pr, sh, nx) ->
  exists diffs dirs,
    sg_dict_get q (sga_branches (sg_aprog_new prog (S, C))) = Some (diffs, dirs) /\
    In nx (sg_dirs_get dirs sh) /\ (nx <> q -> In nx diffs).
Proof.
  intros Hq Hc HP. unfold sg_aprog_new.
  set (Q := fun acc : sg_nset * sg_dict shift * sg_dict (list state * sg_dirs) =>
              exists diffs dirs, sg_dict_get q (snd acc) = Some (diffs, dirs) /\
                In nx (sg_dirs_get dirs sh) /\ (nx <> q -> In nx diffs)).
  assert (He : forall acc, Q (sg_ap_state_step prog C acc q)).
  { intros [[halts spinouts] branches]. unfold Q, sg_ap_state_step. cbn [snd].
    set (a := fold_left _ _ _).
    exists (sg_sort (saa_diff a)), (sg_sort (saa_lefts a), sg_sort (saa_rights a)).
    split; [apply sg_dict_get_set_same|].
    assert (Ha : In nx (if sh then saa_rights a else saa_lefts a) /\ (nx <> q -> In nx (saa_diff a))).
    { unfold a. apply (fold_left_establish _
        (fun a => In nx (if sh then saa_rights a else saa_lefts a) /\ (nx <> q -> In nx (saa_diff a))) _ c).
      - apply range_In. lia.
      - intro a0. unfold sg_ap_color_step. rewrite HP.
        destruct sh; cbn [saa_diff saa_lefts saa_rights].
        + split; [apply sg_nset_insert_In; left; reflexivity|]. intro Hne.
          destruct (N.eqb_spec nx q); [contradiction|]. apply sg_nset_insert_In. left. reflexivity.
        + split; [apply sg_nset_insert_In; left; reflexivity|]. intro Hne.
          destruct (N.eqb_spec nx q); [contradiction|]. apply sg_nset_insert_In. left. reflexivity.
      - intros a0 y [H1 H2]. destruct (color_step_sets_mono q a0 y nx) as (M1 & M2 & M3).
        split; [destruct sh; auto|auto]. }
    destruct Ha as [H1 H2]. split.
    - unfold sg_dirs_get. destruct sh; cbn [fst snd]; apply sg_sort_In; exact H1.
    - intro Hne. apply sg_sort_In, H2, Hne. }
  assert (G : Q (fold_left (sg_ap_state_step prog C) (range 0 S) ([], [], []))).
  { apply (fold_left_establish _ Q _ q); [apply range_In; lia|exact He|].
    intros acc y Hacc. destruct (N.eq_dec y q) as [->|Ne]; [apply He|].
    destruct acc as [[halts spinouts] branches]. unfold Q, sg_ap_state_step in *. cbn [snd] in *.
    rewrite sg_dict_get_set_other by congruence. exact Hacc. }
  destruct (fold_left _ _ _) as [[halts spinouts] branches]. exact G.
Qed.

(** a zero-reading self-loop within the dimensions is recorded in [spinouts] *)
Lemma color_step_spinouts_other (st : state) a (c : colour) (q : state) : st <> q ->
  sg_dict_get q (saa_spinouts (sg_ap_color_step prog st a c)) = sg_dict_get q (saa_spinouts a).
Proof.
  intro Hne. unfold sg_ap_color_step. destruct (cp_get prog (st, c)) as [[[pr sh] nx]|]; [|reflexivity].
  assert (E : sg_dict_get q (if (nx =? st) && (c =? 0) then sg_dict_set nx sh (saa_spinouts a)
                              else saa_spinouts a) = sg_dict_get q (saa_spinouts a)).
  { destruct (N.eqb_spec nx st) as [->|]; cbn [andb]; [|reflexivity].
    destruct (c =? 0); [apply sg_dict_get_set_other; congruence|reflexivity]. }
  destruct sh; cbn [saa_spinouts]; exact E.
Qed.

Lemma aprog_spinouts (q : state) pr sh : q < S -> 0 < C ->
  cp_get prog (q, (0 : colour)) = Some (pr, sh, q) ->
  sg_dict_get q (sga_spinouts (sg_aprog_new prog (S, C))) = Some sh.
Proof.
  intros Hq HC HP. unfold sg_aprog_new.
  set (Q := fun acc : sg_nset * sg_dict shift * sg_dict (list state * sg_dirs) =>
              sg_dict_get q (snd (fst acc)) = Some sh).
  assert (Hcol : forall a c, sg_dict_get q (saa_spinouts a) = Some sh ->
                   sg_dict_get q (saa_spinouts (sg_ap_color_step prog q a c)) = Some sh).
  { intros a c Ha. unfold sg_ap_color_step. destruct (cp_get prog (q, c)) as [[[pr' sh'] nx]|] eqn:E; [|exact Ha].
    assert (E2 : sg_dict_get q (if (nx =? q) && (c =? 0) then sg_dict_set nx sh' (saa_spinouts a)
                                else saa_spinouts a) = Some sh).
    { destruct (N.eqb_spec nx q) as [->|]; cbn [andb]; [|exact Ha].
      destruct (N.eqb_spec c 0) as [->|]; [|exact Ha]. rewrite HP in E. injection E as _ <-.
      apply sg_dict_get_set_same. }
    destruct sh'; cbn [saa_spinouts]; exact E2. }
  assert (He : forall acc, Q (sg_ap_state_step prog C acc q)).
  { intros [[halts spinouts] branches]. unfold Q, sg_ap_state_step. cbn [fst snd].
    apply (fold_left_establish _ (fun a => sg_dict_get q (saa_spinouts a) = Some sh) _ 0).
    - apply range_In. lia.
    - intro a. unfold sg_ap_color_step. rewrite HP. rewrite !N.eqb_refl. cbn [andb].
      destruct sh; cbn [saa_spinouts]; apply sg_dict_get_set_same.
    - intros a y Ha. apply Hcol, Ha. }
  assert (G : Q (fold_left (sg_ap_state_step prog C) (range 0 S) ([], [], []))).
  { apply (fold_left_establish _ Q _ q); [apply range_In; lia|exact He|].
    intros acc y Hacc. destruct (N.eq_dec y q) as [->|Ne]; [apply He|].
    destruct acc as [[halts spinouts] branches]. unfold Q, sg_ap_state_step in *. cbn [fst snd] in *.
    assert (Gc : forall l a, sg_dict_get q (saa_spinouts a) = Some sh ->
              sg_dict_get q (saa_spinouts (fold_left (sg_ap_color_step prog y) l a)) = Some sh).
    { induction l as [|c l IH]; intros a Ha; cbn [fold_left]; [exact Ha|].
      apply IH. rewrite color_step_spinouts_other by exact Ne. exact Ha. }
    apply Gc. cbn [saa_spinouts]. exact Hacc. }
  destruct (fold_left _ _ _) as [[halts spinouts] branches]. exact G.
Qed.

End Aprog.

(** the keys of [reached] for goal Halt are the halting states *)
Lemma configs_new_reached_halt halts spinouts seg q :
  sg_dict_get q (sgs_reached (sg_configs_new halts spinouts seg SgHalt)) =
  if sg_nset_mem q halts then Some ([] : sg_nset) else None.
Proof.
  unfold sg_configs_new. cbn [sgs_reached].
  assert (G : forall d : sg_dict sg_nset, sg_dict_get q (fold_left (fun d st => sg_dict_set st [] d) halts d) =
                        if sg_nset_mem q halts then Some [] else sg_dict_get q d).
  { induction halts as [|h hs IH]; intro d; cbn [fold_left sg_nset_mem]; [reflexivity|].
    rewrite IH. destruct (N.eqb_spec q h) as [->|Ne]; cbn [orb].
    - destruct (sg_nset_mem h hs); [reflexivity|apply sg_dict_get_set_same].
    - destruct (sg_nset_mem q hs); [reflexivity|apply sg_dict_get_set_other; exact Ne]. }
  rewrite G. destruct (sg_nset_mem q halts); reflexivity.
Qed.

(** the keys of [reached] for goal Spinout are the keys of [spinouts] *)
Lemma configs_new_reached_spin halts (spinouts : sg_dict shift) seg q :
  sg_dict_get q (sgs_reached (sg_configs_new halts spinouts seg SgSpinout)) =
  match sg_dict_get q spinouts with Some _ => Some ([] : sg_nset) | None => None end.
Proof.
  unfold sg_configs_new. cbn [sgs_reached].
  assert (G : forall d : sg_dict sg_nset,
            sg_dict_get q (fold_left (fun d (kv : N * shift) => sg_dict_set (fst kv) [] d) spinouts d) =
            match sg_dict_get q spinouts with Some _ => Some [] | None => sg_dict_get q d end).
  { induction spinouts as [|[k v] sp IH]; intro d; cbn [fold_left sg_dict_get fst]; [reflexivity|].
    rewrite IH. destruct (N.eqb_spec k q) as [->|Ne].
    - destruct (sg_dict_get q sp); [reflexivity|apply sg_dict_get_set_same].
    - destruct (sg_dict_get q sp); [reflexivity|apply sg_dict_get_set_other; congruence]. }
  rewrite G. destruct (sg_dict_get q spinouts); reflexivity.
Qed.

Print Assumptions aprog_halts.
Print Assumptions aprog_branches.
