(** C05 layer 5, the covering argument (shared by goals Halt and Spinout):
    when the search loop has ended with [None] ([Inv] with an empty todo
    stack), every real run from the blank tape, viewed through the window
    placed at any offset [lo], is covered at every macro-step boundary by a
    configuration on a processed run. *)
From BB Require Import Base TM TMabs MacroSpec InstrsModel SegmentModel Loops TranslatedCycle AbsEquiv MacroSim.
From BB Require Import SegmentTape SegmentSound SegmentVerdicts SegmentAprog SegmentShape SegmentRefute.
Open Scope N_scope.

Section Cover.
Variable prog : comp_prog.
Notation P := (to_prog prog).
Variables (S C seg : N) (goal : sg_term).
Hypothesis Hseg : 4 <= seg.
Hypothesis Hwithin : prog_within_P (to_prog prog) S C.
Hypothesis HS : 0 < S.
Hypothesis HC : 0 < C.
Let ap := sg_aprog_new prog (S, C).
Let cells : Z := Z.of_N (seg - 2).

Lemma cells_pos' : (1 <= cells)%Z.
Proof. unfold cells. lia. Qed.

(** states and colours of a run from the blank tape stay within the table *)
Definition bounded (c : aconf) : Prop := a_q c < S /\ forall y, a_t c y < C.

Lemma step_bounded c c' : bounded c -> a_step P c = Some c' -> bounded c'.
Proof.
  intros [Hq Ht] Hs. unfold a_step in Hs.
  destruct (P (a_q c, a_t c (a_h c))) as [[[pr sh] q']|] eqn:HP; [|discriminate].
  injection Hs as <-. destruct (Hwithin _ _ _ _ _ HP) as (_ & _ & Hpr & Hq').
  split; [exact Hq'|]. intro y. cbn [a_t]. unfold a_write. destruct (y =? a_h c)%Z; [exact Hpr|apply Ht].
Qed.

Lemma steps_bounded : forall n c c', bounded c -> a_steps P n c = Some c' -> bounded c'.
Proof.
  induction n as [|n IH]; intros c c' Hb H; cbn [a_steps] in H.
  - injection H as <-. exact Hb.
  - destruct (a_step P c) as [c1|] eqn:E; [|discriminate].
    apply (IH c1 c'); [apply (step_bounded c c1 Hb E)|exact H].
Qed.

Lemma init_bounded h0 : bounded (mkA 0 h0 zero_tape).
Proof. split; [exact HS|intro y; exact HC]. Qed.

(** ---- the covering argument ---- *)
Variables (cs : sg_configs) (D : list (state * sg_tape)).
Hypothesis HI : Inv prog S C seg goal cs D D.
Hypothesis Htodo : sgs_todo cs = [].

Lemma known_onrun y : Known prog cs D y -> OnRun prog D y.
Proof.
  intros [(c & Hin & _)|H]; [|exact H]. rewrite Htodo in Hin. destruct Hin.
Qed.

Lemma knownB_cover lo c q t : KnownB prog seg cs D q t -> Rrel cells lo c (q, t) ->
  exists t', OnRun prog D (q, t') /\ Rrel cells lo c (q, t').
Proof.
  intros (t' & Hwf & Hkn & Hor) HR. exists t'. split; [apply known_onrun, Hkn|].
  destruct Hor as [->|(B1 & B2 & Hp)]; [exact HR|].
  apply (Rrel_blank_same cells cells_pos' lo c q t t' HR Hwf B1 B2 Hp).
Qed.

Variables (h0 : Z) (n : nat) (cn : aconf).
Hypothesis Hrun : a_steps P n (mkA 0 h0 zero_tape) = Some cn.
(** a macro step that starts before time n does not run past time n *)
Hypothesis Hnoover : forall i ci k1 ci1, (i < n)%nat ->
  a_steps P i (mkA 0 h0 zero_tape) = Some ci -> (1 <= k1)%nat -> a_steps P k1 ci = Some ci1 ->
  (forall j cj, (j < k1)%nat -> a_steps P j ci = Some cj ->
     a_q cj = a_q ci /\ a_t cj (a_h cj) = a_t ci (a_h ci)) ->
  (i + k1 <= n)%nat.

Lemma cover lo : forall k i ci x, (i + k = n)%nat ->
  a_steps P i (mkA 0 h0 zero_tape) = Some ci ->
  Rrel cells lo ci x -> OnRun prog D x ->
  exists y, OnRun prog D y /\ Rrel cells lo cn y.
Proof.
  induction k as [k IH] using lt_wf_ind. intros i ci x Hik Hi HR Hon.
  destruct k as [|k].
  { assert (i = n) by lia. subst i. rewrite Hrun in Hi. injection Hi as <-. exists x. split; assumption. }
  (* ci is not the halting configuration *)
  assert (Hrest : a_steps P (Datatypes.S k) ci = Some cn).
  { replace n with (i + Datatypes.S k)%nat in Hrun by lia. rewrite a_steps_add, Hi in Hrun. exact Hrun. }
  assert (Hbi : bounded ci) by (apply (steps_bounded i _ ci (init_bounded h0) Hi)).
  destruct (a_step P ci) as [ci'|] eqn:Estep; [|cbn [a_steps] in Hrest; rewrite Estep in Hrest; discriminate].
  destruct (sgt_scan (snd x)) as [co|] eqn:Escan.
  - (* inside the window: a macro step *)
    pose proof (Rrel_scan cells lo ci x co HR Escan) as Hco.
    destruct (mstep prog x) as [x'|] eqn:Em.
    2:{ exfalso. destruct (mstep_none prog x Em) as [He|(co' & Es' & HP')]; [congruence|].
        rewrite Escan in Es'. injection Es' as <-. destruct HR as (Eq & _).
        unfold a_step in Estep. rewrite <- Eq, Hco in Estep. unfold to_prog in Estep.
        rewrite HP' in Estep. discriminate. }
    destruct (Rrel_inner prog cells cells_pos' lo ci x x' HR Em) as (k1 & ci1 & Hk1 & R1 & HR1 & Hmid).
    assert (Hle : (k1 <= Datatypes.S k)%nat).
    { pose proof (Hnoover i ci k1 ci1 ltac:(lia) Hi Hk1 R1 Hmid). lia. }
    apply (IH (Datatypes.S k - k1)%nat ltac:(lia) (i + k1)%nat ci1 x'); [lia| |exact HR1|].
    + rewrite a_steps_add, Hi. exact R1.
    + destruct Hon as (x0 & m & Hin & Hm). exists x0, (Datatypes.S m). split; [exact Hin|].
      apply (miter_snoc prog m x0 x x' Hm Em).
  - (* outside the window: one step of the real machine *)
    destruct (Rrel_edge prog cells cells_pos' lo ci x ci' HR Escan Estep) as (pr & sh & HP & Hcases).
    assert (Hi' : a_steps P (i + 1) (mkA 0 h0 zero_tape) = Some ci').
    { rewrite a_steps_add, Hi. cbn [a_steps]. rewrite Estep. reflexivity. }
    destruct Hbi as [Hq Hcol]. pose proof HR as (Eq & _).
    destruct (aprog_branches prog S C (a_q ci) (a_t ci (a_h ci)) pr sh (a_q ci') Hq (Hcol _) HP)
      as (diffs & dirs & Hbr & Hdir & Hdiff).
    destruct Hon as (x0 & m & Hin0 & Hm).
    pose proof HI as (_ & _ & _ & _ & _ & I6 & _).
    destruct (I6 x0 Hin0 m x Hm) as [_ Hedge]. destruct (Hedge Escan) as [_ Hsucc].
    pose proof (sg_tape_side_edge (snd x) Escan) as Hside.
    unfold succs_known in Hsucc. rewrite Eq in Hsucc.
    destruct (Hsucc _ diffs dirs Hside Hbr) as [Hin_all Hout_all].
    assert (Hgo : forall t', OnRun prog D (a_q ci', t') -> Rrel cells lo ci' (a_q ci', t') ->
                    exists y, OnRun prog D y /\ Rrel cells lo cn y).
    { intros t' Hon' HR'. apply (IH k ltac:(lia) (i + 1)%nat ci' (a_q ci', t')); [lia|exact Hi'|exact HR'|exact Hon']. }
    destruct Hcases as [Hstay|(nt & Hsd & Hnt & Henter)].
    + destruct (N.eq_dec (a_q ci') (a_q ci)) as [Esame|Ne].
      * apply (Hgo (snd x)); [|exact Hstay]. exists x0, m. split; [exact Hin0|].
        rewrite Hm. f_equal. destruct x as [xq xt]. cbn [fst snd] in *. congruence.
      * destruct (knownB_cover lo ci' (a_q ci') (snd x) (Hout_all _ (Hdiff Ne)) Hstay) as (t' & Hon' & HR').
        apply (Hgo t' Hon' HR').
    + rewrite Hside in Hsd. injection Hsd as Hsd.
      assert (Esh : negb (sg_span_is_empty (sgt_rspan (snd x))) = sh)
        by (rewrite Hsd; apply Bool.negb_involutive).
      rewrite Esh in Hin_all.
      destruct (knownB_cover lo ci' (a_q ci') nt (Hin_all _ nt Hdir Hnt) Henter) as (t' & Hon' & HR').
      apply (Hgo t' Hon' HR').
Qed.

(** the initial configuration is covered, wherever the window is *)
Variable ps : sg_nset.
Hypothesis Hps : sg_dict_get 0 (sgs_blanks cs) = Some ps.
Hypothesis Hall : forall p, p < seg -> In p ps.

Lemma cover_init lo : exists x, OnRun prog D x /\ Rrel cells lo (mkA 0 h0 zero_tape) x.
Proof.
  set (p0 := Z.to_N (Z.max 0 (Z.min (h0 - lo) (cells + 1)))).
  assert (Hp0 : p0 < seg) by (unfold p0, cells; lia).
  pose proof HI as (_ & _ & _ & _ & I5 & _).
  destruct (I5 0 ps p0 Hps (Hall p0 Hp0)) as (t & Hwf & Hb & Hp & Hkn).
  exists (0, t). split; [apply known_onrun, Hkn|].
  split; [reflexivity|]. split; [exact Hwf|]. cbn [fst snd a_q a_h a_t].
  split; [apply rep_blank_zero; exact Hb|].
  assert (Hz : zpos t = Z.of_N p0) by (unfold zpos; rewrite Hp; reflexivity).
  destruct (zpos_cases cells t Hwf cells_pos') as [(c0 & E & P1 & P2)|[(E & _ & P1 & _)|(E & _ & P1 & _)]];
    rewrite E.
  - unfold p0 in Hz. lia.
  - rewrite P1. cbn. unfold p0 in Hz. lia.
  - rewrite P1. destruct (Z.eqb_spec (cells + 1) 0); [lia|]. unfold p0 in Hz. lia.
Qed.

End Cover.

Print Assumptions cover.
Print Assumptions cover_init.
