(** C13: program text round trip.  Printing a table ([show]) and parsing the
    text ([from_str]) are mutually inverse on well-formed input; parsing puts
    the instruction of row [r], column [c] at slot [(r, c)]; single tokens
    (instructions, slots, state letters) round-trip; what [show] does when no
    size is given. *)
From BB Require Import Base InstrsModel.

(** ---------------------------------------------------------------- *)
(** * Vocabulary of the statements                                    *)

(** a printable instruction: one decimal digit, a state letter A..Z *)
Definition instr_okb (i : instr) : bool :=
  let '(co, _, tr) := i in (co <=? 9) && (tr <=? 25).
Definition oinstr_okb (o : option instr) : bool :=
  match o with None => true | Some i => instr_okb i end.

(** the text grammar of one token, written out independently of [show_instr] *)
Definition show_tok (o : option instr) : str :=
  match o with
  | None => [ch_dot; ch_dot; ch_dot]
  | Some (co, sh, tr) => [48 + co; if sh then ch_R else ch_L; 65 + tr]
  end.
Definition row_text (row : list (option instr)) : str := join [ch_space] (map show_tok row).
Definition text_of (rows : list (list (option instr))) : str :=
  join [ch_space; ch_space] (map row_text rows).

(** an [S] x [C] matrix of printable optional instructions *)
Definition matrix_okb (S C : N) (rows : list (list (option instr))) : bool :=
  (N.of_nat (length rows) =? S) &&
  forallb (fun row => (N.of_nat (length row) =? C) && forallb oinstr_okb row) rows.

(** [S] rows joined by two spaces, each [C] tokens joined by one space, each
    token [...] or digit, L/R, letter *)
Definition well_formed_text (S C : N) (txt : str) : Prop :=
  exists rows, matrix_okb S C rows = true /\ txt = text_of rows.

(** the BTreeMap invariant: keys strictly increasing *)
Fixpoint cp_sortedb (p : comp_prog) : bool :=
  match p with
  | [] => true
  | kv :: p' => match p' with
                | [] => true
                | kv' :: _ => slot_ltb (fst kv) (fst kv') && cp_sortedb p'
                end
  end.
Definition entry_okb (S C : N) (kv : slot * instr) : bool :=
  (fst (fst kv) <? S) && (snd (fst kv) <? C) && instr_okb (snd kv).
Definition table_okb (S C : N) (tbl : comp_prog) : bool :=
  cp_sortedb tbl && forallb (entry_okb S C) tbl.
Definition table_ok (S C : N) (tbl : comp_prog) : Prop := table_okb S C tbl = true.

(** table <-> matrix *)
Fixpoint row_entries (r c : N) (row : list (option instr)) : comp_prog :=
  match row with
  | [] => []
  | None :: row' => row_entries r (c + 1) row'
  | Some i :: row' => ((r, c), i) :: row_entries r (c + 1) row'
  end.
Fixpoint rows_entries (r : N) (rows : list (list (option instr))) : comp_prog :=
  match rows with
  | [] => []
  | row :: rows' => row_entries r 0 row ++ rows_entries (r + 1) rows'
  end.
Definition table_of (rows : list (list (option instr))) : comp_prog := rows_entries 0 rows.
Definition matrix_of (S C : N) (tbl : comp_prog) : list (list (option instr)) :=
  map (fun st => map (fun co => cp_get tbl (st, co)) (range 0 C)) (range 0 S).

(** the finite token sets *)
Definition is_digit (c : N) : bool := (48 <=? c) && (c <=? 57).
Definition is_upper (c : N) : bool := (65 <=? c) && (c <=? 90).
Definition instr_tokb (tok : str) : bool :=
  match tok with
  | [a; b; c] => ((a =? ch_dot) && (b =? ch_dot) && (c =? ch_dot))
                 || (is_digit a && ((b =? ch_L) || (b =? ch_R)) && is_upper c)
  | _ => false
  end.
Definition slot_tokb (tok : str) : bool :=
  match tok with [a; b] => is_upper a && is_digit b | _ => false end.

(** what [show] looks at when it has to infer the size *)
Definition states_of (p : comp_prog) : list N :=
  flat_map (fun kv => [fst (fst kv); snd (snd kv)]) p.
Definition colours_of (p : comp_prog) : list N :=
  flat_map (fun kv => [snd (fst kv); fst (fst (snd kv))]) p.
Definition max_list (d : N) (l : list N) : N := fold_right N.max d l.

(** ---------------------------------------------------------------- *)
(** * Slot order                                                      *)

Lemma slot_ltb_spec a b :
  slot_ltb a b = true <-> (fst a < fst b \/ (fst a = fst b /\ snd a < snd b)).
Proof.
  unfold slot_ltb. rewrite orb_true_iff, andb_true_iff, !N.ltb_lt, N.eqb_eq. tauto.
Qed.

Lemma slot_eqb_spec a b : slot_eqb a b = true <-> a = b.
Proof.
  unfold slot_eqb. rewrite andb_true_iff, !N.eqb_eq.
  destruct a as [a1 a2], b as [b1 b2]; cbn [fst snd]. split.
  - intros [H1 H2]; subst; reflexivity.
  - intros H; inversion H; auto.
Qed.

Lemma slot_eqb_refl a : slot_eqb a a = true.
Proof. apply slot_eqb_spec. reflexivity. Qed.

Lemma slot_ltb_false a b : slot_ltb a b = true -> slot_ltb b a = false.
Proof.
  intros H. apply slot_ltb_spec in H. apply not_true_is_false. intros H'.
  apply slot_ltb_spec in H'. lia.
Qed.

Lemma slot_ltb_neq a b : slot_ltb a b = true -> slot_eqb b a = false.
Proof.
  intros H. apply slot_ltb_spec in H. apply not_true_is_false. intros H'.
  apply slot_eqb_spec in H'. subst. lia.
Qed.

Lemma slot_ltb_neq' a b : slot_ltb a b = true -> slot_eqb a b = false.
Proof.
  intros H. apply slot_ltb_spec in H. apply not_true_is_false. intros H'.
  apply slot_eqb_spec in H'. subst. lia.
Qed.

Lemma slot_ltb_trans a b c : slot_ltb a b = true -> slot_ltb b c = true -> slot_ltb a c = true.
Proof. rewrite !slot_ltb_spec. lia. Qed.

Lemma slot_trichotomy a b : slot_ltb a b = true \/ a = b \/ slot_ltb b a = true.
Proof.
  rewrite !slot_ltb_spec. destruct a as [a1 a2], b as [b1 b2]; cbn [fst snd].
  destruct (N.lt_trichotomy a1 b1) as [H|[H|H]]; [lia| |lia].
  destruct (N.lt_trichotomy a2 b2) as [H2|[H2|H2]]; [lia| |lia].
  subst. right; left; reflexivity.
Qed.

(** all keys of [p] are below [k] / above [k] *)
Definition below (k : slot) (p : comp_prog) : Prop :=
  Forall (fun kv : slot * instr => slot_ltb (fst kv) k = true) p.
Definition above (k : slot) (p : comp_prog) : Prop :=
  Forall (fun kv : slot * instr => slot_ltb k (fst kv) = true) p.

Lemma below_mono k k' p : below k p -> slot_ltb k k' = true -> below k' p.
Proof.
  intros H Hk. unfold below in *. rewrite Forall_forall in *. intros kv Hin.
  eapply slot_ltb_trans; [apply H; exact Hin|exact Hk].
Qed.

Lemma above_mono k k' p : above k p -> slot_ltb k' k = true -> above k' p.
Proof.
  intros H Hk. unfold above in *. rewrite Forall_forall in *. intros kv Hin.
  eapply slot_ltb_trans; [exact Hk|apply H; exact Hin].
Qed.

(** inserting above every present key appends *)
Lemma cp_insert_below k v p : below k p -> cp_insert k v p = p ++ [(k, v)].
Proof.
  induction p as [|[k' v'] p IH]; intros Hb.
  - reflexivity.
  - inversion Hb as [|x l Hx Hl]; subst. cbn [fst] in Hx.
    cbn [cp_insert app]. rewrite (slot_ltb_false _ _ Hx), (slot_ltb_neq _ _ Hx).
    rewrite (IH Hl). reflexivity.
Qed.

Lemma cp_get_app a b k :
  cp_get (a ++ b) k = match cp_get a k with Some v => Some v | None => cp_get b k end.
Proof.
  induction a as [|[k' v'] a IH]; cbn [app cp_get]; [reflexivity|].
  destruct (slot_eqb k' k); [reflexivity|exact IH].
Qed.

Lemma cp_get_above k p : above k p -> cp_get p k = None.
Proof.
  induction p as [|[k' v'] p IH]; intros Ha; [reflexivity|].
  inversion Ha as [|x l Hx Hl]; subst. cbn [fst] in Hx. cbn [cp_get].
  rewrite (slot_ltb_neq _ _ Hx). exact (IH Hl).
Qed.

(** strongly sorted form of the invariant *)
Fixpoint sortedP (p : comp_prog) : Prop :=
  match p with
  | [] => True
  | kv :: p' => above (fst kv) p' /\ sortedP p'
  end.

Lemma cp_sortedb_sortedP p : cp_sortedb p = true -> sortedP p.
Proof.
  induction p as [|kv p IH]; intros H; [exact I|].
  cbn [cp_sortedb] in H. destruct p as [|kv' p'].
  - split; [constructor|exact I].
  - apply andb_true_iff in H. destruct H as [H1 H2].
    specialize (IH H2). split; [|exact IH].
    constructor; [exact H1|]. destruct IH as [Hab _].
    eapply above_mono; [exact Hab|exact H1].
Qed.

Lemma sortedP_cp_sortedb p : sortedP p -> cp_sortedb p = true.
Proof.
  induction p as [|kv p IH]; intros H; [reflexivity|].
  destruct H as [Hab Hs]. cbn [cp_sortedb]. destruct p as [|kv' p']; [reflexivity|].
  inversion Hab as [|x l Hx Hl]; subst. rewrite Hx. cbn [andb]. exact (IH Hs).
Qed.

Lemma sortedP_app a b :
  sortedP a -> sortedP b ->
  (forall x y, In x a -> In y b -> slot_ltb (fst x) (fst y) = true) -> sortedP (a ++ b).
Proof.
  induction a as [|kv a IH]; intros Ha Hb Hab; [exact Hb|].
  destruct Ha as [Hka Ha]. cbn [app sortedP]. split.
  - unfold above in *. apply Forall_app. split; [exact Hka|].
    apply Forall_forall. intros y Hy. apply Hab; [left; reflexivity|exact Hy].
  - apply IH; [exact Ha|exact Hb|]. intros x y Hx Hy. apply Hab; [right; exact Hx|exact Hy].
Qed.

(** two sorted tables with the same lookups are the same list *)
Lemma sorted_ext : forall a b,
  sortedP a -> sortedP b -> (forall k, cp_get a k = cp_get b k) -> a = b.
Proof.
  induction a as [|[k v] a IH]; intros [|[k' v'] b] Ha Hb Hget.
  - reflexivity.
  - specialize (Hget k'). cbn [cp_get] in Hget. rewrite slot_eqb_refl in Hget. discriminate.
  - specialize (Hget k). cbn [cp_get] in Hget. rewrite slot_eqb_refl in Hget. discriminate.
  - destruct Ha as [Hka Ha], Hb as [Hkb Hb]. cbn [fst] in Hka, Hkb.
    destruct (slot_trichotomy k k') as [Hlt|[Heq|Hlt]].
    + specialize (Hget k). cbn [cp_get] in Hget. rewrite slot_eqb_refl in Hget.
      rewrite (slot_ltb_neq _ _ Hlt) in Hget.
      rewrite (cp_get_above k b) in Hget; [discriminate|].
      eapply above_mono; [exact Hkb|exact Hlt].
    + subst k'. assert (Hv : v = v').
      { specialize (Hget k). cbn [cp_get] in Hget. rewrite slot_eqb_refl in Hget.
        inversion Hget; reflexivity. }
      subst v'. f_equal. apply IH; [exact Ha|exact Hb|]. intros k0.
      specialize (Hget k0). cbn [cp_get] in Hget.
      destruct (slot_eqb k k0) eqn:E; [|exact Hget].
      apply slot_eqb_spec in E. subst k0.
      rewrite (cp_get_above k a Hka), (cp_get_above k b Hkb). reflexivity.
    + specialize (Hget k'). cbn [cp_get] in Hget. rewrite slot_eqb_refl in Hget.
      rewrite (slot_ltb_neq _ _ Hlt) in Hget.
      rewrite (cp_get_above k' a) in Hget; [discriminate|].
      eapply above_mono; [exact Hka|exact Hlt].
Qed.

(** ---------------------------------------------------------------- *)
(** * Characters and single tokens                                    *)

(** visible ASCII: never white space, never the separator *)
Definition vis (c : N) : Prop := 33 <= c <= 126.

Lemma vis_not_space c : vis c -> (c =? ch_space) = false.
Proof. unfold vis, ch_space. intros H. apply N.eqb_neq. lia. Qed.

Lemma vis_not_ws c : vis c -> is_ws c = false.
Proof.
  unfold vis, is_ws. intros H.
  repeat (apply orb_false_iff; split);
    try (apply N.eqb_neq; lia);
    apply andb_false_iff;
    first [left; apply N.leb_gt; lia | right; apply N.leb_gt; lia].
Qed.

Lemma show_N_digit d : d <= 9 -> show_N d = [48 + d].
Proof.
  intros H.
  assert (E : d = 0 \/ d = 1 \/ d = 2 \/ d = 3 \/ d = 4 \/ d = 5 \/ d = 6 \/ d = 7 \/ d = 8 \/ d = 9)
    by lia.
  repeat (destruct E as [E|E]; [subst d; vm_compute; reflexivity|]).
  subst d; vm_compute; reflexivity.
Qed.

Lemma show_state_letter s : s <= 25 -> show_state s = Some (65 + s).
Proof.
  intros H. unfold show_state. rewrite (N.mod_small s 256) by lia.
  replace (s + 65 <? 256) with true by (symmetry; apply N.ltb_lt; lia).
  f_equal. lia.
Qed.

Lemma read_state_letter s : s <= 25 -> read_state (65 + s) = Some s.
Proof.
  intros H. unfold read_state. rewrite (N.mod_small (65 + s) 256) by lia.
  replace (65 <=? 65 + s) with true by (symmetry; apply N.leb_le; lia).
  f_equal. lia.
Qed.

Lemma read_color_digit d : d <= 9 -> read_color (48 + d) = Some d.
Proof.
  intros H. unfold read_color.
  replace (48 <=? 48 + d) with true by (symmetry; apply N.leb_le; lia).
  replace (48 + d <=? 57) with true by (symmetry; apply N.leb_le; lia).
  cbn [andb]. f_equal. lia.
Qed.

Lemma instr_okb_spec co sh tr : instr_okb (co, sh, tr) = true <-> co <= 9 /\ tr <= 25.
Proof. unfold instr_okb. rewrite andb_true_iff, !N.leb_le. tauto. Qed.

(** [show_instr] prints exactly the grammar's token *)
Lemma show_instr_tok o : oinstr_okb o = true -> show_instr o = Some (show_tok o).
Proof.
  destruct o as [[[co sh] tr]|]; [|reflexivity].
  cbn [oinstr_okb]. intros H. apply instr_okb_spec in H. destruct H as [Hc Ht].
  unfold show_instr, show_tok. rewrite (show_state_letter tr Ht), (show_N_digit co Hc).
  reflexivity.
Qed.

Lemma shift_char_spec (sh : bool) : read_shift (if sh then ch_R else ch_L) = sh.
Proof. destruct sh; vm_compute; reflexivity. Qed.

Lemma read_instr_tok o : oinstr_okb o = true -> read_instr (show_tok o) = Some o.
Proof.
  destruct o as [[[co sh] tr]|]; [|intros _; vm_compute; reflexivity].
  cbn [oinstr_okb]. intros H. apply instr_okb_spec in H. destruct H as [Hc Ht].
  unfold show_tok, read_instr. cbn [existsb].
  replace (ch_dot =? 48 + co) with false by (symmetry; apply N.eqb_neq; unfold ch_dot; lia).
  replace (ch_dot =? 65 + tr) with false by (symmetry; apply N.eqb_neq; unfold ch_dot; lia).
  replace (ch_dot =? (if sh then ch_R else ch_L)) with false
    by (destruct sh; vm_compute; reflexivity).
  cbn [orb]. rewrite (read_color_digit co Hc), (read_state_letter tr Ht), shift_char_spec.
  reflexivity.
Qed.

(** every token is three visible characters *)
Lemma show_tok_vis o : oinstr_okb o = true ->
  exists a b c, show_tok o = [a; b; c] /\ vis a /\ vis b /\ vis c.
Proof.
  destruct o as [[[co sh] tr]|].
  - cbn [oinstr_okb]. intros H. apply instr_okb_spec in H. destruct H as [Hc Ht].
    exists (48 + co), (if sh then ch_R else ch_L), (65 + tr). split; [reflexivity|].
    unfold vis. repeat split; try lia; destruct sh; unfold ch_R, ch_L; lia.
  - intros _. exists ch_dot, ch_dot, ch_dot. split; [reflexivity|].
    unfold vis, ch_dot. lia.
Qed.

(** ---- token round trips ---- *)
Lemma instr_rt_show_read o : oinstr_okb o = true ->
  exists tok, show_instr o = Some tok /\ read_instr tok = Some o.
Proof.
  intros H. exists (show_tok o). split; [apply show_instr_tok|apply read_instr_tok]; exact H.
Qed.

Lemma is_digit_spec c : is_digit c = true -> exists d, d <= 9 /\ c = 48 + d.
Proof.
  unfold is_digit. rewrite andb_true_iff, !N.leb_le. intros [H1 H2].
  exists (c - 48). lia.
Qed.
Lemma is_upper_spec c : is_upper c = true -> exists s, s <= 25 /\ c = 65 + s.
Proof.
  unfold is_upper. rewrite andb_true_iff, !N.leb_le. intros [H1 H2].
  exists (c - 65). lia.
Qed.

Lemma instr_tok_inv tok : instr_tokb tok = true ->
  exists o, oinstr_okb o = true /\ tok = show_tok o.
Proof.
  destruct tok as [|a [|b [|c [|x t]]]]; try discriminate.
  unfold instr_tokb. rewrite orb_true_iff, !andb_true_iff, orb_true_iff, !N.eqb_eq.
  intros [[[Ha Hb] Hc]|[[Ha Hb] Hc]].
  - subst. exists None. split; reflexivity.
  - apply is_digit_spec in Ha. destruct Ha as (co & Hco & ->).
    apply is_upper_spec in Hc. destruct Hc as (tr & Htr & ->).
    destruct Hb as [->| ->].
    + exists (Some (co, false, tr)). split; [apply instr_okb_spec; lia|reflexivity].
    + exists (Some (co, true, tr)). split; [apply instr_okb_spec; lia|reflexivity].
Qed.

Lemma instr_rt_read_show tok : instr_tokb tok = true ->
  exists o, read_instr tok = Some o /\ show_instr o = Some tok.
Proof.
  intros H. apply instr_tok_inv in H. destruct H as (o & Hok & ->).
  exists o. split; [apply read_instr_tok|apply show_instr_tok]; exact Hok.
Qed.

Lemma slot_rt_show_read s c : s <= 25 -> c <= 9 ->
  exists tok, show_slot (s, c) = Some tok /\ read_slot tok = Some (s, c).
Proof.
  intros Hs Hc. exists [65 + s; 48 + c]. unfold show_slot. cbn [fst snd].
  rewrite (show_state_letter s Hs), (show_N_digit c Hc). split; [reflexivity|].
  unfold read_slot. rewrite (read_state_letter s Hs), (read_color_digit c Hc). reflexivity.
Qed.

Lemma slot_rt_read_show tok : slot_tokb tok = true ->
  exists sl, read_slot tok = Some sl /\ show_slot sl = Some tok.
Proof.
  destruct tok as [|a [|b [|x t]]]; try discriminate.
  unfold slot_tokb. rewrite andb_true_iff. intros [Ha Hb].
  apply is_upper_spec in Ha. destruct Ha as (s & Hs & ->).
  apply is_digit_spec in Hb. destruct Hb as (c & Hc & ->).
  exists (s, c). unfold read_slot. rewrite (read_state_letter s Hs), (read_color_digit c Hc).
  split; [reflexivity|]. unfold show_slot. cbn [fst snd].
  rewrite (show_state_letter s Hs), (show_N_digit c Hc). reflexivity.
Qed.

Lemma state_rt_show_read s : s <= 25 ->
  exists ch, show_state s = Some ch /\ read_state ch = Some s.
Proof.
  intros H. exists (65 + s). split; [apply show_state_letter|apply read_state_letter]; exact H.
Qed.

Lemma state_rt_read_show ch : is_upper ch = true ->
  exists s, read_state ch = Some s /\ show_state s = Some ch.
Proof.
  intros H. apply is_upper_spec in H. destruct H as (s & Hs & ->).
  exists s. split; [apply read_state_letter|apply show_state_letter]; exact Hs.
Qed.

(** ---------------------------------------------------------------- *)
(** * trim, split, join                                               *)

(** a string that starts and ends with a visible character *)
Definition edge_ok (s : str) : Prop :=
  (exists a t, s = a :: t /\ vis a) /\ (exists z t, rev s = z :: t /\ vis z).

Lemma trim_edge_ok s : edge_ok s -> trim s = s.
Proof.
  intros [(a & t & Hs & Ha) (z & t' & Hr & Hz)]. unfold trim.
  assert (E1 : drop_ws s = s).
  { rewrite Hs. cbn [drop_ws]. rewrite (vis_not_ws a Ha). reflexivity. }
  rewrite E1, Hr. cbn [drop_ws]. rewrite (vis_not_ws z Hz), <- Hr. apply rev_involutive.
Qed.

Lemma edge_ok_app x m y : edge_ok x -> edge_ok y -> edge_ok (x ++ m ++ y).
Proof.
  intros [(a & t & Hx & Ha) _] [_ (z & t' & Hy & Hz)]. split.
  - exists a, (t ++ m ++ y). rewrite Hx. split; [reflexivity|exact Ha].
  - exists z, (t' ++ rev m ++ rev x). rewrite !rev_app_distr, Hy, <- app_assoc.
    split; [reflexivity|exact Hz].
Qed.

Lemma edge_ok_join sep l : l <> [] -> Forall edge_ok l -> edge_ok (join sep l).
Proof.
  induction l as [|x l IH]; intros Hne Hall; [contradiction|].
  inversion Hall as [|x' l' Hx Hl]; subst. destruct l as [|y l].
  - exact Hx.
  - change (join sep (x :: y :: l)) with (x ++ sep ++ join sep (y :: l)).
    apply edge_ok_app; [exact Hx|]. apply IH; [discriminate|exact Hl].
Qed.

Lemma edge_ok_tok o : oinstr_okb o = true -> edge_ok (show_tok o).
Proof.
  intros H. destruct (show_tok_vis o H) as (a & b & c & -> & Ha & Hb & Hc). split.
  - exists a, [b; c]. split; [reflexivity|exact Ha].
  - exists c, [b; a]. split; [reflexivity|exact Hc].
Qed.

Lemma edge_ok_row row : row <> [] -> forallb oinstr_okb row = true -> edge_ok (row_text row).
Proof.
  intros Hne Hall. unfold row_text. apply edge_ok_join.
  - destruct row; [contradiction|discriminate].
  - apply Forall_forall. intros t Ht. apply in_map_iff in Ht. destruct Ht as (o & <- & Ho).
    apply edge_ok_tok. rewrite forallb_forall in Hall. apply Hall. exact Ho.
Qed.

(** split("  ") steps *)
Lemma split2_vis a s cur : (a =? ch_space) = false -> split2 (a :: s) cur = split2 s (a :: cur).
Proof.
  intros H. destruct s as [|b s]; cbn [split2]; [reflexivity|].
  rewrite H. reflexivity.
Qed.

Lemma split2_sp1 b s cur : (b =? ch_space) = false ->
  split2 (ch_space :: b :: s) cur = split2 (b :: s) (ch_space :: cur).
Proof.
  intros H. cbn [split2]. rewrite H, andb_false_r. reflexivity.
Qed.

Lemma split2_sp2 s cur : split2 (ch_space :: ch_space :: s) cur = rev cur :: split2 s [].
Proof. reflexivity. Qed.

(** split(' ') steps *)
Lemma split1_vis a s cur : (a =? ch_space) = false -> split1 (a :: s) cur = split1 s (a :: cur).
Proof. intros H. cbn [split1]. rewrite H. reflexivity. Qed.

Lemma split1_sp s cur : split1 (ch_space :: s) cur = rev cur :: split1 s [].
Proof. reflexivity. Qed.

(** a row never contains two adjacent spaces and ends in a visible character:
    split("  ") walks through it *)
Lemma split2_row : forall row, row <> [] -> forallb oinstr_okb row = true ->
  forall y cur, split2 (row_text row ++ y) cur = split2 y (rev (row_text row) ++ cur).
Proof.
  induction row as [|o row IH]; intros Hne Hall y cur; [contradiction|].
  cbn [forallb] in Hall. apply andb_true_iff in Hall. destruct Hall as [Ho Hall].
  destruct (show_tok_vis o Ho) as (a & b & c & Htok & Ha & Hb & Hc).
  destruct row as [|o' row].
  - unfold row_text. cbn [map join]. rewrite Htok. cbn [app rev].
    rewrite !split2_vis by (apply vis_not_space; assumption). reflexivity.
  - assert (Hne' : o' :: row <> []) by discriminate.
    change (row_text (o :: o' :: row)) with (show_tok o ++ [ch_space] ++ row_text (o' :: row)).
    rewrite Htok. cbn [app].
    rewrite !split2_vis by (apply vis_not_space; assumption).
    destruct (edge_ok_row (o' :: row) Hne' Hall) as [(a' & t' & Hrt & Ha') _].
    rewrite Hrt. cbn [app]. rewrite split2_sp1 by (apply vis_not_space; exact Ha').
    change (a' :: t' ++ y) with ((a' :: t') ++ y). rewrite <- Hrt.
    rewrite (IH Hne' Hall). f_equal. cbn [rev]. rewrite <- !app_assoc. reflexivity.
Qed.

Definition row_okb (C : N) (row : list (option instr)) : bool :=
  (N.of_nat (length row) =? C) && forallb oinstr_okb row.

Lemma row_okb_inv C row : 1 <= C -> row_okb C row = true ->
  row <> [] /\ forallb oinstr_okb row = true.
Proof.
  intros HC H. apply andb_true_iff in H. destruct H as [Hl Hall]. apply N.eqb_eq in Hl.
  split; [|exact Hall]. intros ->. cbn in Hl. lia.
Qed.

Lemma split2_text C : 1 <= C -> forall rows, rows <> [] -> forallb (row_okb C) rows = true ->
  split2 (text_of rows) [] = map row_text rows.
Proof.
  intros HC. induction rows as [|row rows IH]; intros Hne Hall; [contradiction|].
  cbn [forallb] in Hall. apply andb_true_iff in Hall. destruct Hall as [Hrow Hall].
  destruct (row_okb_inv C row HC Hrow) as [Hrne Hrok].
  destruct rows as [|row' rows].
  - unfold text_of. cbn [map join]. rewrite <- (app_nil_r (row_text row)) at 1.
    rewrite (split2_row row Hrne Hrok). cbn [split2]. rewrite app_nil_r, rev_involutive.
    reflexivity.
  - change (text_of (row :: row' :: rows))
      with (row_text row ++ [ch_space; ch_space] ++ text_of (row' :: rows)).
    rewrite (split2_row row Hrne Hrok). cbn [app]. rewrite split2_sp2.
    rewrite app_nil_r, rev_involutive. rewrite IH; [reflexivity|discriminate|exact Hall].
Qed.

Lemma split1_row : forall row, row <> [] -> forallb oinstr_okb row = true ->
  split1 (row_text row) [] = map show_tok row.
Proof.
  induction row as [|o row IH]; intros Hne Hall; [contradiction|].
  cbn [forallb] in Hall. apply andb_true_iff in Hall. destruct Hall as [Ho Hall].
  destruct (show_tok_vis o Ho) as (a & b & c & Htok & Ha & Hb & Hc).
  destruct row as [|o' row].
  - unfold row_text. cbn [map join]. rewrite Htok.
    rewrite !split1_vis by (apply vis_not_space; assumption). reflexivity.
  - change (row_text (o :: o' :: row)) with (show_tok o ++ [ch_space] ++ row_text (o' :: row)).
    rewrite Htok. cbn [app].
    rewrite !split1_vis by (apply vis_not_space; assumption).
    rewrite split1_sp. rewrite IH; [|discriminate|exact Hall].
    cbn [map rev app]. rewrite Htok. reflexivity.
Qed.

Lemma edge_ok_text C rows : 1 <= C -> rows <> [] -> forallb (row_okb C) rows = true ->
  edge_ok (text_of rows).
Proof.
  intros HC Hne Hall. unfold text_of. apply edge_ok_join.
  - destruct rows; [contradiction|discriminate].
  - apply Forall_forall. intros t Ht. apply in_map_iff in Ht. destruct Ht as (row & <- & Hrow).
    rewrite forallb_forall in Hall. specialize (Hall row Hrow).
    destruct (row_okb_inv C row HC Hall) as [H1 H2]. apply edge_ok_row; assumption.
Qed.

(** ---------------------------------------------------------------- *)
(** * Parsing a matrix                                                *)

Lemma row_entries_keys : forall row r c,
  Forall (fun kv : slot * instr => r = fst (fst kv) /\ c <= snd (fst kv)) (row_entries r c row).
Proof.
  induction row as [|[i|] row IH]; intros r c; cbn [row_entries].
  - constructor.
  - constructor; [cbn [fst snd]; split; [reflexivity|lia]|].
    eapply Forall_impl; [|apply (IH r (c + 1))]. cbn beta. intros kv [H1 H2]. split; [exact H1|lia].
  - eapply Forall_impl; [|apply (IH r (c + 1))]. cbn beta. intros kv [H1 H2]. split; [exact H1|lia].
Qed.

Lemma rows_entries_keys : forall rows r,
  Forall (fun kv : slot * instr => r <= fst (fst kv)) (rows_entries r rows).
Proof.
  induction rows as [|row rows IH]; intros r; cbn [rows_entries]; [constructor|].
  apply Forall_app. split.
  - eapply Forall_impl; [|apply (row_entries_keys row r 0)]. cbn beta. intros kv [H1 _]. lia.
  - eapply Forall_impl; [|apply (IH (r + 1))]. cbn beta. intros kv H. lia.
Qed.

Lemma below_snoc r c i acc : below (r, c) acc -> below (r, c + 1) (acc ++ [((r, c), i)]).
Proof.
  intros H. apply Forall_app. split.
  - apply (below_mono (r, c)); [exact H|]. apply slot_ltb_spec. cbn [fst snd]. lia.
  - constructor; [|constructor]. apply slot_ltb_spec. cbn [fst snd]. lia.
Qed.

Lemma parse_row_matrix : forall row r c acc,
  forallb oinstr_okb row = true -> below (r, c) acc ->
  parse_row r c (map show_tok row) acc = Some (acc ++ row_entries r c row)
  /\ below (r + 1, 0) (acc ++ row_entries r c row).
Proof.
  induction row as [|o row IH]; intros r c acc Hall Hb.
  - cbn [map parse_row row_entries]. rewrite app_nil_r. split; [reflexivity|].
    apply (below_mono (r, c)); [exact Hb|]. apply slot_ltb_spec. cbn [fst snd]. lia.
  - cbn [forallb] in Hall. apply andb_true_iff in Hall. destruct Hall as [Ho Hall].
    cbn [map parse_row]. rewrite (read_instr_tok o Ho). destruct o as [i|]; cbn [row_entries].
    + rewrite cp_insert_below by exact Hb.
      destruct (IH r (c + 1) (acc ++ [((r, c), i)]) Hall (below_snoc r c i acc Hb)) as [H1 H2].
      rewrite <- app_assoc in H1, H2. cbn [app] in H1, H2. split; assumption.
    + apply IH; [exact Hall|]. apply (below_mono (r, c)); [exact Hb|].
      apply slot_ltb_spec. cbn [fst snd]. lia.
Qed.

Lemma parse_rows_matrix C : 1 <= C -> forall rows r acc,
  forallb (row_okb C) rows = true -> below (r, 0) acc ->
  parse_rows r (map row_text rows) acc = Some (acc ++ rows_entries r rows).
Proof.
  intros HC. induction rows as [|row rows IH]; intros r acc Hall Hb.
  - cbn [map parse_rows rows_entries]. rewrite app_nil_r. reflexivity.
  - cbn [forallb] in Hall. apply andb_true_iff in Hall. destruct Hall as [Hrow Hall].
    destruct (row_okb_inv C row HC Hrow) as [Hrne Hrok].
    cbn [map parse_rows rows_entries]. rewrite (split1_row row Hrne Hrok).
    destruct (parse_row_matrix row r 0 acc Hrok Hb) as [H1 H2]. rewrite H1.
    rewrite (IH (r + 1) _ Hall H2). rewrite <- app_assoc. reflexivity.
Qed.

Lemma matrix_okb_inv S C rows : matrix_okb S C rows = true ->
  length rows = N.to_nat S /\ forallb (row_okb C) rows = true.
Proof.
  unfold matrix_okb. rewrite andb_true_iff, N.eqb_eq. intros [H1 H2]. split; [lia|exact H2].
Qed.

(** parsing the text of a matrix gives the row-major list of its entries *)
Lemma from_str_matrix S C rows : 1 <= S -> 1 <= C -> matrix_okb S C rows = true ->
  from_str (text_of rows) = Some (table_of rows).
Proof.
  intros HS HC H. destruct (matrix_okb_inv S C rows H) as [Hlen Hall].
  assert (Hne : rows <> []) by (intros ->; cbn in Hlen; lia).
  unfold from_str. rewrite (trim_edge_ok _ (edge_ok_text C rows HC Hne Hall)).
  rewrite (split2_text C HC rows Hne Hall).
  rewrite (parse_rows_matrix C HC rows 0 [] Hall); [reflexivity|constructor].
Qed.

(** ---------------------------------------------------------------- *)
(** * Lookups in the table of a matrix                                *)

Ltac bt t := replace t with true
  by (symmetry; first [apply N.leb_le; lia | apply N.eqb_eq; lia | apply N.ltb_lt; lia]).
Ltac bf t := replace t with false
  by (symmetry; first [apply N.leb_gt; lia | apply N.eqb_neq; lia | apply N.ltb_ge; lia]).

Lemma row_get : forall row r c0 r' c',
  cp_get (row_entries r c0 row) (r', c') =
  if (r' =? r) && (c0 <=? c') then nth (N.to_nat (c' - c0)) row None else None.
Proof.
  induction row as [|o row IH]; intros r c0 r' c'.
  - cbn [row_entries cp_get]. destruct ((r' =? r) && (c0 <=? c')); [|reflexivity].
    destruct (N.to_nat (c' - c0)); reflexivity.
  - assert (Hrest : cp_get (row_entries r (c0 + 1) row) (r', c') =
                    if (r' =? r) && (c0 + 1 <=? c')
                    then nth (N.to_nat (c' - c0)) (o :: row) None else None).
    { rewrite IH. destruct ((r' =? r) && (c0 + 1 <=? c')) eqn:E; [|reflexivity].
      apply andb_true_iff in E. destruct E as [_ E]. apply N.leb_le in E.
      replace (N.to_nat (c' - c0)) with (Datatypes.S (N.to_nat (c' - (c0 + 1)))) by lia.
      reflexivity. }
    assert (Hhead : forall x, (if (r' =? r) && (c0 =? c') then x
                               else if (r' =? r) && (c0 + 1 <=? c')
                                    then nth (N.to_nat (c' - c0)) (o :: row) None else None)
                    = if (r' =? r) && (c0 <=? c')
                      then (if c0 =? c' then x else nth (N.to_nat (c' - c0)) (o :: row) None)
                      else None).
    { intros x. destruct (r' =? r); cbn [andb]; [|reflexivity].
      destruct (N.lt_trichotomy c' c0) as [Hc|[Hc|Hc]].
      - bf (c0 =? c'). bf (c0 + 1 <=? c'). bf (c0 <=? c'). reflexivity.
      - bt (c0 =? c'). bt (c0 <=? c'). reflexivity.
      - bf (c0 =? c'). bt (c0 + 1 <=? c'). bt (c0 <=? c'). reflexivity. }
    destruct o as [i|]; cbn [row_entries cp_get].
    + unfold slot_eqb at 1. cbn [fst snd]. rewrite (N.eqb_sym r r'), Hrest, Hhead.
      destruct ((r' =? r) && (c0 <=? c')); [|reflexivity].
      destruct (N.eqb_spec c0 c') as [E|E]; [|reflexivity].
      subst c'. rewrite N.sub_diag. reflexivity.
    + rewrite Hrest. specialize (Hhead None).
      destruct (N.eqb_spec c0 c') as [E|E].
      * subst c'. bf (c0 + 1 <=? c0). rewrite andb_false_r, N.leb_refl, N.sub_diag.
        destruct (r' =? r); reflexivity.
      * rewrite andb_false_r in Hhead. exact Hhead.
Qed.

Lemma rows_get : forall rows r0 r c,
  cp_get (rows_entries r0 rows) (r, c) =
  if r0 <=? r then nth (N.to_nat c) (nth (N.to_nat (r - r0)) rows []) None else None.
Proof.
  induction rows as [|row rows IH]; intros r0 r c.
  - cbn [rows_entries cp_get]. destruct (r0 <=? r); [|reflexivity].
    destruct (N.to_nat (r - r0)); destruct (N.to_nat c); reflexivity.
  - cbn [rows_entries]. rewrite cp_get_app, row_get, IH, N.sub_0_r.
    replace (0 <=? c) with true by (symmetry; apply N.leb_le; lia). rewrite andb_true_r.
    destruct (N.eqb_spec r r0) as [E|E].
    + subst r. rewrite N.leb_refl, N.sub_diag.
      replace (r0 + 1 <=? r0) with false by (symmetry; apply N.leb_gt; lia).
      cbn [N.to_nat nth]. destruct (nth (N.to_nat c) row None); reflexivity.
    + destruct (N.leb_spec r0 r) as [H|H].
      * replace (r0 + 1 <=? r) with true by (symmetry; apply N.leb_le; lia).
        replace (N.to_nat (r - r0)) with (Datatypes.S (N.to_nat (r - (r0 + 1)))) by lia.
        reflexivity.
      * replace (r0 + 1 <=? r) with false by (symmetry; apply N.leb_gt; lia). reflexivity.
Qed.

(** parse_places in its raw form *)
Lemma table_of_get rows r c :
  cp_get (table_of rows) (N.of_nat r, N.of_nat c) = nth c (nth r rows []) None.
Proof.
  unfold table_of. rewrite rows_get, N.sub_0_r, !Nat2N.id.
  bt (0 <=? N.of_nat r). reflexivity.
Qed.

(** the table of a matrix is sorted *)
Lemma row_entries_sorted : forall row r c, sortedP (row_entries r c row).
Proof.
  induction row as [|[i|] row IH]; intros r c; cbn [row_entries]; [exact I| |apply IH].
  cbn [sortedP fst]. split; [|apply IH].
  eapply Forall_impl; [|apply (row_entries_keys row r (c + 1))]. cbn beta. intros kv [H1 H2].
  apply slot_ltb_spec. cbn [fst snd]. lia.
Qed.

Lemma rows_entries_sorted : forall rows r, sortedP (rows_entries r rows).
Proof.
  induction rows as [|row rows IH]; intros r; cbn [rows_entries]; [exact I|].
  apply sortedP_app; [apply row_entries_sorted|apply IH|].
  intros x y Hx Hy.
  pose proof (row_entries_keys row r 0) as K1. rewrite Forall_forall in K1.
  pose proof (rows_entries_keys rows (r + 1)) as K2. rewrite Forall_forall in K2.
  specialize (K1 x Hx). specialize (K2 y Hy). cbn beta in K1, K2.
  apply slot_ltb_spec. lia.
Qed.

(** ---------------------------------------------------------------- *)
(** * Printing a table                                                *)

Lemma all_some_map {A B} (f : A -> option B) (g : A -> B) l :
  (forall x, In x l -> f x = Some (g x)) -> all_some (map f l) = Some (map g l).
Proof.
  induction l as [|x l IH]; intros H; [reflexivity|].
  cbn [map all_some]. rewrite (H x (or_introl eq_refl)).
  rewrite IH; [reflexivity|]. intros y Hy. apply H. right. exact Hy.
Qed.

Lemma cp_get_In p k v : cp_get p k = Some v -> In (k, v) p.
Proof.
  induction p as [|[k' v'] p IH]; cbn [cp_get]; [discriminate|].
  destruct (slot_eqb k' k) eqn:E.
  - intros H. inversion H; subst. apply slot_eqb_spec in E. subst. left. reflexivity.
  - intros H. right. exact (IH H).
Qed.

Lemma sortedP_In_get : forall p k v, sortedP p -> In (k, v) p -> cp_get p k = Some v.
Proof.
  induction p as [|[k' v'] p IH]; intros k v Hs Hin; [contradiction|].
  destruct Hs as [Hab Hs]. cbn [cp_get]. destruct Hin as [E|Hin].
  - inversion E; subst. rewrite slot_eqb_refl. reflexivity.
  - cbn [fst] in Hab. unfold above in Hab. rewrite Forall_forall in Hab.
    specialize (Hab _ Hin). cbn [fst] in Hab. rewrite (slot_ltb_neq' _ _ Hab).
    apply IH; assumption.
Qed.

Definition values_okb (tbl : comp_prog) : bool :=
  forallb (fun kv : slot * instr => instr_okb (snd kv)) tbl.

Lemma values_ok_get tbl k : values_okb tbl = true -> oinstr_okb (cp_get tbl k) = true.
Proof.
  intros H. destruct (cp_get tbl k) as [i|] eqn:E; [|reflexivity].
  apply cp_get_In in E. unfold values_okb in H. rewrite forallb_forall in H.
  exact (H _ E).
Qed.

(** [show] with an explicit size prints the S x C matrix of lookups *)
Lemma show_matrix S C tbl : values_okb tbl = true ->
  show tbl (Some (S, C)) = Some (text_of (matrix_of S C tbl)).
Proof.
  intros Hv. unfold show, show_dims.
  rewrite (all_some_map _ (fun st => row_text (map (fun co => cp_get tbl (st, co)) (range 0 C)))).
  - unfold text_of, matrix_of. rewrite map_map. reflexivity.
  - intros st _.
    rewrite (all_some_map _ (fun co => show_tok (cp_get tbl (st, co)))).
    + unfold row_text. rewrite map_map. reflexivity.
    + intros co _. apply show_instr_tok. apply values_ok_get. exact Hv.
Qed.

Lemma N_range_length : forall n lo, length (N_range n lo) = n.
Proof. induction n as [|n IH]; intros lo; cbn [N_range length]; [reflexivity|]. rewrite IH. reflexivity. Qed.

Lemma nth_map_range {A} (f : N -> A) (d : A) : forall n lo i,
  nth i (map f (N_range n lo)) d = if (i <? n)%nat then f (lo + N.of_nat i) else d.
Proof.
  induction n as [|n IH]; intros lo i; cbn [N_range map].
  - destruct i; reflexivity.
  - destruct i as [|i]; cbn [nth].
    + change (0 <? Datatypes.S n)%nat with true. cbn iota. rewrite N.add_0_r. reflexivity.
    + rewrite IH. change (Datatypes.S i <? Datatypes.S n)%nat with (i <? n)%nat.
      destruct (i <? n)%nat; [|reflexivity]. f_equal. lia.
Qed.

Lemma matrix_of_length S C tbl : length (matrix_of S C tbl) = N.to_nat S.
Proof. unfold matrix_of, range. rewrite map_length, N_range_length, N.sub_0_r. reflexivity. Qed.

Lemma matrix_of_row S C tbl r : (r < N.to_nat S)%nat ->
  nth r (matrix_of S C tbl) [] = map (fun co => cp_get tbl (N.of_nat r, co)) (range 0 C).
Proof.
  intros H. unfold matrix_of, range at 2. rewrite N.sub_0_r, nth_map_range.
  apply Nat.ltb_lt in H. rewrite H, N.add_0_l. reflexivity.
Qed.

Lemma matrix_of_ok S C tbl : values_okb tbl = true -> matrix_okb S C (matrix_of S C tbl) = true.
Proof.
  intros Hv. unfold matrix_okb. rewrite matrix_of_length, N2Nat.id, N.eqb_refl. cbn [andb].
  apply forallb_forall. intros row Hrow. unfold matrix_of in Hrow.
  apply in_map_iff in Hrow. destruct Hrow as (st & <- & _).
  unfold range. rewrite map_length, N_range_length, N.sub_0_r, N2Nat.id, N.eqb_refl. cbn [andb].
  apply forallb_forall. intros o Ho. apply in_map_iff in Ho. destruct Ho as (co & <- & _).
  apply values_ok_get. exact Hv.
Qed.

Lemma matrix_of_get S C tbl r c :
  nth (N.to_nat c) (nth (N.to_nat r) (matrix_of S C tbl) []) None =
  if (r <? S) && (c <? C) then cp_get tbl (r, c) else None.
Proof.
  destruct (N.ltb_spec r S) as [Hr|Hr]; cbn [andb].
  - rewrite matrix_of_row by lia. unfold range. rewrite N.sub_0_r, nth_map_range, !N2Nat.id, N.add_0_l.
    destruct (N.ltb_spec c C) as [Hc|Hc].
    + replace (N.to_nat c <? N.to_nat C)%nat with true by (symmetry; apply Nat.ltb_lt; lia).
      reflexivity.
    + replace (N.to_nat c <? N.to_nat C)%nat with false by (symmetry; apply Nat.ltb_ge; lia).
      reflexivity.
  - rewrite (nth_overflow (matrix_of S C tbl) []) by (rewrite matrix_of_length; lia).
    destruct (N.to_nat c); reflexivity.
Qed.

Lemma table_okb_inv S C tbl : table_okb S C tbl = true ->
  sortedP tbl /\ values_okb tbl = true /\
  (forall r c v, cp_get tbl (r, c) = Some v -> r < S /\ c < C).
Proof.
  unfold table_okb. rewrite andb_true_iff. intros [Hs Hall]. split; [apply cp_sortedb_sortedP; exact Hs|].
  rewrite forallb_forall in Hall. split.
  - unfold values_okb. apply forallb_forall. intros kv Hkv. specialize (Hall kv Hkv).
    unfold entry_okb in Hall. apply andb_true_iff in Hall. tauto.
  - intros r c v Hget. apply cp_get_In in Hget. specialize (Hall _ Hget).
    unfold entry_okb in Hall. cbn [fst snd] in Hall.
    rewrite !andb_true_iff, !N.ltb_lt in Hall. tauto.
Qed.

(** a sorted in-range table is the table of its own matrix *)
Lemma table_of_matrix_of S C tbl : table_okb S C tbl = true -> table_of (matrix_of S C tbl) = tbl.
Proof.
  intros H. destruct (table_okb_inv S C tbl H) as (Hs & Hv & Hr).
  apply sorted_ext; [apply rows_entries_sorted|exact Hs|].
  intros [r c]. unfold table_of. rewrite rows_get, N.sub_0_r.
  bt (0 <=? r). rewrite matrix_of_get.
  destruct ((r <? S) && (c <? C)) eqn:E; [reflexivity|].
  destruct (cp_get tbl (r, c)) as [v|] eqn:G; [|reflexivity].
  destruct (Hr r c v G) as [H1 H2]. apply N.ltb_lt in H1, H2. rewrite H1, H2 in E. discriminate.
Qed.

(** an S x C matrix is the matrix of its own table *)
Lemma matrix_of_table_of S C rows : matrix_okb S C rows = true ->
  matrix_of S C (table_of rows) = rows.
Proof.
  intros H. destruct (matrix_okb_inv S C rows H) as [Hlen Hall].
  apply (nth_ext _ _ [] []).
  - rewrite matrix_of_length. symmetry. exact Hlen.
  - intros r Hr. rewrite matrix_of_length in Hr. rewrite (matrix_of_row _ _ _ _ Hr).
    assert (Hrow : row_okb C (nth r rows []) = true).
    { rewrite forallb_forall in Hall. apply Hall. apply nth_In. lia. }
    apply andb_true_iff in Hrow. destruct Hrow as [Hl _]. apply N.eqb_eq in Hl.
    apply (nth_ext _ _ None None).
    + unfold range. rewrite map_length, N_range_length. lia.
    + intros c Hc. unfold range in *. rewrite map_length, N_range_length in Hc.
      rewrite nth_map_range. apply Nat.ltb_lt in Hc. rewrite Hc, N.add_0_l.
      apply table_of_get.
Qed.

(** ---------------------------------------------------------------- *)
(** * The round trips                                                 *)

Lemma show_parse S C tbl : 1 <= S -> 1 <= C -> table_ok S C tbl ->
  exists txt, show tbl (Some (S, C)) = Some txt /\ from_str txt = Some tbl.
Proof.
  intros HS HC H. destruct (table_okb_inv S C tbl H) as (Hs & Hv & Hr).
  exists (text_of (matrix_of S C tbl)). split; [apply show_matrix; exact Hv|].
  rewrite (from_str_matrix S C _ HS HC (matrix_of_ok S C tbl Hv)).
  rewrite (table_of_matrix_of S C tbl H). reflexivity.
Qed.

Lemma table_of_values_ok S C rows : matrix_okb S C rows = true -> values_okb (table_of rows) = true.
Proof.
  intros H. destruct (matrix_okb_inv S C rows H) as [Hlen Hall].
  unfold values_okb. apply forallb_forall. intros [[r c] i] Hin.
  assert (G : cp_get (table_of rows) (r, c) = Some i)
    by (apply sortedP_In_get; [apply rows_entries_sorted|exact Hin]).
  cbn [snd]. rewrite <- (N2Nat.id r), <- (N2Nat.id c), table_of_get in G.
  assert (Ho : oinstr_okb (Some i) = true); [|exact Ho].
  rewrite <- G. destruct (Nat.lt_ge_cases (N.to_nat r) (length rows)) as [Hr|Hr].
  - assert (Hrow : row_okb C (nth (N.to_nat r) rows []) = true).
    { rewrite forallb_forall in Hall. apply Hall. apply nth_In. exact Hr. }
    apply andb_true_iff in Hrow. destruct Hrow as [_ Hrow]. rewrite forallb_forall in Hrow.
    destruct (Nat.lt_ge_cases (N.to_nat c) (length (nth (N.to_nat r) rows []))) as [Hc|Hc].
    + apply Hrow. apply nth_In. exact Hc.
    + rewrite (nth_overflow _ _ Hc). reflexivity.
  - rewrite (nth_overflow _ _ Hr). destruct (N.to_nat c); reflexivity.
Qed.

Lemma parse_show_matrix S C rows : 1 <= S -> 1 <= C -> matrix_okb S C rows = true ->
  from_str (text_of rows) = Some (table_of rows) /\
  show (table_of rows) (Some (S, C)) = Some (text_of rows).
Proof.
  intros HS HC H. split; [apply (from_str_matrix S C); assumption|].
  rewrite (show_matrix S C _ (table_of_values_ok S C rows H)).
  rewrite (matrix_of_table_of S C rows H). reflexivity.
Qed.

Lemma parse_show S C txt : 1 <= S -> 1 <= C -> well_formed_text S C txt ->
  exists tbl, from_str txt = Some tbl /\ show tbl (Some (S, C)) = Some txt.
Proof.
  intros HS HC (rows & Hok & ->). exists (table_of rows).
  apply (parse_show_matrix S C); assumption.
Qed.

Lemma parse_places S C rows : 1 <= S -> 1 <= C -> matrix_okb S C rows = true ->
  exists tbl, from_str (text_of rows) = Some tbl /\
    forall r c : nat, cp_get tbl (N.of_nat r, N.of_nat c) = nth c (nth r rows []) None.
Proof.
  intros HS HC H. exists (table_of rows). split; [apply (from_str_matrix S C); assumption|].
  intros r c. apply table_of_get.
Qed.

(** ---------------------------------------------------------------- *)
(** * [show] without a size                                           *)

Lemma max_list_max a x l : max_list (N.max a x) l = N.max x (max_list a l).
Proof.
  induction l as [|y l IH]; cbn [max_list fold_right].
  - apply N.max_comm.
  - fold (max_list (N.max a x) l). fold (max_list a l). rewrite IH. lia.
Qed.

Lemma show_dims_fold : forall p a b,
  fold_left (fun (acc : N * N) (kv : slot * instr) =>
      let '((ss, sc), (ic, _, is_)) := kv in
      (N.max (N.max (fst acc) ss) is_, N.max (N.max (snd acc) sc) ic)) p (a, b)
  = (max_list a (states_of p), max_list b (colours_of p)).
Proof.
  induction p as [|[[ss sc] [[ic sh] is_]] p IH]; intros a b; [reflexivity|].
  cbn [fold_left fst snd]. rewrite IH.
  unfold states_of, colours_of. cbn [flat_map fst snd app].
  fold (states_of p). fold (colours_of p).
  cbn [max_list fold_right]. fold (max_list a (states_of p)). fold (max_list b (colours_of p)).
  rewrite !max_list_max. f_equal; lia.
Qed.

Lemma show_dims_none p :
  show_dims p None = (1 + max_list 1 (states_of p), 1 + max_list 1 (colours_of p)).
Proof. unfold show_dims. rewrite show_dims_fold. reflexivity. Qed.

Lemma show_none_params p :
  show p None = show p (Some (1 + max_list 1 (states_of p), 1 + max_list 1 (colours_of p))).
Proof. unfold show. rewrite show_dims_none. reflexivity. Qed.

(** ---------------------------------------------------------------- *)
(** * Corollaries used by the property file                           *)

Lemma show_well_formed S C tbl : table_ok S C tbl ->
  exists txt, show tbl (Some (S, C)) = Some txt /\ well_formed_text S C txt.
Proof.
  intros H. destruct (table_okb_inv S C tbl H) as (Hs & Hv & Hr).
  exists (text_of (matrix_of S C tbl)). split; [apply show_matrix; exact Hv|].
  exists (matrix_of S C tbl). split; [apply matrix_of_ok; exact Hv|reflexivity].
Qed.

Lemma table_of_ok S C rows : matrix_okb S C rows = true -> table_ok S C (table_of rows).
Proof.
  intros H. destruct (matrix_okb_inv S C rows H) as [Hlen Hall].
  pose proof (table_of_values_ok S C rows H) as Hv.
  unfold table_ok, table_okb. apply andb_true_iff. split.
  - apply sortedP_cp_sortedb. apply rows_entries_sorted.
  - apply forallb_forall. intros [[r c] i] Hin. unfold entry_okb. cbn [fst snd].
    unfold values_okb in Hv. rewrite forallb_forall in Hv.
    assert (Hi : instr_okb i = true) by exact (Hv _ Hin). rewrite Hi, andb_true_r.
    (* the key is inside the matrix: otherwise the lookup would be None *)
    assert (G : cp_get (table_of rows) (r, c) = Some i)
      by (apply sortedP_In_get; [apply rows_entries_sorted|exact Hin]).
    rewrite <- (N2Nat.id r), <- (N2Nat.id c), table_of_get in G.
    destruct (Nat.lt_ge_cases (N.to_nat r) (length rows)) as [Hr|Hr].
    + assert (Hrow : row_okb C (nth (N.to_nat r) rows []) = true).
      { rewrite forallb_forall in Hall. apply Hall. apply nth_In. exact Hr. }
      apply andb_true_iff in Hrow. destruct Hrow as [Hl _]. apply N.eqb_eq in Hl.
      destruct (Nat.lt_ge_cases (N.to_nat c) (length (nth (N.to_nat r) rows []))) as [Hc|Hc].
      * apply andb_true_iff. rewrite !N.ltb_lt. lia.
      * rewrite (nth_overflow _ _ Hc) in G. discriminate.
    + rewrite (nth_overflow _ _ Hr) in G. destruct (N.to_nat c); discriminate.
Qed.

Lemma parse_table_ok S C txt : 1 <= S -> 1 <= C -> well_formed_text S C txt ->
  exists tbl, from_str txt = Some tbl /\ table_ok S C tbl.
Proof.
  intros HS HC (rows & Hok & ->). exists (table_of rows).
  split; [apply (from_str_matrix S C); assumption|apply table_of_ok; exact Hok].
Qed.

Lemma parse_show_none S C txt : 1 <= S -> 1 <= C -> well_formed_text S C txt ->
  exists tbl, from_str txt = Some tbl /\
    (1 + max_list 1 (states_of tbl) = S -> 1 + max_list 1 (colours_of tbl) = C ->
     show tbl None = Some txt).
Proof.
  intros HS HC H. destruct (parse_show S C txt HS HC H) as (tbl & H1 & H2).
  exists tbl. split; [exact H1|]. intros E1 E2. rewrite show_none_params, E1, E2. exact H2.
Qed.

(** list equality test on code points, for checks by computation *)
Fixpoint forallb2_eq (a b : str) : bool :=
  match a, b with
  | [], [] => true
  | x :: a', y :: b' => (x =? y) && forallb2_eq a' b'
  | _, _ => false
  end.
