From BB Require Import Base TM Ref TapeModel InstrsModel RulesModel MachineModel ProverModel ReplayModel.
From BB Require Import TapeCanon RulesExact RuleSound ProverSound.
From BB.Properties Require Import C02.
Open Scope N_scope.

Check C02_apps_valid_real : forall comp lim r apps,
  run_prover_trace comp lim = Ok (r, apps) -> apps_valid (to_prog comp) apps ->
  apps_real (to_prog comp) apps.
Check C02_apps_replayed_real : forall comp lim r apps fuel,
  run_prover_trace comp lim = Ok (r, apps) -> apps_replay_ok comp fuel apps = true ->
  apps_real (to_prog comp) apps.
Check C02_reach_invariant : forall comp m s,
  iter_nat m (prover_body comp) prover_init = inl s -> apps_valid (to_prog comp) (ps_apps s) ->
  exists n z, tm_steps (to_prog comp) n init_config = Some (q_state (ps_q s), z) /\
    tape_eq z (unroll_tape (q_tape (ps_q s))) /\ canon_tape (q_tape (ps_q s)).
Check C02_reach_invariant_real : forall comp m s,
  iter_nat m (prover_body comp) prover_init = inl s -> apps_real (to_prog comp) (ps_apps s) ->
  exists n z, tm_steps (to_prog comp) n init_config = Some (q_state (ps_q s), z) /\
    tape_eq z (unroll_tape (q_tape (ps_q s))) /\ canon_tape (q_tape (ps_q s)).
Check C02_outcome_sound_given_rules : forall comp lim r apps,
  run_prover_trace comp lim = Ok (r, apps) -> apps_valid (to_prog comp) apps ->
  (r_result r = undfnd ->
     exists n q z, tm_steps (to_prog comp) n init_config = Some (q, z) /\
       r_last_slot r = Some (q, zc z) /\
       halts_at (to_prog comp) init_config n (q, zc z) /\ marks_of z = r_marks r) /\
  (r_result r = spnout ->
     exists n q z, tm_steps (to_prog comp) n init_config = Some (q, z) /\
       spinout_cfg (to_prog comp) (q, z) /\
       spins_out_at (to_prog comp) init_config n /\ marks_of z = r_marks r).
Check C02_outcome_sound_given_real : forall comp lim r apps,
  run_prover_trace comp lim = Ok (r, apps) -> apps_real (to_prog comp) apps ->
  (r_result r = undfnd ->
     exists n q z, tm_steps (to_prog comp) n init_config = Some (q, z) /\
       r_last_slot r = Some (q, zc z) /\
       halts_at (to_prog comp) init_config n (q, zc z) /\ marks_of z = r_marks r) /\
  (r_result r = spnout ->
     exists n q z, tm_steps (to_prog comp) n init_config = Some (q, z) /\
       spinout_cfg (to_prog comp) (q, z) /\
       spins_out_at (to_prog comp) init_config n /\ marks_of z = r_marks r).
Check C02_marks_real_given_rules : forall comp lim r apps,
  run_prover_trace comp lim = Ok (r, apps) -> apps_valid (to_prog comp) apps ->
  exists n q z, tm_steps (to_prog comp) n init_config = Some (q, z) /\ marks_of z = r_marks r.
Check C02_blank_infrul_sound : forall comp lim r apps,
  run_prover_trace comp lim = Ok (r, apps) -> apps_valid (to_prog comp) apps ->
  r_result r = infrul -> r_cycles r = 0 -> never_halts (to_prog comp) init_config.
Check C02_blank_infrul_sound_real : forall comp lim r apps,
  run_prover_trace comp lim = Ok (r, apps) -> apps_real (to_prog comp) apps ->
  r_result r = infrul -> r_cycles r = 0 -> never_halts (to_prog comp) init_config.
Check C02_norule_exact : forall comp lim r,
  run_prover comp lim = Ok r -> r_rulapp r = 0 ->
  (r_result r = undfnd \/ r_result r = spnout \/ r_result r = xlimit \/
   (r_result r = infrul /\ r_cycles r = 0)) ->
  r = run_quick comp lim.
Check C02_norule_eq_ref : forall comp lim r,
  run_prover comp lim = Ok r -> r_rulapp r = 0 ->
  (r_result r = undfnd \/ r_result r = spnout \/ r_result r = xlimit \/
   (r_result r = infrul /\ r_cycles r = 0)) ->
  (r_result r <> xlimit ->
     forall L, r_steps r < L ->
       let rr := ref_run (to_prog comp) L in
       rr_result rr = r_result r /\ rr_steps rr = r_steps r /\ rr_marks rr = r_marks r /\
       rr_blanks rr = r_blanks r /\ rr_last_slot rr = r_last_slot r) /\
  (r_result r = xlimit ->
     let rr := ref_run (to_prog comp) (r_steps r) in
       rr_result rr = xlimit /\ rr_steps rr = r_steps r /\ rr_marks rr = r_marks r /\
       rr_blanks rr = r_blanks r /\ rr_last_slot rr = r_last_slot r /\ lim <= r_steps r).
Check C02_rulapp_zero_no_apps : forall comp lim r apps,
  run_prover_trace comp lim = Ok (r, apps) -> r_rulapp r = 0 -> apps = [].
Check C02_prover_mono : forall comp n m r,
  run_prover comp n = Ok r -> r_result r <> xlimit -> n <= m -> run_prover comp m = Ok r.

(** F14 refutation witnesses *)
From BB Require Import F14Witness.
Check C02_F14_witness :
  from_str f14_text = Some f14_prog /\
  run_prover f14_prog 400 = Ok (mkRes undfnd 53 46 13 4 [] (Some (16, 0))) /\
  halts_at (to_prog f14_prog) init_config 79 (14, 0) /\
  (forall n sl, halts_at (to_prog f14_prog) init_config n sl -> n = 79%nat /\ sl = (14, 0)) /\
  (forall n, ~ halts_at (to_prog f14_prog) init_config n (16, 0)).
Check C02_verdict_refuted_F14 :
  exists comp lim r apps,
    run_prover_trace comp lim = Ok (r, apps) /\ r_result r = undfnd /\
    ~ (exists n q z, tm_steps (to_prog comp) n init_config = Some (q, z) /\
         r_last_slot r = Some (q, zc z) /\
         halts_at (to_prog comp) init_config n (q, zc z) /\ marks_of z = r_marks r).
Check C02_verdict_slot_refuted_F14 :
  exists comp lim r sl n' sl',
    run_prover comp lim = Ok r /\ r_result r = undfnd /\ r_last_slot r = Some sl /\
    (forall n, ~ halts_at (to_prog comp) init_config n sl) /\
    halts_at (to_prog comp) init_config n' sl' /\ sl' <> sl.
Check C02_outcome_unconditional_refuted_F14 :
  ~ (forall comp lim r apps,
       run_prover_trace comp lim = Ok (r, apps) -> r_result r = undfnd ->
       exists n q z, tm_steps (to_prog comp) n init_config = Some (q, z) /\
         r_last_slot r = Some (q, zc z) /\
         halts_at (to_prog comp) init_config n (q, zc z) /\ marks_of z = r_marks r).
Check C02_hypotheses_fail_F14 : forall r apps,
  run_prover_trace f14_prog 400 = Ok (r, apps) ->
  ~ apps_real (to_prog f14_prog) apps /\ ~ apps_valid (to_prog f14_prog) apps.

(** F16 refutation witnesses *)
From BB Require Import F16Witness.
Check C02_F16_witness :
  from_str f16_text = Some f16_prog /\
  run_prover f16_prog 1000 = Ok (mkRes spnout 153 75 1 6 [(5, 134)] None) /\
  halts_at (to_prog f16_prog) init_config 166 (20, 2) /\
  (forall n sl, halts_at (to_prog f16_prog) init_config n sl -> n = 166%nat /\ sl = (20, 2)) /\
  (forall n, (166 < n)%nat -> tm_steps (to_prog f16_prog) n init_config = None) /\
  never_spins_out (to_prog f16_prog) init_config /\
  (forall n, ~ spins_out_at (to_prog f16_prog) init_config n).
Check C02_verdict_refuted_F16 :
  exists comp lim r apps n' sl',
    run_prover_trace comp lim = Ok (r, apps) /\ r_result r = spnout /\
    halts_at (to_prog comp) init_config n' sl' /\
    never_spins_out (to_prog comp) init_config /\
    ~ (exists n q z, tm_steps (to_prog comp) n init_config = Some (q, z) /\
         spinout_cfg (to_prog comp) (q, z) /\
         spins_out_at (to_prog comp) init_config n /\ marks_of z = r_marks r).
Check C02_outcome_unconditional_refuted_F16 :
  ~ (forall comp lim r apps,
       run_prover_trace comp lim = Ok (r, apps) -> r_result r = spnout ->
       exists n q z, tm_steps (to_prog comp) n init_config = Some (q, z) /\
         spinout_cfg (to_prog comp) (q, z) /\
         spins_out_at (to_prog comp) init_config n /\ marks_of z = r_marks r).
Check C02_hypotheses_fail_F16 : forall r apps,
  run_prover_trace f16_prog 1000 = Ok (r, apps) ->
  ~ apps_real (to_prog f16_prog) apps /\ ~ apps_valid (to_prog f16_prog) apps.
