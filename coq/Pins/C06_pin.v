From BB Require Import Base TM InstrsModel CpsModel.
From BB Require Import CpsData CpsSound.
From BB.Properties Require Import C06.
Open Scope N_scope.

Check C06_cps_cant_halt_sound : forall order prog rad,
  order_ok order -> dims_ok prog -> cps_cant_halt order prog rad = Ok true ->
  forall n sl, ~ halts_at (to_prog prog) init_config n sl.

Check C06_cps_cant_blank_sound : forall order prog rad,
  order_ok order -> cps_cant_blank order prog rad = Ok true ->
  forall n, ~ erases_at (to_prog prog) init_config n.

Check C06_cps_cant_spin_out_sound : forall order prog rad,
  order_ok order -> cps_cant_spin_out order prog rad = Ok true ->
  forall n, ~ spins_out_at (to_prog prog) init_config n.

Check C06_cps_run_halt_sound : forall order prog rad,
  order_ok order -> cps_run order prog rad CpsHalt = Ok true ->
  forall n sl, ~ halts_at (to_prog prog) init_config n sl.

Check C06_cps_run_blank_sound : forall order prog rad,
  order_ok order -> cps_run order prog rad CpsBlank = Ok true ->
  forall n q, ~ blank_after (to_prog prog) init_config n q.

Check C06_cps_run_spinout_sound : forall order prog rad,
  order_ok order -> cps_run order prog rad CpsSpinout = Ok true ->
  never_spins_out (to_prog prog) init_config.

Check C06_cps_true_refuted_F2 : exists prog rad n sl,
  cps_cant_halt order_oldest_first prog rad = Ok true /\
  halts_at (to_prog prog) init_config n sl.

Check C06_covered_step : forall prog goal n cfgs q z q' z',
  covered n cfgs (q, z) -> checked prog goal cfgs (alpha n q z) ->
  tm_step (to_prog prog) (q, z) = Some (q', z') ->
  covered n cfgs (q', z').

Check C06_sweep_registers : forall order prog goal fuel cfgs cfgs',
  order_ok order -> cset_ok (c_seen cfgs) ->
  cps_loop_body order prog goal fuel cfgs = inl cfgs' ->
  cset_ok (c_seen cfgs') /\ cfgs_le cfgs cfgs' /\ all_registered prog cfgs'.

Check C06_closed_after_true : forall order prog goal fuel cfgs,
  order_ok order -> all_registered prog cfgs ->
  cps_loop_body order prog goal fuel cfgs = inr (Ok true) ->
  closed prog goal cfgs.

Check C06_cps_cant_reach_sound : forall order prog rad goal,
  order_ok order -> cps_cant_reach order prog rad goal = Ok true ->
  exists cfgs, cset_ok (c_seen cfgs) /\ closed prog goal cfgs /\
    forall n c, tm_steps (to_prog prog) n init_config = Some c ->
                covered (N.to_nat (rad - 1)) cfgs c.

Check C06_cps_run_sound : forall order prog rad goal,
  cps_run order prog rad goal = Ok true ->
  exists seg, cps_cant_reach order prog seg goal = Ok true.

Check C06_reach_in_box : forall p, dims_ok p ->
  forall n c, tm_steps (to_prog p) n init_config = Some c -> in_box p c.

Check C06_ctrie_get_upd : forall (A : Type) (k k2 : list N) f (t : ctrie A),
  ctrie_get k (ctrie_upd k f t) = Some (f (ctrie_get k t)) /\
  (k2 <> k -> ctrie_get k2 (ctrie_upd k f t) = ctrie_get k2 t).

Check C06_cset_insert_ok : forall x s,
  cset_ok s -> cset_ok (cset_insert x s) /\
  forall c, cset_mem c (cset_insert x s) = true <-> c = x \/ cset_mem c s = true.

Check C06_spans_spec : forall sp s,
  (forall w col, reg (add_span sp s) w col <-> reg sp w col \/ (w = sp_span s /\ col = sp_last s)) /\
  (forall colors, get_colors sp s = Ok colors ->
     Sorted.Sorted N.le colors /\ forall col, In col colors <-> reg sp (sp_span s) col) /\
  (get_colors sp s = Panic <-> ctrie_get (sp_span s) sp = None).

Check C06_orders_ok : order_ok order_oldest_first /\ order_ok order_newest_first.

Check C06_cps_mono : forall order prog r r' goal,
  cps_run order prog r goal = Ok true -> r <= r' -> cps_run order prog r' goal = Ok true.

Check C06_cps_cant_mono : forall order prog r r', r <= r' ->
  (cps_cant_halt order prog r = Ok true -> cps_cant_halt order prog r' = Ok true) /\
  (cps_cant_blank order prog r = Ok true -> cps_cant_blank order prog r' = Ok true) /\
  (cps_cant_spin_out order prog r = Ok true -> cps_cant_spin_out order prog r' = Ok true).
