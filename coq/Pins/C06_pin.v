From BB Require Import Base TM Ref InstrsModel CpsModel.
From BB.Properties Require Import C06.
Check C06_cps_true_refuted_F2 :
  exists prog rad n sl,
    cps_cant_halt order_oldest_first prog rad = Ok true /\ halts_at (to_prog prog) init_config n sl.
