(** Pinned statements of the C18 theorems: weakening a theorem breaks this file. *)
From BB Require Import Base NumExpr PyNumModModel NumMod.
From BB.Properties Require Import C18.
Open Scope Z_scope.

Check C18_mod_sound : forall e m v n,
  0 < m -> exps_gt1 e = true -> eval e = Some n -> mod_model e m = MVal v -> v = n mod m.
Check C18_mod_top_sound : forall e m v,
  exps_gt1 e = true -> eval e <> None -> mod_top e m = MVal v -> eval_mod e m = Some v.
Check C18_binexp_mod_spec : forall z base m,
  0 < m -> 1 <= z -> binexp z base m = base ^ z mod m.
Check C18_find_period_sound : forall base m p,
  0 < m -> find_period base m = MVal p -> 0 < p -> base ^ p mod m = 1.
Check C18_tables_sound : forall m rows r v k,
  pn_table m special_tables = Some rows -> pn_assoc r rows = Some v ->
  1 <= k -> k mod (m / 3) = r -> 2 ^ k mod m = v.
Check C18_hard_coded_residues : forall k,
  (forall b, 0 < b -> 1 <= k -> b ^ k mod b = 0) /\
  (forall b, 1 <= k -> b ^ k mod 2 = b mod 2) /\
  (2 <= k -> 2 ^ k mod 4 = 0) /\
  (1 <= k -> 2 ^ k mod 6 = if k mod 2 =? 0 then 4 else 2) /\
  (2 <= k -> 2 ^ k mod 12 = if k mod 2 =? 0 then 4 else 8) /\
  (1 <= k -> 2 ^ k mod 30 = if k mod 4 =? 3 then 8 else if k mod 4 =? 0 then 16
                            else if k mod 4 =? 1 then 2 else 4) /\
  (1 <= k -> 3 ^ k mod 6 = 3) /\
  (1 <= k -> 6 ^ k mod 10 = 6) /\
  (0 <= k -> 7 ^ k mod 12 = if k mod 2 =? 0 then 1 else 7).
Check C18_pow3_order_pow2 : forall j, 2 <= j -> 3 ^ (2 ^ Z.max (j - 2) 1) mod 2 ^ j = 1.
Check C18_pow2_period_2x3pow : forall m k, is_2x3pow m = true -> 2 < m -> 1 <= k ->
  2 ^ (k + m / 3) mod m = 2 ^ k mod m.
Check C18_eval_floor_of_eval : forall e n, eval e = Some n -> eval_floor e = Some n.
Check C18_exps_gt1_needed :
  let e := NExp 2 (NAdd (NInt (-4)) (NExp 2 (NInt 2))) in
  eval e = Some 1 /\ mod_top e 2 = MVal 0 /\ eval_mod e 2 = Some 1 /\ exps_gt1 e = false.
Check C18_exp_mod30_prefix_refuted :
  (forall k, 1 < k -> k mod 4 = 0 ->
     mod_model_prefix (NExp 2 (NInt k)) 30 = MVal 15 /\ 2 ^ k mod 30 = 16) /\
  mod_model_prefix (NExp 2 (NInt 4)) 30 = MVal 15 /\ 2 ^ 4 mod 30 = 16 /\ 16 <> 15 /\
  mod_model (NExp 2 (NInt 4)) 30 = MVal 16.
Check C18_exp3_mod4_prefix_refuted :
  (forall k, 1 < k ->
     mod_model_prefix (NExp 3 (NInt k)) 4 = MVal 1 /\ (k mod 2 = 1 -> 3 ^ k mod 4 = 3)) /\
  mod_model_prefix (NExp 3 (NInt 3)) 4 = MVal 1 /\ 3 ^ 3 mod 4 = 3 /\ 3 <> 1 /\
  mod_model (NExp 3 (NInt 3)) 4 = MVal 3.
(* the definitions the statements rest on, pinned too *)
Check eq_refl : eval_mod = fun e m => match eval e with Some n => Some (n mod m) | None => None end.
Check eq_refl : mod_top = fun e m => if m <=? 0 then MUnmodelled else mod_model e m.
Check eq_refl : (eval (NDiv (NInt 7) 2), eval (NDiv (NInt 8) 2), eval (NExp 2 (NInt (-1))), eval_floor (NDiv (NInt 7) 2))
              = (None, Some 4, None, Some 3).
