(** Pinned statements of the C18 theorems: weakening a theorem breaks this file. *)
From BB Require Import Base NumExpr PyNumModModel NumMod.
From BB.Properties Require Import C18.
Open Scope Z_scope.

Check C18_mod_sound : forall e m v n,
  0 < m -> exps_gt1 e = true -> eval e = Some n -> mod_model e m = MVal v -> v = n mod m.
Check C18_mod_top_sound : forall e m v,
  exps_gt1 e = true -> eval e <> None -> mod_top e m = MVal v -> eval_mod e m = Some v.
Check C18_binexp_mod_spec : forall z base m,
  0 < m -> 1 <= z -> binexp z base m = base ^ z mod m.
Check C18_find_period_sound : forall base m p,
  0 < m -> find_period base m = MVal p -> 0 < p -> base ^ p mod m = 1.
Check C18_tables_sound : forall m rows r v k,
  pn_table m special_tables = Some rows -> pn_assoc r rows = Some v ->
  1 <= k -> k mod (m / 3) = r -> 2 ^ k mod m = v.
Check C18_hard_coded_residues : forall k,
  (forall b, 0 < b -> 1 <= k -> b ^ k mod b = 0) /\
  (forall b, 1 <= k -> b ^ k mod 2 = b mod 2) /\
  (2 <= k -> 2 ^ k mod 4 = 0) /\
  (1 <= k -> 2 ^ k mod 6 = if k mod 2 =? 0 then 4 else 2) /\
  (2 <= k -> 2 ^ k mod 12 = if k mod 2 =? 0 then 4 else 8) /\
  (1 <= k -> 2 ^ k mod 30 = if k mod 4 =? 3 then 8 else if k mod 4 =? 0 then 16
                            else if k mod 4 =? 1 then 2 else 4) /\
  (1 <= k -> 3 ^ k mod 6 = 3) /\
  (1 <= k -> 6 ^ k mod 10 = 6) /\
  (0 <= k -> 7 ^ k mod 12 = if k mod 2 =? 0 then 1 else 7).
Check C18_pow3_order_pow2 : forall j, 2 <= j -> 3 ^ (2 ^ Z.max (j - 2) 1) mod 2 ^ j = 1.
Check C18_pow2_period_2x3pow : forall m k, is_2x3pow m = true -> 2 < m -> 1 <= k ->
  2 ^ (k + m / 3) mod m = 2 ^ k mod m.
Check C18_eval_floor_of_eval : forall e n, eval e = Some n -> eval_floor e = Some n.
Check C18_exps_gt1_needed :
  let e := NExp 2 (NAdd (NInt (-4)) (NExp 2 (NInt 2))) in
  eval e = Some 1 /\ mod_top e 2 = MVal 0 /\ eval_mod e 2 = Some 1 /\ exps_gt1 e = false.
Check C18_exp_mod30_prefix_refuted :
  (forall k, 1 < k -> k mod 4 = 0 ->
     mod_model_prefix (NExp 2 (NInt k)) 30 = MVal 15 /\ 2 ^ k mod 30 = 16) /\
  mod_model_prefix (NExp 2 (NInt 4)) 30 = MVal 15 /\ 2 ^ 4 mod 30 = 16 /\ 16 <> 15 /\
  mod_model (NExp 2 (NInt 4)) 30 = MVal 16.
Check C18_exp3_mod4_prefix_refuted :
  (forall k, 1 < k ->
     mod_model_prefix (NExp 3 (NInt k)) 4 = MVal 1 /\ (k mod 2 = 1 -> 3 ^ k mod 4 = 3)) /\
  mod_model_prefix (NExp 3 (NInt 3)) 4 = MVal 1 /\ 3 ^ 3 mod 4 = 3 /\ 3 <> 1 /\
  mod_model (NExp 3 (NInt 3)) 4 = MVal 3.
(* the definitions the statements rest on, pinned too *)
Check eq_refl : eval_mod = fun e m => match eval e with Some n => Some (n mod m) | None => None end.
Check eq_refl : mod_top = fun e m => if m <=? 0 then MUnmodelled else mod_model e m.
Check eq_refl : (eval (NDiv (NInt 7) 2), eval (NDiv (NInt 8) 2), eval (NExp 2 (NInt (-1))), eval_floor (NDiv (NInt 7) 2))
              = (None, Some 4, None, Some 3).

(* ---- int-operand fragment of the simplifier (Model/PyNumArithModel.v, Proofs/NumArith.v) ---- *)
From BB Require Import PyNumArithModel NumArith.
From Coq Require Import Znumtheory.
Check C18_arith_sound : forall fuel op x r v,
  arith true fuel op x = AVal r -> eval x = Some v -> op_pre op v -> eval r = Some (op_val op v).
Check C18_add_int_sound : forall fuel n x r v,
  arith true fuel (OAddI n) x = AVal r -> eval x = Some v -> eval r = Some (v + n).
Check C18_radd_int_sound : forall fuel n x r v,
  arith true fuel (ORadd n) x = AVal r -> eval x = Some v -> eval r = Some (n + v).
Check C18_sub_int_sound : forall fuel n x r v,
  arith true fuel (OSubI n) x = AVal r -> eval x = Some v -> eval r = Some (v - n).
Check C18_rsub_int_sound : forall fuel n x r v,
  arith true fuel (ORsub n) x = AVal r -> eval x = Some v -> eval r = Some (n - v).
Check C18_neg_sound : forall fuel x r v,
  arith true fuel ONeg x = AVal r -> eval x = Some v -> eval r = Some (- v).
Check C18_mul_int_sound : forall fuel n x r v,
  arith true fuel (OMulI n) x = AVal r -> eval x = Some v -> eval r = Some (v * n).
Check C18_rmul_int_sound : forall fuel n x r v,
  arith true fuel (ORmul n) x = AVal r -> eval x = Some v -> eval r = Some (n * v).
Check C18_floordiv_int_sound : forall fuel n x r v,
  arith true fuel (OFdiv n) x = AVal r -> eval x = Some v -> n <> 0 -> v mod n = 0 ->
  eval r = Some (v / n).
Check C18_pow_int_sound : forall fuel n x r v,
  arith true fuel (OPow n) x = AVal r -> eval x = Some v -> 0 <= n -> eval r = Some (v ^ n).
Check C18_make_exp_sound : forall fuel b x r v,
  arith true fuel (OMkExp b) x = AVal r -> eval x = Some v -> 0 <= v -> eval r = Some (b ^ v).
Check C18_gcd_sound : forall r l g v,
  gcd_h true l r = AVal g -> eval r = Some v -> (g | l) /\ (g | v).
Check C18_arith_chk_refines : forall fuel op x r,
  arith true fuel op x = AVal r -> arith false fuel op x = AVal r.
Check C18_arith_intexp_sound : forall fuel op x r v,
  int_exps x = true -> (is_mkexp op = true -> is_int x = true) ->
  arith false fuel op x = AVal r -> eval x = Some v -> op_pre op v ->
  eval r = Some (op_val op v) /\ int_exps r = true.
Check C18_floordiv_intexp_sound : forall fuel n x r v,
  int_exps x = true -> arith false fuel (OFdiv n) x = AVal r -> eval x = Some v ->
  n <> 0 -> v mod n = 0 -> eval r = Some (v / n).
Check C18_arith_nodiv_sound : forall fuel op x r v,
  not_fdiv op = true -> no_div x = true ->
  arith false fuel op x = AVal r -> eval x = Some v -> op_pre op v ->
  eval r = Some (op_val op v) /\ no_div r = true.
Check C18_symbolic_exponent_refuted :
  eval sym_witness = Some 24 /\ 24 mod 3 = 0 /\
  arith_top false (OFdiv 3) sym_witness =
    AVal (NMul (NAdd (NInt 1) (NMul (NInt 2) (NExp 6 (NAdd (NInt (-7)) (NExp 6 (NInt 1))))))
               (NExp 6 (NAdd (NInt (-5)) (NExp 6 (NAdd (NInt (-5)) (NExp 6 (NInt 1))))))) /\
  eval (NMul (NAdd (NInt 1) (NMul (NInt 2) (NExp 6 (NAdd (NInt (-7)) (NExp 6 (NInt 1))))))
             (NExp 6 (NAdd (NInt (-5)) (NExp 6 (NAdd (NInt (-5)) (NExp 6 (NInt 1))))))) = None /\
  arith_top true (OFdiv 3) sym_witness = AUnm /\
  gcd_h false 3 (NAdd (NInt 3) (NExp 6 (NAdd (NInt (-6)) (NExp 6 (NInt 1))))) = AVal 3 /\
  eval (NAdd (NInt 3) (NExp 6 (NAdd (NInt (-6)) (NExp 6 (NInt 1))))) = Some 4.
Check C18_arith_false_symexp_unsound :
  ~ (forall fuel n x r v, arith false fuel (OFdiv n) x = AVal r -> eval x = Some v ->
       n <> 0 -> v mod n = 0 -> eval r = Some (v / n)).
Check C18_gcd_prefix_unsound :
  gcd_h_prefix 54 (NAdd (NInt (-6)) (NExp 3 (NInt 2))) = AVal 6 /\
  eval (NAdd (NInt (-6)) (NExp 3 (NInt 2))) = Some 3 /\
  gcd_h_prefix 54 (NExp 3 (NInt 2)) = AVal 27 /\ eval (NExp 3 (NInt 2)) = Some 9 /\
  gcd_h false 54 (NAdd (NInt (-6)) (NExp 3 (NInt 2))) = AVal 3 /\
  gcd_h false 54 (NExp 3 (NInt 2)) = AVal 9.
Check C18_floordiv_prefix_refuted :
  eval fdiv_witness = Some 162 /\ 162 mod 54 = 0 /\ 162 / 54 = 3 /\
  arith_prefix_top (OFdiv 54) fdiv_witness = AVal (NInt 0) /\
  arith_top false (OFdiv 54) fdiv_witness = AVal (NInt 3).
Check C18_arith_prefix_fdiv_unsound :
  ~ (forall fuel n x r v, arith_prefix fuel (OFdiv n) x = AVal r -> eval x = Some v ->
       0 < n -> v mod n = 0 -> eval r = Some (v / n)).
Check C18_floordiv_negative_prefix_refuted :
  arith_prefix_top (OFdiv (-2)) (NExp 2 (NInt 3)) = AVal (NExp 2 (NInt 2)) /\
  eval (NExp 2 (NInt 3)) = Some 8 /\ 8 mod (-2) = 0 /\ 8 / (-2) = -4 /\ eval (NExp 2 (NInt 2)) = Some 4 /\
  arith_top false (OFdiv (-2)) (NExp 2 (NInt 3)) = AVal (NMul (NInt (-1)) (NExp 2 (NInt 2))).
(* the definitions these statements rest on, pinned too *)
Check eq_refl : op_pre = fun op v =>
  match op with OFdiv n => n <> 0 /\ v mod n = 0 | OPow n => 0 <= n | OMkExp _ => 0 <= v | _ => True end.
Check eq_refl : op_val = fun op v =>
  match op with
  | OAddI n => v + n | ORadd n => n + v | OSubI n => v - n | ORsub n => n - v | ONeg => - v
  | OMulI n => v * n | ORmul n => n * v | OFdiv n => v / n | OPow n => v ^ n | OMkExp b => b ^ v
  end.
Check eq_refl : arith = fix arith (chk : bool) (fuel : nat) (op : aop) (x : nexpr) {struct fuel} : ares nexpr :=
  match fuel with O => AUnm | S f => arith_step false chk (arith chk f) op x end.
Check eq_refl : arith_prefix = fix arith_prefix (fuel : nat) (op : aop) (x : nexpr) {struct fuel} : ares nexpr :=
  match fuel with O => AUnm | S f => arith_step true false (arith_prefix f) op x end.
Check eq_refl : arith_top = fun chk op x => arith chk arith_fuel op x.
Check eq_refl : arith_prefix_top = fun op x => arith_prefix arith_fuel op x.
Check eq_refl : gcd_h = fun chk => gcd_gen false chk.
Check eq_refl : gcd_h_prefix = gcd_gen true false.
Check eq_refl : gcdc = fun pre chk n y => gcd_gen pre chk n y.
Check eq_refl : gcd_exp_ret = fun chk e m g =>
  match e with NInt _ => AVal g | _ => if chk && negb (exp_ge e m) then AUnm else AVal g end.
Check eq_refl : exp_ge = fun e m => match eval e with Some k => m <=? k | None => false end.
Check eq_refl : fdiv_witness =
  NMul (NAdd (NInt (-6)) (NExp 3 (NInt 2))) (NMul (NInt 2) (NExp 3 (NInt 3))).
Check eq_refl : sym_witness =
  NMul (NAdd (NInt 3) (NExp 6 (NAdd (NInt (-6)) (NExp 6 (NInt 1)))))
       (NExp 6 (NAdd (NInt (-5)) (NExp 6 (NAdd (NInt (-5)) (NExp 6 (NInt 1)))))).
Check eq_refl : (no_div (NDiv (NInt 4) 2), no_div (NAdd (NInt 1) (NExp 2 (NInt 3))), not_fdiv (OFdiv 2), not_fdiv ONeg)
              = (false, true, false, true).
Check eq_refl : (int_exps (NExp 2 (NAdd (NInt 1) (NInt 2))), int_exps (NDiv (NAdd (NInt 1) (NExp 2 (NInt 3))) 2),
                 is_mkexp (OMkExp 2), is_mkexp ONeg, is_int (NInt 3), is_int (NExp 2 (NInt 3)))
              = (false, true, true, false, true, false).
