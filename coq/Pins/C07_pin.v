From BB Require Import Base TM TMabs Ref TapeModel InstrsModel MachineModel TranslatedCycle.
From BB.Properties Require Import C07.
Open Scope N_scope.

Check C07_rec_sound : forall comp lim,
  to_prog comp (0, 0) = Some (1, true, 1) ->
  match quick_term_or_rec comp lim with
  | RLimit => True
  | RRecur => never_halts (to_prog comp) init_config /\ never_spins_out (to_prog comp) init_config
  | RSpinout => exists n, spins_out_at (to_prog comp) init_config n
  | RUndefined sl => exists n, halts_at (to_prog comp) init_config n sl
  end.
Check C07_translated_cycle : forall P c1 c2 n lo hi d,
  (1 <= n)%nat -> a_steps P n c1 = Some c2 -> stays P n c1 lo hi ->
  a_q c2 = a_q c1 -> a_h c2 = (a_h c1 + d)%Z ->
  (forall x, (lo <= x <= hi)%Z -> a_t c2 (x + d)%Z = a_t c1 x) ->
  ((0 < d)%Z -> forall x, (hi < x)%Z -> a_t c2 (x + d)%Z = a_t c1 x) ->
  ((d < 0)%Z -> forall x, (x < lo)%Z -> a_t c2 (x + d)%Z = a_t c1 x) ->
  a_never_halts P c1.
Check C07_translated_cycle_no_spinout : forall P c1 c2 n lo hi d,
  (1 <= n)%nat -> a_steps P n c1 = Some c2 -> stays P n c1 lo hi ->
  a_q c2 = a_q c1 -> a_h c2 = (a_h c1 + d)%Z ->
  (forall x, (lo <= x <= hi)%Z -> a_t c2 (x + d)%Z = a_t c1 x) ->
  ((0 < d)%Z -> forall x, (hi < x)%Z -> a_t c2 (x + d)%Z = a_t c1 x) ->
  ((d < 0)%Z -> forall x, (x < lo)%Z -> a_t c2 (x + d)%Z = a_t c1 x) ->
  (forall i ci, (i < n)%nat -> a_steps P i c1 = Some ci -> ~ a_spinout_cfg P ci) ->
  forall m cm, a_steps P m c1 = Some cm -> ~ a_spinout_cfg P cm.
Check C07_rec_mono : forall comp n m,
  quick_term_or_rec comp n <> RLimit -> n <= m -> quick_term_or_rec comp m = quick_term_or_rec comp n.
