(** Pinned statements of the C14 theorems: weakening a theorem breaks this file. *)
From BB Require Import Base TM Graph InstrsModel GraphModel GraphConn.
From BB.Properties Require Import C14.
From Coq Require Import Sorted.

Check C14_from_str_wf : forall s p, from_str s = Some p -> cp_wf p.
Check C14_false_sound : forall p n,
  cp_wf p -> 1 <= n -> states_lt n (to_prog p) ->
  is_connected p n = Ok false ->
  exists s, s < n /\ (no_exit (to_prog p) s \/ ~ reach (to_prog p) s 0).
Check C14_false_not_sc : forall p n,
  cp_wf p -> 2 <= n -> states_lt n (to_prog p) ->
  is_connected p n = Ok false -> ~ strongly_connected (to_prog p) n.
Check C14_sc_true : forall p n,
  cp_wf p -> 2 <= n -> states_lt n (to_prog p) ->
  strongly_connected (to_prog p) n -> is_connected p n = Ok true.
Check C14_bound_never_cuts : forall p n,
  cp_wf p -> 1 <= n -> states_lt n (to_prog p) ->
  forall k, is_connected_fuel p n (N.to_nat n + k) = is_connected p n.
Check C14_true_reach : forall p n,
  cp_wf p -> states_lt n (to_prog p) ->
  is_connected p n = Ok true ->
  reach (to_prog p) (n - 1) 0 /\ forall s, s < n -> has_exit (to_prog p) s.
Check C14_exact : forall p n,
  cp_wf p -> 1 <= n -> states_lt n (to_prog p) ->
  (is_connected p n = Ok true <->
   (forall s, s < n -> has_exit (to_prog p) s) /\ reach (to_prog p) (n - 1) 0).
Check C14_has_exit_not_no_exit : forall P s, has_exit P s -> ~ no_exit P s.
Check C14_no_panic : forall p n,
  cp_wf p -> 1 <= n -> states_lt n (to_prog p) -> is_connected p n <> Panic.
Check C14_true_sc_given_order : forall p n,
  cp_wf p -> is_connected p n = Ok true ->
  (forall s, s < n -> reach (to_prog p) 0 s) ->
  (forall X, X < n -> ~ reach (to_prog p) X 0 -> reach (to_prog p) X (n - 1)) ->
  strongly_connected (to_prog p) n.
Check C14_tnf_iff : forall p n,
  cp_wf p -> TNF (to_prog p) n ->
  (is_connected p n = Ok true <-> strongly_connected (to_prog p) n).

(* the definitions the statements rest on, pinned too *)
Check eq_refl : edge = fun (P : prog) a b => exists c pr sh, P (a, c) = Some (pr, sh, b).
Check eq_refl : states_lt = fun n (P : prog) =>
  forall a c pr sh b, P (a, c) = Some (pr, sh, b) -> a < n /\ b < n.
Check eq_refl : strongly_connected = fun (P : prog) n => forall a b, a < n -> b < n -> reach P a b.
Check eq_refl : no_exit = fun (P : prog) s => forall b, edge P s b -> b = s.
Check eq_refl : has_exit = fun (P : prog) s => exists b, b <> s /\ edge P s b.
Check (reach_refl : forall P a, reach P a a).
Check (reach_step : forall P a b c, edge P a b -> reach P b c -> reach P a c).
Check (reach_ind : forall (P : prog) (Q : state -> state -> Prop),
  (forall a, Q a a) ->
  (forall a b c, edge P a b -> reach P b c -> Q b c -> Q a c) ->
  forall s s0, reach P s s0 -> Q s s0).
Check eq_refl : visits = fun (P : prog) (t : nat) s =>
  exists tp, tm_steps P t init_config = Some (s, tp).
Check eq_refl : slots_used = fun (P : prog) =>
  forall a c i, P (a, c) = Some i ->
    exists t tp, tm_steps P t init_config = Some (a, tp) /\ zc tp = c.
Check eq_refl : visit_order = fun (P : prog) =>
  forall t' s' s, visits P t' s' -> s < s' -> exists t, (t <= t')%nat /\ visits P t s.
Check eq_refl : TNF = fun (P : prog) n =>
  2 <= n /\ states_lt n P /\ slots_used P /\ visit_order P.
Check eq_refl : cp_wf = fun p => StronglySorted slot_lt (map fst p).
Check eq_refl : slot_lt = fun a b => slot_ltb a b = true.
Check eq_refl : to_prog = fun p => cp_get p.
Check eq_refl : is_connected_fuel = fun p states fuel =>
  let e := get_exitpoints p in
  if N.of_nat (length e) <? states then Ok false else
  if states =? 0 then Panic else
  match ep_get e (states - 1) with
  | None => Panic
  | Some init => conn_loop fuel e [] (rev init)
  end.
Check eq_refl : (fun p n => is_connected p n) = (fun p n => is_connected_fuel p n (N.to_nat n)).
