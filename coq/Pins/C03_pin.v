From BB Require Import Base TM Ref TapeModel InstrsModel RulesModel MachineModel ProverModel ReplayModel.
From BB Require Import TapeCanon StepSim RulesExact RuleSound ProverSound.
From BB Require Import SymRule SymRuleSound.
From BB.Properties Require Import C03.
Open Scope N_scope.

Check C03_apply_sound : forall P q r t0 t times t',
  RuleValid P q r t0 -> canon_tape t -> same_shape t t0 -> lens_eq t t0 ->
  rule_keys_nodup r -> apply_rule t r = Ok (Some times, t') ->
  exists n z, (N.to_nat times <= n)%nat /\
    tm_steps P n (q, unroll_tape t) = Some (q, z) /\
    tape_eq z (unroll_tape t') /\ canon_tape t'.
Check C03_apply_no_zero_block : forall r t times t',
  canon_tape t -> rule_keys_nodup r -> apply_rule t r = Ok (Some times, t') ->
  forall k, (k <= N.to_nat times)%nat ->
    Shifted r k t (shift_tape r k t) /\
    counts_pos_tape (shift_tape r k t) /\ canon_tape (shift_tape r k t).
Check C03_apply_no_spinout : forall P q r t0 t times t',
  RuleValid P q r t0 -> canon_tape t -> same_shape t t0 -> lens_eq t t0 ->
  rule_keys_nodup r -> apply_rule t r = Ok (Some times, t') ->
  exists n z, (N.to_nat times <= n)%nat /\
    tm_steps P n (q, unroll_tape t) = Some (q, z) /\
    tape_eq z (unroll_tape t') /\ canon_tape t' /\
    forall j c, (j <= n)%nat -> tm_steps P j (q, unroll_tape t) = Some c ->
      ~ spinout_cfg P c /\ ((j < n)%nat -> ~ halted_cfg P c).
Check C03_replay_sound : forall comp q t tq tt fuel,
  canon_tape t -> replay comp q t tq tt fuel = true ->
  exists k z', (1 <= k)%nat /\ tm_steps (to_prog comp) k (q, unroll_tape t) = Some (tq, z') /\
               tape_eq z' (unroll_tape tt).
Check C03_replay3_reached : forall comp q t tq tt fuel n,
  replay3 comp q t tq tt fuel = RpReached n -> replay comp q t tq tt fuel = true.
Check C03_make_rule_keys_nodup : forall c1 c2 c3 c4 r,
  make_rule c1 c2 c3 c4 = Ok (Some r) -> rule_keys_nodup r.
Check C03_trace_apps_are_applications : forall comp lim r apps,
  run_prover_trace comp lim = Ok (r, apps) ->
  forall a, In a apps ->
    apply_rule (app_before a) (app_rule a) = Ok (Some (app_times a), app_after a) /\
    canon_tape (app_before a) /\ rule_keys_nodup (app_rule a).
Check C03_prover_tape_canon : forall comp m s,
  iter_nat m (prover_body comp) prover_init = inl s -> canon_tape (q_tape (ps_q s)).
Check C03_trace_valid_apps_real : forall comp lim r apps,
  run_prover_trace comp lim = Ok (r, apps) -> apps_valid (to_prog comp) apps ->
  forall a, In a apps ->
    exists n z, (N.to_nat (app_times a) <= n)%nat /\
      tm_steps (to_prog comp) n (app_state a, unroll_tape (app_before a)) = Some (app_state a, z) /\
      tape_eq z (unroll_tape (app_after a)) /\ canon_tape (app_after a) /\
      forall j c, (j <= n)%nat ->
        tm_steps (to_prog comp) j (app_state a, unroll_tape (app_before a)) = Some c ->
        ~ spinout_cfg (to_prog comp) c /\ ((j < n)%nat -> ~ halted_cfg (to_prog comp) c).
Check C03_trace_replayed_apps_real : forall comp lim r apps fuel,
  run_prover_trace comp lim = Ok (r, apps) -> apps_replay_ok comp fuel apps = true ->
  forall a, In a apps ->
    exists n z, tm_steps (to_prog comp) n (app_state a, unroll_tape (app_before a)) = Some (app_state a, z) /\
                tape_eq z (unroll_tape (app_after a)).
Check C03_check_rule_sound : forall comp q t0 r m cycles restarts n req,
  check_rule comp q t0 r m cycles restarts = CCert n req ->
  forall t t1, canon_tape t -> same_shape t t0 -> lens_eq t t0 ->
    fixed_ok m t t0 -> req_ok req t -> Shifted r 1 t t1 ->
    exists k z, (1 <= k)%nat /\
      tm_steps (to_prog comp) k (q, unroll_tape t) = Some (q, z) /\
      tape_eq z (unroll_tape t1).
Check C03_check_rule_valid : forall comp q r t0 cycles restarts n req,
  check_rule comp q t0 r mask_all cycles restarts = CCert n req ->
  req_le_guard r t0 req = true ->
  RuleValid (to_prog comp) q r t0.
Check C03_cover_rule_valid : forall comp q r t0 cycles restarts fuel,
  cover comp q r cycles restarts (guard_bounds 1 mask_all r t0) fuel mask_all t0 = true ->
  RuleValid (to_prog comp) q r t0.
Check C03_cover_apply_sound : forall comp q r t0 cycles restarts fuel t times t',
  cover comp q r cycles restarts (guard_bounds 1 mask_all r t0) fuel mask_all t0 = true ->
  canon_tape t -> same_shape t t0 -> rule_keys_nodup r ->
  apply_rule t r = Ok (Some times, t') ->
  exists n z, (N.to_nat times <= n)%nat /\
    tm_steps (to_prog comp) n (q, unroll_tape t) = Some (q, z) /\
    tape_eq z (unroll_tape t') /\ canon_tape t'.
Check C03_apply_sound_above : forall comp q t0 r m cycles restarts n req t times t',
  check_rule comp q t0 r m cycles restarts = CCert n req ->
  app_covered m req t0 t r times = true ->
  canon_tape t -> same_shape t t0 -> rule_keys_nodup r ->
  apply_rule t r = Ok (Some times, t') ->
  exists k z, (N.to_nat times <= k)%nat /\
    tm_steps (to_prog comp) k (q, unroll_tape t) = Some (q, z) /\
    tape_eq z (unroll_tape t') /\ canon_tape t'.
Check C03_apps_certified_valid : forall comp cycles restarts fuel apps,
  apps_certified comp cycles restarts fuel apps = true -> apps_valid (to_prog comp) apps.
Check C03_test_rule_valid : RuleValid (to_prog C03_test_machine) 0 C03_test_rule C03_test_tape.
Check C03_apply_split_above : forall comp q t0 r m cycles restarts n req t times t',
  check_rule comp q t0 r m cycles restarts = CCert n req ->
  canon_tape t -> same_shape t t0 -> rule_keys_nodup r ->
  apply_rule t r = Ok (Some times, t') ->
  let K := max_covered m req t0 t r times in
  exists k z, (N.to_nat K <= k)%nat /\
    tm_steps (to_prog comp) k (q, unroll_tape t) = Some (q, z) /\
    tape_eq z (unroll_tape (shift_tape_N r K t)) /\
    canon_tape (shift_tape_N r K t) /\
    Shifted r (N.to_nat K) t (shift_tape_N r K t).
Check C03_cover_sig_apply_sound : forall comp q r cycles restarts fuel t0,
  cover_sig comp q r cycles restarts fuel t0 = true ->
  forall t times t', canon_tape t -> tape_sig t = tape_sig t0 -> rule_keys_nodup r ->
  apply_rule t r = Ok (Some times, t') ->
  exists n z, (N.to_nat times <= n)%nat /\
    tm_steps (to_prog comp) n (q, unroll_tape t) = Some (q, z) /\
    tape_eq z (unroll_tape t') /\ canon_tape t'.

(** F14 refutation witnesses *)
From BB Require Import F14Witness.
Check C03_application_refuted_F14 :
  exists comp lim r apps a,
    run_prover_trace comp lim = Ok (r, apps) /\ In a apps /\
    app_state a = 14 /\
    app_before a = mkTape 1 [(2, 6); (3, 1)] [(1, 5)] /\
    app_rule a = [((false, 0), Plus 1%Z); ((true, 0), Plus (-1)%Z)] /\
    app_times a = 4 /\
    app_after a = mkTape 1 [(2, 10); (3, 1)] [(1, 1)] /\
    apply_rule (app_before a) (app_rule a) = Ok (Some (app_times a), app_after a) /\
    ~ (exists n z, tm_steps (to_prog comp) n (app_state a, unroll_tape (app_before a)) = Some (app_state a, z) /\
                   tape_eq z (unroll_tape (app_after a))).
Check C03_application_not_real_F14 : forall n z,
  tm_steps (to_prog f14_prog) n (14, unroll_tape (mkTape 1 [(2, 6); (3, 1)] [(1, 5)])) = Some (14, z) ->
  ~ tape_eq z (unroll_tape (mkTape 1 [(2, 10); (3, 1)] [(1, 1)])).
Check C03_first_three_applications_real_F14 :
  (exists k z, (1 <= k)%nat /\
     tm_steps (to_prog f14_prog) k (14, unroll_tape f14_t0) = Some (14, z) /\
     tape_eq z (unroll_tape f14_t3)) /\
  Shifted f14_rule 1 f14_t3 f14_t4 /\ rule_guard f14_rule f14_t3 /\ canon_tape f14_t3 /\
  (forall n z, tm_steps (to_prog f14_prog) n (14, unroll_tape f14_t3) = Some (14, z) ->
     ~ tape_eq z (unroll_tape f14_t4)) /\
  ~ RuleValid (to_prog f14_prog) 14 f14_rule f14_t0.
Check C03_rule_invalid_F14 :
  ~ RuleValid (to_prog f14_prog) 14
      [((false, 0), Plus 1%Z); ((true, 0), Plus (-1)%Z)] (mkTape 1 [(2, 6); (3, 1)] [(1, 5)]).
(* the literals of the witness are pinned too *)
Check eq_refl : f14_t0 = mkTape 1 [(2, 6); (3, 1)] [(1, 5)].
Check eq_refl : f14_t3 = mkTape 1 [(2, 9); (3, 1)] [(1, 2)].
Check eq_refl : f14_t4 = mkTape 1 [(2, 10); (3, 1)] [(1, 1)].
Check eq_refl : f14_rule = [((false, 0), Plus 1%Z); ((true, 0), Plus (-1)%Z)].

(** F16 refutation witnesses *)
From BB Require Import F16Witness.
Check C03_application_refuted_F16 :
  exists comp lim r apps a,
    run_prover_trace comp lim = Ok (r, apps) /\ In a apps /\
    app_cycle a = 66 /\
    app_state a = 5 /\
    app_before a = mkTape 1 [(2, 1)] [(1, 4)] /\
    app_rule a = [((true, 0), Plus (-2)%Z)] /\
    app_times a = 1 /\
    app_after a = mkTape 1 [(2, 1)] [(1, 2)] /\
    apply_rule (app_before a) (app_rule a) = Ok (Some (app_times a), app_after a) /\
    ~ (exists n z, tm_steps (to_prog comp) n (app_state a, unroll_tape (app_before a)) = Some (app_state a, z) /\
                   tape_eq z (unroll_tape (app_after a))).
Check C03_application_not_real_F16 : forall n z,
  tm_steps (to_prog f16_prog) n (5, unroll_tape (mkTape 1 [(2, 1)] [(1, 4)])) = Some (5, z) ->
  ~ tape_eq z (unroll_tape (mkTape 1 [(2, 1)] [(1, 2)])).
Check C03_real_tape_has_zeros_F16 :
  (exists k z, (1 <= k)%nat /\
     tm_steps (to_prog f16_prog) k (5, unroll_tape (mkTape 1 [(2, 1)] [(1, 4)])) = Some (5, z) /\
     tape_eq z (unroll_tape (mkTape 1 [(0, 2); (2, 1)] [(1, 2)]))) /\
  tm_steps (to_prog f16_prog) 2 (5, unroll_tape (mkTape 1 [(2, 1)] [(1, 4)]))
    = Some (5, unroll_tape (mkTape 1 [(0, 2); (2, 1)] [(1, 2)])) /\
  (forall n z, tm_steps (to_prog f16_prog) n (5, unroll_tape (mkTape 1 [(2, 1)] [(1, 4)])) = Some (5, z) ->
     ~ tape_eq z (unroll_tape (mkTape 1 [(2, 1)] [(1, 2)]))) /\
  halts_at (to_prog f16_prog) (5, unroll_tape (mkTape 1 [(2, 1)] [(1, 4)])) 11 (20, 2) /\
  replay3 f16_prog 5 (mkTape 1 [(2, 1)] [(1, 4)]) 5 (mkTape 1 [(2, 1)] [(1, 2)]) 100 = RpStopped 11 /\
  replay3 f16_prog 5 (mkTape 1 [(2, 1)] [(1, 4)]) 5 (mkTape 1 [(0, 2); (2, 1)] [(1, 2)]) 100 = RpReached 2.
Check C03_first_application_real_F16 :
  exists k z, (1 <= k)%nat /\
    tm_steps (to_prog f16_prog) k (5, unroll_tape (mkTape 1 [] [(1, 11)])) = Some (5, z) /\
    tape_eq z (unroll_tape (mkTape 1 [] [(1, 1)])).
(* the literals of the witness are pinned too *)
Check eq_refl : f16_t0 = mkTape 1 [(2, 1)] [(1, 4)].
Check eq_refl : f16_t1 = mkTape 1 [(2, 1)] [(1, 2)].
Check eq_refl : f16_tz = mkTape 1 [(0, 2); (2, 1)] [(1, 2)].
Check eq_refl : f16_rule = [((true, 0), Plus (-2)%Z)].
Check eq_refl : unroll_tape f16_t1 = {| zl := [2]; zc := 1; zr := [1; 1] |}.
Check eq_refl : unroll_tape f16_tz = {| zl := [0; 0; 2]; zc := 1; zr := [1; 1] |}.
