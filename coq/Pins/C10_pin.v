(** Pinned statements of the C10 theorems: weakening a theorem or changing
    the specification breaks this file. *)
From BB Require Import Base InstrsModel TapeModel TreeModel TreeSpec.
From BB.Properties Require Import C10.

Check C10_sound_complete : forall params halt lim progs,
  build_tree params halt lim = Ok progs -> forall p, In p progs <-> Gen params halt lim p.
Check C10_nodup : forall params halt lim progs,
  build_tree params halt lim = Ok progs -> NoDup progs.
Check C10_nodup_tables : forall params halt lim progs,
  build_tree params halt lim = Ok progs ->
  ForallOrdPairs (fun p q => exists k, cp_get p k <> cp_get q k) progs.
Check C10_schedule_indep : forall params halt lim progs,
  build_tree params halt lim = Ok progs ->
  forall order, Permutation order (make_instrs (N.min 3 (fst params)) (N.min 3 (snd params))) ->
  forall merged, IsInterleaving merged (map (subtree_seq params halt lim) order) ->
  Permutation merged progs.
Check C10_task_accumulator : forall params halt lim i acc r,
  build_subtree params halt lim i acc = Ok r ->
  exists h, r = h ++ acc /\ forall acc', build_subtree params halt lim i acc' = Ok (h ++ acc').
Check C10_branch_accumulator : forall fuel i prog st tp lim avail params rem acc r,
  branch fuel i prog st tp lim avail params rem acc = Ok r ->
  exists h, r = h ++ acc /\ forall acc', branch fuel i prog st tp lim avail params rem acc' = Ok (h ++ acc').
Check C10_tnf : forall params halt lim progs,
  build_tree params halt lim = Ok progs -> forall p, In p progs -> cp_get p (0, 0) = Some (1, true, 1).
Check C10_tnf_order : forall params halt lim progs,
  build_tree params halt lim = Ok progs ->
  forall p, In p progs -> forall s, 0 < s -> state_mentioned p s -> entered_from_lower p s.
Check C10_no_panic_gen : forall ns nc (halt : bool) lim,
  (if halt then 4 else 3) <= ns * nc -> ns * nc <= u64_max ->
  build_tree (ns, nc) halt lim <> Panic.
Check C10_no_panic : forall ns nc halt lim,
  2 <= ns -> 2 <= nc -> ns * nc <= 2 ^ 32 -> build_tree (ns, nc) halt lim <> Panic.
Check C10_make_instrs_spec : forall s c co sh tr,
  In (co, sh, tr) (make_instrs s c) <-> co < c /\ tr < s.
Check C10_make_instrs_nodup : forall s c, NoDup (make_instrs s c).
Check C10_update_avail_spec : forall a m x y,
  (a < m /\ 1 + N.max x y = a -> update_avail a m x y = a + 1) /\
  (~ (a < m /\ 1 + N.max x y = a) -> update_avail a m x y = a).
Check C10_leaf_filter : forall prog params acc,
  (mentions_last params prog -> leaf prog params acc = prog :: acc) /\
  (~ mentions_last params prog -> leaf prog params acc = acc).

(* the definitions the statements rest on, pinned too *)
Check eq_refl : instr_colour = fun i : instr => fst (fst i).
Check eq_refl : instr_target = fun i : instr => snd i.
Check eq_refl : mentions_last = fun (params : N * N) (p : comp_prog) =>
  (exists k i, In (k, i) p /\ fst params <= 1 + instr_target i) /\
  (exists k i, In (k, i) p /\ snd params <= 1 + instr_colour i).
Check eq_refl : next_avail = fun (params avail : N * N) (sl : slot) (i : instr) =>
  (update_avail (fst avail) (fst params) (fst sl) (instr_target i),
   update_avail (snd avail) (snd params) (snd sl) (instr_colour i)).
Check eq_refl : slot_budget = fun (params : N * N) (halt : bool) =>
  fst params * snd params - 1 - (if halt then 2 else 1).
Check eq_refl : start_prog = fun i : instr => cp_insert (1, 0) i (cp_insert (0, 0) (1, true, 1) []).
Check eq_refl : Gen = fun (params : N * N) (halt : bool) (lim : N) (p : comp_prog) =>
  exists i,
    In i (make_instrs (N.min 3 (fst params)) (N.min 3 (snd params))) /\
    GenNode params lim i (start_prog i) 1 init_stepped
            (N.min 3 (fst params), N.min 3 (snd params)) (slot_budget params halt) p.
Check (GN_leaf : forall params lim i prog st tp avail rem,
  (forall sl, fst (run_for_undefined prog st tp lim) <> TrUndefined sl) ->
  mentions_last params prog ->
  GenNode params lim i prog st tp avail rem prog).
Check (GN_fill_last : forall params lim i prog st tp avail rem sl tp' nxt,
  run_for_undefined prog st tp lim = (TrUndefined sl, tp') ->
  rem = 1 ->
  In nxt (make_instrs (fst (next_avail params avail sl i)) (snd (next_avail params avail sl i))) ->
  mentions_last params (cp_insert sl nxt prog) ->
  GenNode params lim i prog st tp avail rem (cp_insert sl nxt prog)).
Check (GN_fill : forall params lim i prog st tp avail rem sl tp' nxt p,
  run_for_undefined prog st tp lim = (TrUndefined sl, tp') ->
  1 < rem ->
  In nxt (make_instrs (fst (next_avail params avail sl i)) (snd (next_avail params avail sl i))) ->
  GenNode params lim nxt (cp_insert sl nxt prog) (fst sl) tp' (next_avail params avail sl i) (rem - 1) p ->
  GenNode params lim i prog st tp avail rem p).
(* GenNode has exactly these three constructors *)
Check (fun params lim =>
  GenNode_ind params lim : forall P : instr -> comp_prog -> state -> tape -> N * N -> N -> comp_prog -> Prop,
    (forall i prog st tp avail rem,
       (forall sl, fst (run_for_undefined prog st tp lim) <> TrUndefined sl) ->
       mentions_last params prog -> P i prog st tp avail rem prog) ->
    (forall i prog st tp avail rem sl tp' nxt,
       run_for_undefined prog st tp lim = (TrUndefined sl, tp') -> rem = 1 ->
       In nxt (make_instrs (fst (next_avail params avail sl i)) (snd (next_avail params avail sl i))) ->
       mentions_last params (cp_insert sl nxt prog) ->
       P i prog st tp avail rem (cp_insert sl nxt prog)) ->
    (forall i prog st tp avail rem sl tp' nxt p,
       run_for_undefined prog st tp lim = (TrUndefined sl, tp') -> 1 < rem ->
       In nxt (make_instrs (fst (next_avail params avail sl i)) (snd (next_avail params avail sl i))) ->
       GenNode params lim nxt (cp_insert sl nxt prog) (fst sl) tp' (next_avail params avail sl i) (rem - 1) p ->
       P nxt (cp_insert sl nxt prog) (fst sl) tp' (next_avail params avail sl i) (rem - 1) p ->
       P i prog st tp avail rem p) ->
    forall i prog st tp avail rem p, GenNode params lim i prog st tp avail rem p -> P i prog st tp avail rem p).
Check (@IL_done : forall (A : Type) (seqs : list (list A)),
  Forall (fun s => s = []) seqs -> IsInterleaving [] seqs).
Check (@IL_take : forall (A : Type) (x : A) xs s1 s2 merged,
  IsInterleaving merged (s1 ++ xs :: s2) -> IsInterleaving (x :: merged) (s1 ++ (x :: xs) :: s2)).
Check eq_refl : subtree_seq = fun (params : N * N) (halt : bool) (lim : N) (i : instr) =>
  match build_subtree params halt lim i [] with Ok h => rev h | Panic => [] end.
Check eq_refl : state_mentioned = fun (p : comp_prog) (s : state) =>
  exists k i, cp_get p k = Some i /\ (fst k = s \/ instr_target i = s).
Check eq_refl : entered_from_lower = fun (p : comp_prog) (s : state) =>
  exists a co pr sh, a < s /\ cp_get p (a, co) = Some (pr, sh, s).
