(** Pinned statements of the C17 theorems: weakening a theorem breaks this file. *)
From BB Require Import Base TM TapeModel RulesModel TapeCanon PyTapeModel PyRulesModel PyRsAgree.
From BB.Properties Require Import C17.

Check C17_py_step_eq_rs : forall (t : tape) (sh : shift) (pr : colour) (skip : bool),
  counts_pos (if sh then rspan t else lspan t) ->
  py_step t sh pr skip = step t sh pr skip.
Check C17_py_history_eq_rs : forall ops,
  fold_left py_do_op ops (init_tape 0) = fold_left do_op ops (init_tape 0).
Check C17_py_step_neq_rs_zero_count :
  py_step (mkTape 0 [] [(1, 0); (2, 3)]) true 1 false
  <> step (mkTape 0 [] [(1, 0); (2, 3)]) true 1 false.
Check C17_py_observers_eq_rs : forall t,
  py_marks t = marks t /\ py_blank t = blank t /\
  (forall e, py_at_edge t e = at_edge t e) /\
  py_counts t = counts t /\ py_span_lens t = span_lens t /\
  py_signature t = tape_sig t.
Check C17_py_show_eq_rs : forall t,
  counts_pos (lspan t) -> counts_pos (rspan t) ->
  counts_below py_truncate_count (lspan t) -> counts_below py_truncate_count (rspan t) ->
  py_show_tape t = show_tape t.
Check C17_py_sig_compatible_vs_rs :
  (forall t g, py_sig_compatible t g = true -> sig_compatible t g = true) /\
  (forall t g, length (lspan t) = length (sig_l g) -> length (rspan t) = length (sig_r g) ->
               py_sig_compatible t g = sig_compatible t g) /\
  (let t := mkTape 0 [(1, 2)] [(2, 1)] in let g := mkSig 0 [Mult 1] [] in
   py_sig_compatible t g = false /\ sig_compatible t g = true).
Check C17_py_count_apps_eq_rs : forall t r,
  rule_additive r -> py_count_apps t r = py_of_rs (count_apps t r).
Check C17_py_apply_eq_rs_applied : forall t r k t',
  rule_additive r -> NoDup (map fst r) ->
  apply_rule t r = Ok (Some k, t') -> py_apply_rule t r = Ret (Some k, t').
Check C17_py_apply_eq_rs : forall t r,
  rule_additive r -> NoDup (map fst r) -> rule_in_range t r ->
  (forall times mp mr, count_apps t r = Ok (Some (times, mp, mr)) -> no_overflow t r times) ->
  py_apply_rule t r = py_of_rs (apply_rule t r) /\ apply_rule t r <> Panic.
Check C17_py_apply_eq_rs_small : forall t r,
  rule_additive r -> NoDup (map fst r) -> rule_in_range t r ->
  (forall pos d, In (pos, Plus d) r -> in_i32 d = true) ->
  (forall pos d c, In (pos, Plus d) r -> get_count t pos = Ok c -> c < 4294967296) ->
  py_apply_rule t r = py_of_rs (apply_rule t r) /\ apply_rule t r <> Panic.
Check C17_py_apply_neq_rs_on_u64_overflow :
  let t := mkTape 0 [(1, 4611686018427387904)] [(2, 5)] in
  let r : rule := [((false, 0), Plus (-1)); ((true, 0), Plus 8)] in
  apply_rule t r = Ok (None, t) /\
  py_apply_rule t r = Ret (Some 4611686018427387903,
                           mkTape 0 [(1, 1)] [(2, 36893488147419103229)]).
Check C17_py_apply_neq_rs_prefix :
  let t := mkTape 0 [] [(2, 10); (3, 10); (4, 5)] in
  let r : rule := [((true, 0), Plus (-1)); ((true, 1), Plus (-2)); ((true, 2), Plus 1)] in
  py_apply_rule t r = Ret (Some 4, mkTape 0 [] [(2, 6); (3, 2); (4, 9)]) /\
  apply_rule_prefix apply_plus_prefix t r = Ok (Some 4, mkTape 0 [] [(2, 14); (3, 2); (4, 9)]) /\
  apply_rule t r = Ok (Some 4, mkTape 0 [] [(2, 6); (3, 2); (4, 9)]).
Check C17_py_diff_eq_rs_additive : forall a b c d,
  a < 2147483648 -> b < 2147483648 -> c < 2147483648 -> d < 2147483648 ->
  py_addview (py_calculate_diff a b c d) = rs_addview (calculate_diff a b c d).
Check C17_py_diff_neq_rs_beyond_i32 :
  rs_addview (calculate_diff 2147483647 2147483648 2147483649 2147483650) = AVOther /\
  py_addview (py_calculate_diff 2147483647 2147483648 2147483649 2147483650) = AVPlus 1.
Check C17_py_make_rule_eq_rs_additive : forall c1 c2 c3 c4,
  length (fst c1) = length (fst c2) -> length (fst c2) = length (fst c3) ->
  length (fst c3) = length (fst c4) ->
  length (snd c1) = length (snd c2) -> length (snd c2) = length (snd c3) ->
  length (snd c3) = length (snd c4) ->
  Forall col_small (zip4 (fst c1) (fst c2) (fst c3) (fst c4)) ->
  Forall col_small (zip4 (snd c1) (snd c2) (snd c3) (snd c4)) ->
  Forall col_additive (zip4 (fst c1) (fst c2) (fst c3) (fst c4)) ->
  Forall col_additive (zip4 (snd c1) (snd c2) (snd c3) (snd c4)) ->
  exists r, make_rule c1 c2 c3 c4 = Ok (Some r) /\ rule_additive r /\
    py_make_rule c1 c2 c3 c4 =
      if rule_all_nonneg r then Raise ExInfiniteRule else Ret (Some r).
(* the definitions the statements rest on, pinned too *)
Check eq_refl : col_small = fun q => let '(a, b, c, d) := q in
  a < 2147483648 /\ b < 2147483648 /\ c < 2147483648 /\ d < 2147483648.
Check eq_refl : col_additive = fun q => let '(a, b, c, d) := q in
  py_addview (py_calculate_diff a b c d) <> AVOther.
Check eq_refl : rule_all_nonneg = fun r =>
  forallb (fun e : index * op => match snd e with Plus d => (0 <=? d)%Z | MultOp _ _ => true end) r.
Check eq_refl : counts_pos = fun s => Forall (fun b => 1 <= snd b) s.
Check eq_refl : counts_below = fun m s => Forall (fun b => snd b < m) s.
Check eq_refl : py_truncate_count = 1000000000000.
Check eq_refl : rule_additive = fun r => Forall (fun e : index * op => is_plus (snd e) = true) r.
Check eq_refl : is_plus = fun o => match o with Plus _ => true | MultOp _ _ => false end.
Check eq_refl : rule_in_range = fun t r =>
  Forall (fun e : index * op => exists c, get_count t (fst e) = Ok c) r.
Check eq_refl : no_overflow = fun t r times =>
  forall pos d c, In (pos, Plus d) r -> get_count t pos = Ok c ->
    c <= u64_max /\ ((0 <= d)%Z -> c + Z.to_N (Z.abs d) * times <= u64_max).
Check eq_refl : @py_of_rs = fun A (x : outcome A) =>
  match x with Ok a => Ret a | Panic => Raise ExIndexError end.
Check eq_refl : rs_addview = fun x =>
  match x with Ok DSkip => AVSame | Ok (DGot (Plus d)) => AVPlus d | _ => AVOther end.
Check eq_refl : py_addview = fun x =>
  match x with Ret None => AVSame | Ret (Some (Plus d)) => AVPlus d | _ => AVOther end.
Check eq_refl : py_do_op = fun t o => let '(sh, pr, skip) := o in fst (py_step t sh pr skip).
