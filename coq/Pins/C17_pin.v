(** Pinned statements of the C17 theorems: weakening a theorem breaks this file. *)
From BB Require Import Base TM TapeModel RulesModel TapeCanon PyTapeModel PyRulesModel PyRsAgree.
From BB.Properties Require Import C17.

Check C17_py_step_eq_rs : forall (t : tape) (sh : shift) (pr : colour) (skip : bool),
  counts_pos (if sh then rspan t else lspan t) ->
  py_step t sh pr skip = step t sh pr skip.
Check C17_py_history_eq_rs : forall ops,
  fold_left py_do_op ops (init_tape 0) = fold_left do_op ops (init_tape 0).
Check C17_py_step_neq_rs_zero_count :
  py_step (mkTape 0 [] [(1, 0); (2, 3)]) true 1 false
  <> step (mkTape 0 [] [(1, 0); (2, 3)]) true 1 false.
Check C17_py_observers_eq_rs : forall t,
  py_marks t = marks t /\ py_blank t = blank t /\
  (forall e, py_at_edge t e = at_edge t e) /\
  py_counts t = counts t /\ py_span_lens t = span_lens t /\
  py_signature t = tape_sig t.
Check C17_py_show_eq_rs : forall t,
  counts_pos (lspan t) -> counts_pos (rspan t) ->
  counts_below py_truncate_count (lspan t) -> counts_below py_truncate_count (rspan t) ->
  py_show_tape t = show_tape t.
Check C17_py_sig_compatible_vs_rs :
  (forall t g, py_sig_compatible t g = true -> sig_compatible t g = true) /\
  (forall t g, length (lspan t) = length (sig_l g) -> length (rspan t) = length (sig_r g) ->
               py_sig_compatible t g = sig_compatible t g) /\
  (let t := mkTape 0 [(1, 2)] [(2, 1)] in let g := mkSig 0 [Mult 1] [] in
   py_sig_compatible t g = false /\ sig_compatible t g = true).
Check C17_py_count_apps_eq_rs : forall t r,
  rule_additive r -> py_count_apps t r = py_of_rs (count_apps t r).
Check C17_py_apply_eq_rs_applied : forall t r k t',
  rule_additive r -> NoDup (map fst r) ->
  apply_rule t r = Ok (Some k, t') -> py_apply_rule t r = Ret (Some k, t').
Check C17_py_apply_eq_rs : forall t r,
  rule_additive r -> NoDup (map fst r) -> rule_in_range t r ->
  (forall times mp mr, count_apps t r = Ok (Some (times, mp, mr)) -> no_overflow t r times) ->
  py_apply_rule t r = py_of_rs (apply_rule t r) /\ apply_rule t r <> Panic.
Check C17_py_apply_eq_rs_small : forall t r,
  rule_additive r -> NoDup (map fst r) -> rule_in_range t r ->
  (forall pos d, In (pos, Plus d) r -> in_i32 d = true) ->
  (forall pos d c, In (pos, Plus d) r -> get_count t pos = Ok c -> c < 4294967296) ->
  py_apply_rule t r = py_of_rs (apply_rule t r) /\ apply_rule t r <> Panic.
Check C17_py_apply_neq_rs_on_u64_overflow :
  let t := mkTape 0 [(1, 4611686018427387904)] [(2, 5)] in
  let r : rule := [((false, 0), Plus (-1)); ((true, 0), Plus 8)] in
  apply_rule t r = Ok (None, t) /\
  py_apply_rule t r = Ret (Some 4611686018427387903,
                           mkTape 0 [(1, 1)] [(2, 36893488147419103229)]).
Check C17_py_apply_neq_rs_prefix :
  let t := mkTape 0 [] [(2, 10); (3, 10); (4, 5)] in
  let r : rule := [((true, 0), Plus (-1)); ((true, 1), Plus (-2)); ((true, 2), Plus 1)] in
  py_apply_rule t r = Ret (Some 4, mkTape 0 [] [(2, 6); (3, 2); (4, 9)]) /\
  apply_rule_prefix apply_plus_prefix t r = Ok (Some 4, mkTape 0 [] [(2, 14); (3, 2); (4, 9)]) /\
  apply_rule t r = Ok (Some 4, mkTape 0 [] [(2, 6); (3, 2); (4, 9)]).
Check C17_py_diff_eq_rs_additive : forall a b c d,
  a < 2147483648 -> b < 2147483648 -> c < 2147483648 -> d < 2147483648 ->
  py_addview (py_calculate_diff a b c d) = rs_addview (calculate_diff a b c d).
Check C17_py_diff_neq_rs_beyond_i32 :
  rs_addview (calculate_diff 2147483647 2147483648 2147483649 2147483650) = AVOther /\
  py_addview (py_calculate_diff 2147483647 2147483648 2147483649 2147483650) = AVPlus 1.
Check C17_py_make_rule_eq_rs_additive : forall c1 c2 c3 c4,
  length (fst c1) = length (fst c2) -> length (fst c2) = length (fst c3) ->
  length (fst c3) = length (fst c4) ->
  length (snd c1) = length (snd c2) -> length (snd c2) = length (snd c3) ->
  length (snd c3) = length (snd c4) ->
  Forall col_small (zip4 (fst c1) (fst c2) (fst c3) (fst c4)) ->
  Forall col_small (zip4 (snd c1) (snd c2) (snd c3) (snd c4)) ->
  Forall col_additive (zip4 (fst c1) (fst c2) (fst c3) (fst c4)) ->
  Forall col_additive (zip4 (snd c1) (snd c2) (snd c3) (snd c4)) ->
  exists r, make_rule c1 c2 c3 c4 = Ok (Some r) /\ rule_additive r /\
    py_make_rule c1 c2 c3 c4 =
      if rule_all_nonneg r then Raise ExInfiniteRule else Ret (Some r).
(* the definitions the statements rest on, pinned too *)
Check eq_refl : col_small = fun q => let '(a, b, c, d) := q in
  a < 2147483648 /\ b < 2147483648 /\ c < 2147483648 /\ d < 2147483648.
Check eq_refl : col_additive = fun q => let '(a, b, c, d) := q in
  py_addview (py_calculate_diff a b c d) <> AVOther.
Check eq_refl : rule_all_nonneg = fun r =>
  forallb (fun e : index * op => match snd e with Plus d => (0 <=? d)%Z | MultOp _ _ => true end) r.
Check eq_refl : counts_pos = fun s => Forall (fun b => 1 <= snd b) s.
Check eq_refl : counts_below = fun m s => Forall (fun b => snd b < m) s.
Check eq_refl : py_truncate_count = 1000000000000.
Check eq_refl : rule_additive = fun r => Forall (fun e : index * op => is_plus (snd e) = true) r.
Check eq_refl : is_plus = fun o => match o with Plus _ => true | MultOp _ _ => false end.
Check eq_refl : rule_in_range = fun t r =>
  Forall (fun e : index * op => exists c, get_count t (fst e) = Ok c) r.
Check eq_refl : no_overflow = fun t r times =>
  forall pos d c, In (pos, Plus d) r -> get_count t pos = Ok c ->
    c <= u64_max /\ ((0 <= d)%Z -> c + Z.to_N (Z.abs d) * times <= u64_max).
Check eq_refl : @py_of_rs = fun A (x : outcome A) =>
  match x with Ok a => Ret a | Panic => Raise ExIndexError end.
Check eq_refl : rs_addview = fun x =>
  match x with Ok DSkip => AVSame | Ok (DGot (Plus d)) => AVPlus d | _ => AVOther end.
Check eq_refl : py_addview = fun x =>
  match x with Ret None => AVSame | Ret (Some (Plus d)) => AVPlus d | _ => AVOther end.
Check eq_refl : py_do_op = fun t o => let '(sh, pr, skip) := o in fst (py_step t sh pr skip).

(** ---- whole runs (Proofs/PyRunAgree.v) ---- *)
From BB Require Import InstrsModel MachineModel ProverModel PyProverModel PyMachineModel PyRunAgree.

Check C17_py_rs_run_agree : forall comp lim r r',
  run_inside comp lim = true ->
  py_run comp lim = PyDone r ->
  run_prover comp lim = Ok r' ->
  results_agree r r'.
Check C17_py_try_rule_agree : forall comp pp pv cyc st t,
  prover_rel pp pv -> canon_tape t -> tape_small t = true -> cyc < 2147483648 ->
  try_inside comp pp cyc st t = true ->
  match try_rule comp pv cyc st t with
  | Panic => True
  | Ok (res, pv') =>
      let '(pres, pp') := py_try_rule comp pp cyc st t in
      pres_class pres = PcLeave \/
      (prover_rel pp' pv' /\
       match res with
       | None => pres_class pres = PcNone
       | Some (Got r) => pres_class pres = PcRule r /\ rule_good r
       | Some ConfigLimit => pres_class pres = PcCfg
       | Some InfiniteRule => pres_class pres = PcInf
       | Some MultRule => False
       end)
  end.
Check C17_py_run_simulator_agree : forall comp pp pv,
  lookup_eq (pp_rules pp) (pv_rules pv) -> rules_good (pv_rules pv) ->
  forall d st t, canon_tape t -> sim_inside comp pp (Z.to_N d) st t = true ->
  match run_simulator comp pv d st t with
  | Panic => True
  | Ok x => py_run_simulator comp pp d st t = PRet x /\
            (forall st' t', x = Some (st', t') -> canon_tape t')
  end.
Check C17_py_rs_make_rule : forall c1 c2 c3 c4,
  counts_ok c1 -> counts_ok c2 -> counts_ok c3 -> counts_ok c4 ->
  match py_make_rule_raw c1 c2 c3 c4 with
  | Ret None | Raise (ExSuspectedRule _ _) => make_rule c1 c2 c3 c4 = Ok None
  | Ret (Some (r, sd)) => sd = false -> py_has_mult r = false -> make_rule c1 c2 c3 c4 = Ok (Some r)
  | _ => True
  end.
Check C17_rs_mult_is_py_mult : forall a b c d q r,
  cnt_ok a -> cnt_ok b -> cnt_ok c -> cnt_ok d ->
  calculate_diff a b c d = Ok (DGot (MultOp q r)) ->
  py_calculate_diff a b c d = Ret (Some (MultOp q r)).
Check C17_run_nonvacuous :
  run_inside C17_run_example 120 = true /\
  (exists r, py_run C17_run_example 120 = PyDone r /\ pr_kind r = PkSpnout /\ pr_marks r = 0 /\
             pr_rulapp r = 22 /\ pr_blanks r = [(1, (-1)%Z); (2, (-1)%Z); (3, (-1)%Z)] /\ pr_cycles r = 64) /\
  run_prover C17_run_example 120 = Ok (mkRes spnout 466 64 0 22 [(1, 464); (2, 465); (3, 466)] None).
Check C17_whole_run_differs_D1 :
  (exists r, py_run C17_d1_program 2910 = PyDone r /\ pr_kind r = PkInfrul /\ pr_cycles r = 2899) /\
  (exists r', run_prover C17_d1_program 2910 = Ok r' /\ r_result r' = xlimit) /\
  run_inside C17_d1_program 2910 = false.
Check C17_whole_run_differs_D3 :
  (exists r, py_run C17_d3_program 830 = PyDone r /\ pr_kind r = PkInfrul /\ pr_cycles r = 820
             /\ pr_marks r = 58 /\ pr_rulapp r = 515) /\
  (exists r', run_prover C17_d3_program 830 = Ok r' /\ r_result r' = xlimit
              /\ r_marks r' = 58 /\ r_rulapp r' = 515) /\
  run_inside C17_d3_program 830 = false.
Check C17_min_sig_differs_D4 :
  let t := mkTape 0 [(1, 5)] [(2, 3)] in
  let r : rule := [((false, 0), Plus (-1)); ((true, 0), Plus 1)] in
  let p := py_set_rule py_prover_new r 0 (mkSig 0 [] [], (false, false)) in
  py_get_min_sig [] p 1%Z 0 (py_to_enum t) (py_signature t)
    = PRet (mkSig 0 [Mult 1] [Mult 2], (false, false)) /\
  get_min_sig [] (rs_view p) 1%Z 0 (et_from t) (tape_sig t)
    = Ok (mkSig 0 [] [], (false, false)).
Check C17_cycle_cast_differs_D6 :
  fst (py_try_rule [] py_prover_new 2147483648 0 (init_tape 0)) = PRaise PeOverflowError /\
  (exists pv', try_rule [] prover_new 2147483648 0 (init_tape 0) = Ok (None, pv')).
(* the definitions the whole-run statement rests on, pinned too *)
Check eq_refl : results_agree = fun r r' =>
  rs_kind_of (pr_kind r) = r_result r' /\
  pr_marks r = r_marks r' /\
  pr_rulapp r = r_rulapp r' /\
  (forall q, pyb_mem q (pr_blanks r) = blanks_mem q (r_blanks r')) /\
  (forall q v, In (q, v) (pr_blanks r) -> v <> (-1)%Z -> In (q, Z.to_N v) (r_blanks r')) /\
  (pr_kind r = PkUndfnd -> pr_undfnd r = r_last_slot r').
Check eq_refl : rs_kind_of = fun k =>
  match k with
  | PkUndfnd => undfnd | PkSpnout => spnout | PkInfrul => infrul
  | PkXlimit => xlimit | PkCfglim => cfglim
  end.
Check eq_refl : run_inside = fun comp lim =>
  match for_upto lim (gbody (iter_inside comp) (py_body comp)) py_machine_init with
  | inr None => false
  | _ => true
  end.
Check eq_refl : iter_inside = fun comp m =>
  tape_small (pm_tape m) && (pm_cycle m <? 2147483648) &&
  try_inside comp (pm_prover m) (pm_cycle m) (pm_state m) (pm_tape m).
Check eq_refl : @gbody = fun St Rs g body s =>
  if g s then match body s with inl s' => inl s' | inr r => inr (Some r) end else inr None.
Check eq_refl : tape_small = fun t =>
  forallb (fun b : colour * N => snd b <? 2147483648) (lspan t)
  && forallb (fun b : colour * N => snd b <? 2147483648) (rspan t).
Check eq_refl : sim_inside = fun comp pp n st t =>
  match for_upto n (gbody (fun s : state * tape => tape_small (snd s)) (py_sim_body comp pp)) (st, t) with
  | inr None => false
  | _ => true
  end.
Check eq_refl : round_inside = fun comp pp st sig d tags =>
  sim_inside comp pp (Z.to_N d) st tags &&
  match py_run_simulator comp pp d st tags with
  | PRet (Some (st', tags')) =>
      tape_small tags' &&
      (if st' =? st then Bool.eqb (py_sig_compatible tags' sig) (sig_compatible tags' sig) else true)
  | _ => true
  end.
Check eq_refl : minsig_inside = fun comp p2 d1 st t sig =>
  match py_get_min_sig comp p2 d1 st (py_to_enum t) sig,
        get_min_sig comp (rs_view p2) d1 st (et_from t) sig with
  | PRet a, Ok b => minsig_eqb a b
  | PRet _, Panic => true
  | PRaise _, _ => false
  end.
Check eq_refl : try_inside = fun comp pp cyc st t =>
  let sig := py_signature t in
  match py_get_rule pp st (scan t) (fun _ => sig) with
  | Some _ => true
  | None =>
  match cfg_get (pp_configs pp) sig with
  | None => true
  | Some pcs =>
    match pcs_next_deltas pcs st (Z.of_N cyc) with
    | Panic => true
    | Ok (None, _) => true
    | Ok (Some (d1, d2, d3), pcs1) =>
      let p1 := mkPyProver (pp_rules pp) (cfg_set (pp_configs pp) sig pcs1) (pp_count pp) in
      (d1 <=? 90000)%Z && (d2 <=? 90000)%Z && (d3 <=? 90000)%Z &&
      round_inside comp p1 st sig d1 t &&
      match py_sim_round comp p1 st sig d1 t with
      | PRet (Some tags1) =>
        round_inside comp p1 st sig d2 tags1 &&
        match py_sim_round comp p1 st sig d2 tags1 with
        | PRet (Some tags2) =>
          round_inside comp p1 st sig d3 tags2 &&
          match py_sim_round comp p1 st sig d3 tags2 with
          | PRet (Some tags3) =>
            match py_make_rule_raw (py_counts t) (py_counts tags1) (py_counts tags2) (py_counts tags3) with
            | Ret None => true
            | Raise (ExSuspectedRule _ _) => true
            | Raise _ => false
            | Ret (Some (rule, sd)) =>
                negb sd &&
                (if py_all_nonneg rule || py_has_mult rule || py_same_abs_exclusion rule t then true
                 else minsig_inside comp
                        (mkPyProver (pp_rules p1)
                           (cfg_set (pp_configs p1) sig (pcs_delete_configs pcs1 st)) (pp_count p1))
                        d1 st t sig)
            end
          | _ => true
          end
        | _ => true
        end
      | _ => true
      end
    end
  end end.

(** ---- min-signatures without rule applications (Proofs/PyEnumAgree.v) ---- *)
From BB Require Import PyEnumAgree.
Check C17_py_min_sig_agree_plain : forall comp pp pv,
  lookup_eq (pp_rules pp) (pv_rules pv) ->
  forall (d : Z) st t sig ms ms',
  canon_tape t ->
  replay_plain comp pp (Z.to_N d) st (py_to_enum t) = true ->
  py_get_min_sig comp pp d st (py_to_enum t) sig = PRet ms ->
  get_min_sig comp pv d st (et_from t) sig = Ok ms' ->
  ms = ms'.
Check C17_min_sig_guard_plain : forall comp p2 (d1 : Z) st t sig,
  canon_tape t ->
  replay_plain comp p2 (Z.to_N d1) st (py_to_enum t) = true ->
  minsig_inside comp p2 d1 st t sig = true.
Check eq_refl : replay_plain = fun comp pp n st et =>
  match for_upto n (gbody (plain_g pp) (py_esim_body comp pp)) (st, et) with
  | inr None => false
  | _ => true
  end.
Check eq_refl : plain_g = fun pp (s : state * enum_tape) =>
  match py_get_rule pp (fst s) (et_scan (snd s)) (fun _ => py_et_signature (snd s)) with
  | None => true
  | Some _ => false
  end.
