From BB Require Import Base TM TMabs MacroSpec InstrsModel MacrosModel.
From BB Require Import MacroSim MacroPure MacroBlock.
From BB.Properties Require Import C08.
Open Scope N_scope.

Check C08_enc_dec : forall C tp,
  Forall (ltC C) tp -> decode C (length tp) (encode C tp) = tp.
Check C08_dec_enc : forall C k c,
  0 < C -> c < C ^ N.of_nat k -> encode C (decode C k c) = c.
Check C08_encode_inj : forall C a b,
  length a = length b -> Forall (ltC C) a -> Forall (ltC C) b ->
  encode C a = encode C b -> a = b.
Check C08_encode_is_fold : forall C tp,
  1 <= C -> Forall (ltC C) tp -> C ^ N.of_nat (length tp) <= u64_max ->
  t2c_fold C (rev tp) 0 0 = Ok (encode C tp).
Check C08_fresh : forall k C,
  0 < C -> cache_ok k C (mstate_new k) /\
           c2t_get (ms_c2t (mstate_new k)) 0 = Some (repeat 0 (N.to_nat k)).
Check C08_sim_body_sound : forall (P : prog) cells s lo t,
  sim_ok cells s -> win_at t lo (si_tape unit s) ->
  match sim_body unit (pget P) cells s with
  | inl s' =>
      sim_ok cells s' /\
      exists n t', (1 <= n)%nat /\
        wrun P lo (N.to_nat cells) n (cfg_of lo s t) (cfg_of lo s' t') /\
        win_at t' lo (si_tape unit s')
  | inr (SxSide _ side st' tp' _) =>
      mt_len tp' = cells /\
      exists n t', (1 <= n)%nat /\
        wrun P lo (N.to_nat cells) n (cfg_of lo s t)
             (mkA st' (if side then lo + Z.of_N cells else lo - 1)%Z t') /\
        win_at t' lo tp'
  | inr (SxNone _ _) => a_step P (cfg_of lo s t) = None
  | inr (SxPanic _ _) => False
  end.
Check C08_block_instr_sound : forall comp k Q C m ms mc tp r m',
  1 <= k -> 1 <= C -> blk_fits k Q C -> prog_within comp Q C ->
  cache_ok k C m -> c2t_get (ms_c2t m) mc = Some tp ->
  macro_calculate_instr unit (plain_get comp) (blk_logic k Q C) (m, tt) (ms, mc) = (r, (m', tt)) ->
  cache_ok k C m' /\ r = Ok (calc_block (to_prog comp) k Q C (ms, mc)) /\
  forall mc' sh ms', r = Ok (Some (mc', sh, ms')) ->
    ms' mod 2 = (if sh then 0 else 1) /\ ms' / 2 < Q /\ mc' < C ^ k /\
    c2t_get (ms_c2t m') mc' = Some (decode C (N.to_nat k) mc') /\
    forall lo t, win_at t lo (decode C (N.to_nat k) mc) ->
      leaves (to_prog comp) lo (N.to_nat k)
             (mkA (ms / 2) (entry_pos (ms mod 2 =? 1) lo (N.to_nat k)) t)
             sh (ms' / 2) (decode C (N.to_nat k) mc').
Check C08_block_instr_none : forall comp k Q C m ms mc tp lo t,
  1 <= k -> 1 <= C -> blk_fits k Q C -> prog_within comp Q C ->
  cache_ok k C m -> c2t_get (ms_c2t m) mc = Some tp ->
  win_at t lo (decode C (N.to_nat k) mc) ->
  (fst (macro_calculate_instr unit (plain_get comp) (blk_logic k Q C) (m, tt) (ms, mc)) = Ok None <->
   halts_inside (to_prog comp) lo (N.to_nat k)
                (mkA (ms / 2) (entry_pos (ms mod 2 =? 1) lo (N.to_nat k)) t) \/
   never_leaves (to_prog comp) lo (N.to_nat k)
                (mkA (ms / 2) (entry_pos (ms mod 2 =? 1) lo (N.to_nat k)) t)).
Check C08_calc_block_sound : forall (P : prog) k Q C,
  1 <= k -> 1 <= C -> blk_fits k Q C -> prog_within_P P Q C ->
  forall ms mc mc' sh ms',
  calc_block P k Q C (ms, mc) = Some (mc', sh, ms') ->
  (forall lo t, win_at t lo (decode C (N.to_nat k) mc) ->
     leaves P lo (N.to_nat k) (mkA (ms / 2) (entry_pos (ms mod 2 =? 1) lo (N.to_nat k)) t)
            sh (ms' / 2) (decode C (N.to_nat k) mc')) /\
  ms' mod 2 = (if sh then 0 else 1) /\ ms' / 2 < Q /\ mc' < C ^ k.
Check C08_calc_block_none : forall (P : prog) k Q C,
  1 <= k -> 1 <= C -> blk_fits k Q C -> prog_within_P P Q C ->
  forall ms mc lo t, win_at t lo (decode C (N.to_nat k) mc) ->
  (calc_block P k Q C (ms, mc) = None <->
   halts_inside P lo (N.to_nat k) (mkA (ms / 2) (entry_pos (ms mod 2 =? 1) lo (N.to_nat k)) t) \/
   never_leaves P lo (N.to_nat k) (mkA (ms / 2) (entry_pos (ms mod 2 =? 1) lo (N.to_nat k)) t)).
Check C08_block_run_sim : forall (P : prog) k Q C,
  1 <= k -> 1 <= C -> blk_fits k Q C -> prog_within_P P Q C ->
  forall c0 n,
  exists tm : nat -> nat,
    tm O = O /\ (forall i, (i < n)%nat -> (tm i < tm (S i))%nat) /\
    forall i ci, (i <= n)%nat -> a_steps (calc_block P k Q C) i c0 = Some ci ->
      exists cb, a_steps P (tm i) (blk_dec_cfg C k c0) = Some cb /\
                 aconf_eq cb (blk_dec_cfg C k ci).
Check C08_block_run_sim_zipper : forall (P : prog) k Q C,
  1 <= k -> 1 <= C -> blk_fits k Q C -> prog_within_P P Q C ->
  forall ms z H n ms' z',
  tm_steps (calc_block P k Q C) n (ms, z) = Some (ms', z') ->
  exists H' m cb, (n <= m)%nat /\
    a_steps P m (blk_dec_cfg C k (mkA ms H (abs_of z H))) = Some cb /\
    aconf_eq cb (blk_dec_cfg C k (mkA ms' H' (abs_of z' H'))).
Check C08_block_obj_run : forall (P : prog) k Q C,
  1 <= k -> 1 <= C -> blk_fits k Q C -> prog_within_P P Q C ->
  forall n m q z,
  obj_ok P k Q C m -> tape_known k C m z ->
  match tm_steps (calc_block P k Q C) n (q, z) with
  | Some c' => exists m', obj_steps (macro_get_instr unit (pget P) (blk_logic k Q C)) n ((m, tt), (q, z))
                            = Ok (Some ((m', tt), c')) /\
                          obj_ok P k Q C m' /\ tape_known k C m' (snd c')
  | None => obj_steps (macro_get_instr unit (pget P) (blk_logic k Q C)) n ((m, tt), (q, z)) = Ok None
  end.
Check C08_block_obj_run_blank : forall (P : prog) k Q C,
  1 <= k -> 1 <= C -> blk_fits k Q C -> prog_within_P P Q C ->
  forall n,
  match tm_steps (calc_block P k Q C) n ((0 : state), blank_tape) with
  | Some c' => exists m', obj_steps (macro_get_instr unit (pget P) (blk_logic k Q C)) n
                            ((mstate_new k, tt), ((0 : state), blank_tape)) = Ok (Some ((m', tt), c'))
  | None => obj_steps (macro_get_instr unit (pget P) (blk_logic k Q C)) n
              ((mstate_new k, tt), ((0 : state), blank_tape)) = Ok None
  end.
Check C08_blank : forall k C, 1 <= k -> 1 <= C ->
  aconf_eq (blk_dec_cfg C k (mkA 0 0%Z (abs_of blank_tape 0%Z))) (mkA 0 0%Z (fun _ => 0)).
