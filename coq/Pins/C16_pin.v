(** Pinned statements of the C16 theorems: weakening a theorem or changing a
    definition a statement rests on breaks this file. *)
From BB Require Import Base InstrsModel MacrosModel MacroHistory.
From BB.Properties Require Import C16.

Check C16_dec_enc : forall bc cells tp,
  mt_len tp = cells -> cells_lt bc tp -> decode bc cells (encode bc tp) = tp.
Check C16_enc_dec : forall bc cells c,
  c < bc ^ cells -> encode bc (decode bc cells c) = c.
Check C16_t2c_fold_encode : forall bc tp,
  1 <= bc -> cells_lt bc tp -> bc ^ mt_len tp <= u64_max ->
  t2c_fold bc (rev tp) 0 0 = Ok (encode bc tp).
Check C16_cache_inv_new : forall lg comp,
  logic_wf lg -> cache_inv lg comp (mstate_new (lg_cells lg)).
Check C16_cache_inv_tape_to_color : forall lg comp m tp,
  logic_wf lg -> cache_inv lg comp m ->
  wf_tape (fun c => c < lg_base_colors lg) (lg_cells lg) tp ->
  fst (tape_to_color (lg_base_colors lg) m tp) = Ok (encode (lg_base_colors lg) tp) /\
  cache_inv lg comp (snd (tape_to_color (lg_base_colors lg) m tp)) /\
  color_to_tape (snd (tape_to_color (lg_base_colors lg) m tp)) (encode (lg_base_colors lg) tp) = Ok tp.
Check C16_cache_inv_get_instr : forall lg comp m q,
  logic_wf lg -> plain_ok (lg_base_colors lg) comp ->
  lg_kind lg = LkBlock \/ lg_split_fix lg = true ->
  cache_inv lg comp m -> slot_ok lg q ->
  exists m', snd (stack_get comp [lg] [m] q) = [m'] /\ cache_inv lg comp m'.
Check C16_history_indep_block : forall lg comp qs sl,
  lg_kind lg = LkBlock -> logic_wf lg -> plain_ok (lg_base_colors lg) comp ->
  top_known (run_qs comp [lg] (stack_new [lg]) qs) (snd sl) ->
  fst (stack_get comp [lg] (run_qs comp [lg] (stack_new [lg]) qs) sl) = calc lg comp sl.
Check C16_handed_out_decodes_block : forall lg comp qs sl c' sh ns,
  lg_kind lg = LkBlock -> logic_wf lg -> plain_ok (lg_base_colors lg) comp ->
  top_known (run_qs comp [lg] (stack_new [lg]) qs) (snd sl) ->
  fst (stack_get comp [lg] (run_qs comp [lg] (stack_new [lg]) qs) sl) = Ok (Some (c', sh, ns)) ->
  exists m' st' side tp',
    snd (stack_get comp [lg] (run_qs comp [lg] (stack_new [lg]) qs) sl) = [m'] /\
    calc_cfg lg comp sl = Ok (Some (st', (side, tp'))) /\
    color_to_tape m' c' = Ok tp' /\
    tp' = decode (lg_base_colors lg) (lg_cells lg) c' /\
    encode (lg_base_colors lg) tp' = c'.
Check C16_known_fresh : forall lg, top_known (stack_new [lg]) 0.
Check C16_handed_out_known_block : forall lg comp qs sl c' sh ns,
  lg_kind lg = LkBlock -> logic_wf lg -> plain_ok (lg_base_colors lg) comp ->
  top_known (run_qs comp [lg] (stack_new [lg]) qs) (snd sl) ->
  fst (stack_get comp [lg] (run_qs comp [lg] (stack_new [lg]) qs) sl) = Ok (Some (c', sh, ns)) ->
  top_known (run_qs comp [lg] (stack_new [lg]) (qs ++ [sl])) c'.
Check C16_known_mono_block : forall lg comp qs q c,
  lg_kind lg = LkBlock -> logic_wf lg -> plain_ok (lg_base_colors lg) comp ->
  top_known (run_qs comp [lg] (stack_new [lg]) qs) c ->
  top_known (run_qs comp [lg] (stack_new [lg]) (qs ++ [q])) c.
Check C16_unknown_panics : forall lg comp m q,
  c2t_get (ms_c2t m) (slot_colour lg q) = None -> cp_get (ms_instrs m) q = None ->
  fst (stack_get comp [lg] [m] q) = Panic.
Check C16_order_indep_block : forall lg comp qs1 qs2 sl,
  lg_kind lg = LkBlock -> logic_wf lg -> plain_ok (lg_base_colors lg) comp ->
  top_known (run_qs comp [lg] (stack_new [lg]) qs1) (snd sl) ->
  top_known (run_qs comp [lg] (stack_new [lg]) qs2) (snd sl) ->
  fst (stack_get comp [lg] (run_qs comp [lg] (stack_new [lg]) qs1) sl)
  = fst (stack_get comp [lg] (run_qs comp [lg] (stack_new [lg]) qs2) sl).
Check C16_repeat_same_block : forall lg comp qs sl,
  lg_kind lg = LkBlock -> logic_wf lg -> plain_ok (lg_base_colors lg) comp ->
  top_known (run_qs comp [lg] (stack_new [lg]) qs) (snd sl) ->
  fst (stack_get comp [lg] (run_qs comp [lg] (stack_new [lg]) (qs ++ [sl])) sl)
  = fst (stack_get comp [lg] (run_qs comp [lg] (stack_new [lg]) qs) sl).
Check C16_two_objects_indep : forall comp lgs qa sa sb qb,
  stack_queries2 comp lgs sa sb qa qb =
  (fst (stack_queries comp lgs sa qa), fst (stack_queries comp lgs sb qb)).
Check C16_stack_queries_state : forall comp lgs qs st,
  snd (stack_queries comp lgs st qs) = run_qs comp lgs st qs.
Check C16_stack_queries_last : forall comp lgs qs st q,
  fst (stack_queries comp lgs st (qs ++ [q])) =
  fst (stack_queries comp lgs st qs) ++ [fst (stack_get comp lgs (run_qs comp lgs st qs) q)].
Check C16_history_indep_back_fix : forall lg comp qs sl,
  lg_kind lg = LkBacksymbol -> lg_split_fix lg = true ->
  logic_wf lg -> plain_ok (lg_base_colors lg) comp ->
  back_ok lg qs -> snd sl < lg_base_colors lg ->
  top_known (run_qs comp [lg] (stack_new [lg]) qs) ((fst sl / 2) mod lg_backsymbols lg) ->
  fst (stack_get comp [lg] (run_qs comp [lg] (stack_new [lg]) qs) sl) = calc lg comp sl.
Check C16_handed_out_decodes_back_fix : forall lg comp qs sl c' sh ns,
  lg_kind lg = LkBacksymbol -> lg_split_fix lg = true ->
  logic_wf lg -> plain_ok (lg_base_colors lg) comp ->
  back_ok lg qs -> snd sl < lg_base_colors lg ->
  top_known (run_qs comp [lg] (stack_new [lg]) qs) ((fst sl / 2) mod lg_backsymbols lg) ->
  fst (stack_get comp [lg] (run_qs comp [lg] (stack_new [lg]) qs) sl) = Ok (Some (c', sh, ns)) ->
  exists m' st' side tp' backspan,
    snd (stack_get comp [lg] (run_qs comp [lg] (stack_new [lg]) qs) sl) = [m'] /\
    calc_cfg lg comp sl = Ok (Some (st', (side, tp'))) /\
    backsymbol_split lg (negb side) tp' = Ok (backspan, c') /\
    color_to_tape m' ((ns / 2) mod lg_backsymbols lg) = Ok backspan /\
    backspan = decode (lg_base_colors lg) (lg_cells lg) ((ns / 2) mod lg_backsymbols lg) /\
    encode (lg_base_colors lg) backspan = (ns / 2) mod lg_backsymbols lg.
Check C16_history_dep_refuted :
  let lg := f3_lg false in
  let fresh := run_qs f3_comp [lg] (stack_new [lg]) [] in
  let later := run_qs f3_comp [lg] (stack_new [lg]) [(0, 1)] in
  top_known fresh (slot_colour lg (0, 0)) /\ top_known later (slot_colour lg (0, 0)) /\
  fst (stack_get f3_comp [lg] fresh (0, 0)) = Ok (Some (0, false, 6)) /\
  fst (stack_get f3_comp [lg] later (0, 0)) = Ok (Some (1, false, 4)) /\
  calc lg f3_comp (0, 0) = Ok (Some (0, false, 6)) /\
  left_exit lg (plain_bf f3_comp) (0, 1).
Check C16_refuted_hyps : forall fix_,
  backsymbol_new fix_ 1 (2, 2) = Ok (f3_lg fix_) /\ logic_wf (f3_lg fix_) /\
  plain_ok (lg_base_colors (f3_lg fix_)) f3_comp /\ back_ok (f3_lg fix_) [(0, 1)].
Check C16_history_indep_back_no_left_exit : forall lg comp qs sl,
  lg_kind lg = LkBacksymbol ->
  logic_wf lg -> plain_ok (lg_base_colors lg) comp ->
  back_ok lg qs -> snd sl < lg_base_colors lg ->
  no_left_exit lg comp qs ->
  top_known (run_qs comp [lg] (stack_new [lg]) qs) ((fst sl / 2) mod lg_backsymbols lg) ->
  fst (stack_get comp [lg] (run_qs comp [lg] (stack_new [lg]) qs) sl) = calc lg comp sl.
Check C16_nested_pure : forall comp bc0 lgs,
  plain_ok bc0 comp -> layers_ok bc0 lgs ->
  pure_base (stack_get comp lgs) (stk_bf comp lgs) (stk_inv comp bc0 lgs)
            (stk_ks lgs) (stk_kc bc0 lgs) (stk_ncol bc0 lgs).
Check C16_nested_new_inv : forall comp bc0 lgs,
  plain_ok bc0 comp -> layers_ok bc0 lgs -> stk_inv comp bc0 lgs (stack_new lgs).
Check C16_nested_history_indep : forall comp bc0 lgs,
  plain_ok bc0 comp -> layers_ok bc0 lgs ->
  forall qs st sl, stk_inv comp bc0 lgs st -> known_run comp bc0 lgs st (qs ++ [sl]) ->
  fst (stack_get comp lgs (run_qs comp lgs st qs) sl) = stk_bf comp lgs sl /\
  stk_inv comp bc0 lgs (run_qs comp lgs st qs).

(* the definitions the statements rest on, pinned too *)
Check eq_refl : encode = fun bc tp => fold_left (fun acc v => acc * bc + v) tp 0.
Check eq_refl : decode = fun bc cells c => decode_nat bc (N.to_nat cells) c.
Check eq_refl : decode_nat = fix decode_nat (bc : N) (n : nat) (c : N) : mtape :=
  match n with O => [] | S n' => decode_nat bc n' (c / bc) ++ [c mod bc] end.
Check eq_refl : cells_lt = fun bc tp => Forall (fun c => c < bc) tp.
Check eq_refl : known = fun m c => exists tp, c2t_get (ms_c2t m) c = Some tp.
Check eq_refl : wf_tape = fun (P : colour -> Prop) cells tp => mt_len tp = cells /\ Forall P tp.
Check eq_refl : conv_inv = fun (P : colour -> Prop) lg m =>
  (forall c tp, In (c, tp) (ms_c2t m) ->
     wf_tape P (lg_cells lg) tp /\ c = encode (lg_base_colors lg) tp) /\
  (forall tp c, In (tp, c) (ms_t2c m) ->
     wf_tape P (lg_cells lg) tp /\ c = encode (lg_base_colors lg) tp /\
     c2t_get (ms_c2t m) c = Some tp) /\
  c2t_get (ms_c2t m) 0 = Some (repeat 0 (N.to_nat (lg_cells lg))).
Check eq_refl : logic_wf = fun lg =>
  1 <= lg_base_colors lg /\
  lg_base_colors lg ^ lg_cells lg <= u64_max /\
  (lg_kind lg = LkBacksymbol -> lg_backsymbols lg = lg_base_colors lg ^ lg_cells lg).
Check eq_refl : pbase = fun bf (_ : unit) sl => (bf sl, tt).
Check eq_refl : pure_deconstruct = fun lg sl =>
  let '(macro_state, macro_color) := sl in
  match lg_kind lg with
  | LkBlock =>
      Ok (macro_state / 2,
          ((macro_state mod 2) =? 1, decode (lg_base_colors lg) (lg_cells lg) macro_color))
  | LkBacksymbol =>
      if lg_backsymbols lg =? 0 then Panic else
      let backspan := decode (lg_base_colors lg) (lg_cells lg)
                             ((macro_state / 2) mod lg_backsymbols lg) in
      Ok ((macro_state / 2) / lg_backsymbols lg,
          if (macro_state mod 2) =? 1
          then (false, macro_color :: backspan)
          else (true, backspan ++ [macro_color]))
  end.
Check eq_refl : pure_reconstruct = fun lg cfg =>
  let '(st, (right_edge, tp)) := cfg in
  match lg_kind lg with
  | LkBlock =>
      obind (chk_mul_u64 2 st) (fun x =>
      obind (chk_add_u64 x (if right_edge then 0 else 1)) (fun ns =>
      Ok (encode (lg_base_colors lg) tp, right_edge, ns)))
  | LkBacksymbol =>
      let shift := negb right_edge in
      match backsymbol_split lg shift tp with
      | Panic => Panic
      | Ok (backspan, macro_color) =>
          match chk_mul_u64 st (lg_backsymbols lg) with
          | Panic => Panic
          | Ok sb =>
              obind (chk_add_u64 sb (encode (lg_base_colors lg) backspan)) (fun x =>
              obind (chk_mul_u64 2 x) (fun y =>
              obind (chk_add_u64 (if shift then 1 else 0) y) (fun ns =>
              Ok (macro_color, shift, ns))))
          end
      end
  end.
Check eq_refl : gcalc_cfg = fun lg bf sl =>
  match pure_deconstruct lg sl with
  | Panic => Panic
  | Ok cfg => fst (run_simulator unit (pbase bf) lg cfg tt)
  end.
Check eq_refl : gcalc = fun lg bf sl =>
  match gcalc_cfg lg bf sl with
  | Panic => Panic
  | Ok None => Ok None
  | Ok (Some cfg') =>
      match pure_reconstruct lg cfg' with
      | Panic => Panic
      | Ok i => Ok (Some i)
      end
  end.
Check eq_refl : plain_bf = fun comp sl => Ok (cp_get comp sl).
Check eq_refl : calc = fun lg comp => gcalc lg (plain_bf comp).
Check eq_refl : calc_cfg = fun lg comp => gcalc_cfg lg (plain_bf comp).
Check eq_refl : lks = fun lg (KS : state -> Prop) m ms =>
  match lg_kind lg with
  | LkBlock => KS (ms / 2)
  | LkBacksymbol => KS ((ms / 2) / lg_backsymbols lg) /\ known m ((ms / 2) mod lg_backsymbols lg)
  end.
Check eq_refl : lkc = fun lg (KC : colour -> Prop) m mc =>
  match lg_kind lg with
  | LkBlock => known m mc
  | LkBacksymbol => KC mc
  end.
Check eq_refl : lncol = fun lg =>
  match lg_kind lg with
  | LkBlock => lg_base_colors lg ^ lg_cells lg
  | LkBacksymbol => lg_base_colors lg
  end.
Check eq_refl : out_colour = fun lg (i : instr) =>
  match lg_kind lg with
  | LkBlock => fst (fst i)
  | LkBacksymbol => (snd i / 2) mod lg_backsymbols lg
  end.
Check eq_refl : out_cells = fun lg (cfg : mconfig) =>
  match lg_kind lg with
  | LkBlock => snd (snd cfg)
  | LkBacksymbol =>
      match backsymbol_split lg (negb (fst (snd cfg))) (snd (snd cfg)) with
      | Ok (backspan, _) => backspan
      | Panic => []
      end
  end.
Check eq_refl : memo_inv = fun lg bf (KS : state -> Prop) (KC : colour -> Prop) m =>
  forall sl i, In (sl, i) (ms_instrs m) ->
    gcalc lg bf sl = Ok (Some i) /\ lkc lg KC m (fst (fst i)) /\ lks lg KS m (snd i) /\
    (forall cfg, gcalc_cfg lg bf sl = Ok (Some cfg) ->
       c2t_get (ms_c2t m) (out_colour lg i) = Some (out_cells lg cfg)).
Check eq_refl : layer_inv = fun lg bf (KS : state -> Prop) (KC : colour -> Prop) m =>
  conv_inv KC lg m /\ memo_inv lg bf KS KC m.
Check eq_refl : cache_inv = fun lg comp m =>
  layer_inv lg (plain_bf comp) (fun _ => True) (fun c => c < lg_base_colors lg) m.
Check eq_refl : plain_ok = fun bc comp =>
  forall sl c sh st, cp_get comp sl = Some (c, sh, st) -> c < bc.
Check eq_refl : slot_colour = fun lg (sl : slot) =>
  match lg_kind lg with
  | LkBlock => snd sl
  | LkBacksymbol => (fst sl / 2) mod lg_backsymbols lg
  end.
Check eq_refl : slot_ok = fun lg (sl : slot) =>
  lg_kind lg = LkBacksymbol -> snd sl < lg_base_colors lg.
Check eq_refl : back_ok = fun lg (qs : list slot) => Forall (fun q => snd q < lg_base_colors lg) qs.
Check eq_refl : top_known = fun (st : list mstate) c =>
  match st with m :: _ => known m c | [] => False end.
Check eq_refl : run_qs = fun comp lgs st (qs : list slot) =>
  fold_left (fun st q => snd (stack_get comp lgs st q)) qs st.
Check eq_refl : left_exit = fun lg bf sl =>
  exists st tp, gcalc_cfg lg bf sl = Ok (Some (st, (false, tp))).
Check eq_refl : no_left_exit = fun lg comp (qs : list slot) =>
  Forall (fun q => ~ left_exit lg (plain_bf comp) q) qs.
Check eq_refl : f3_comp = [((0, 0), (1, true, 1)); ((0, 1), (1, false, 1)); ((1, 0), (1, false, 0))].
Check eq_refl : f3_lg = fun fix_ => mkLogic LkBacksymbol 1 2 2 2 fix_.
(* nested stacks *)
Check eq_refl : stk_bf = fix stk_bf (comp : comp_prog) (lgs : list logic) : slot -> outcome (option instr) :=
  match lgs with
  | [] => fun sl => Ok (cp_get comp sl)
  | lg :: lgs' => gcalc lg (stk_bf comp lgs')
  end.
Check eq_refl : stk_ks = fix stk_ks (lgs : list logic) (st : list mstate) (s : state) : Prop :=
  match lgs with
  | [] => True
  | lg :: lgs' =>
      match st with [] => False | m :: rest => lks lg (stk_ks lgs' rest) m s end
  end.
Check eq_refl : stk_kc = fix stk_kc (bc0 : N) (lgs : list logic) (st : list mstate) (c : colour) : Prop :=
  match lgs with
  | [] => c < bc0
  | lg :: lgs' =>
      match st with [] => False | m :: rest => lkc lg (stk_kc bc0 lgs' rest) m c end
  end.
Check eq_refl : stk_inv = fix stk_inv (comp : comp_prog) (bc0 : N) (lgs : list logic) (st : list mstate) : Prop :=
  match lgs with
  | [] => True
  | lg :: lgs' =>
      match st with
      | [] => False
      | m :: rest =>
          stk_inv comp bc0 lgs' rest /\
          layer_inv lg (stk_bf comp lgs') (stk_ks lgs' rest) (stk_kc bc0 lgs' rest) m
      end
  end.
Check eq_refl : stk_ncol = fun bc0 (lgs : list logic) =>
  match lgs with [] => bc0 | lg :: _ => lncol lg end.
Check eq_refl : layers_ok = fix layers_ok (bc0 : N) (lgs : list logic) : Prop :=
  match lgs with
  | [] => 1 <= bc0
  | lg :: lgs' =>
      logic_wf lg /\ lg_base_colors lg = stk_ncol bc0 lgs' /\
      (lg_kind lg = LkBlock \/ lg_split_fix lg = true) /\ layers_ok bc0 lgs'
  end.
Check eq_refl : known_run = fix known_run (comp : comp_prog) (bc0 : N) (lgs : list logic) (st : list mstate)
  (qs : list slot) : Prop :=
  match qs with
  | [] => True
  | q :: qs' =>
      stk_ks lgs st (fst q) /\ stk_kc bc0 lgs st (snd q) /\
      known_run comp bc0 lgs (snd (stack_get comp lgs st q)) qs'
  end.
Check (fun B get bf inv ks kc ncol (H : @pure_base B get bf inv ks kc ncol) =>
  conj (pb_zero _ _ _ _ _ _ H) (conj (pb_lt _ _ _ _ _ _ H) (pb_step _ _ _ _ _ _ H)))
  : forall B get bf inv ks kc ncol, @pure_base B get bf inv ks kc ncol ->
  (forall b, inv b -> kc b 0) /\
  (forall b c, inv b -> kc b c -> c < ncol) /\
  (forall b st co, inv b -> ks b st -> kc b co ->
     fst (get b (st, co)) = bf (st, co) /\
     inv (snd (get b (st, co))) /\
     (forall s, ks b s -> ks (snd (get b (st, co))) s) /\
     (forall c, kc b c -> kc (snd (get b (st, co))) c) /\
     (forall c sh ns, bf (st, co) = Ok (Some (c, sh, ns)) ->
        kc (snd (get b (st, co))) c /\ ks (snd (get b (st, co))) ns)).
