(** Pinned statements of the C12 theorems: weakening a theorem breaks this file. *)
From BB Require Import Base TM TapeModel TapeCanon TapeObs.
From BB.Properties Require Import C12.

Check C12_canon_step : forall t sh pr skip,
  canon_tape t -> canon_tape (fst (step t sh pr skip)).
Check C12_canon_history : forall ops, canon_tape (fold_left do_op ops (init_tape 0)).
Check C12_eq_iff_cells : forall a b,
  canon_tape a -> canon_tape b ->
  (tape_eqb a b = true <-> tape_eq (unroll_tape a) (unroll_tape b)).
Check C12_marks : forall t, marks t = marks_of (unroll_tape t).
Check C12_blank : forall t, canon_tape t -> (blank t = true <-> tape_blank (unroll_tape t)).
Check C12_at_edge : forall t sh, canon_tape t ->
  (at_edge t sh = true <-> zc (unroll_tape t) = 0 /\ all_blank (side sh (unroll_tape t))).
Check C12_blocks_counts : forall t, canon_tape t ->
  counts t = (map snd (rle (zl (unroll_tape t))), map snd (rle (zr (unroll_tape t)))) /\
  blocks t = N.of_nat (length (rle (zl (unroll_tape t))) + length (rle (zr (unroll_tape t)))).
Check C12_signature : forall t, canon_tape t ->
  tape_sig t = mkSig (zc (unroll_tape t)) (map block_cc (rle (zl (unroll_tape t))))
                     (map block_cc (rle (zr (unroll_tape t)))).
(* the definitions the statements rest on, pinned too *)
Check eq_refl : canon = fun s => counts_pos s /\ adj_differ s /\ last_nonzero s.
Check eq_refl : counts_pos = fun s => Forall (fun b => 1 <= snd b) s.
Check eq_refl : canon_tape = fun t => canon (lspan t) /\ canon (rspan t).
