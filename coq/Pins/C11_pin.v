(** Pinned statements of the C11 theorems: weakening a theorem breaks this file. *)
From BB Require Import Base TapeModel RulesModel RulesExact.
From BB.Properties Require Import C11.

Check C11_diff_exact : forall a b c d x,
  (Z.abs (Z.of_N b - Z.of_N a) < 2 ^ 31)%Z ->
  (Z.abs (Z.of_N c - Z.of_N b) < 2 ^ 31)%Z ->
  (Z.abs (Z.of_N d - Z.of_N c) < 2 ^ 31)%Z ->
  calculate_diff a b c d = Ok (DGot (Plus x)) ->
  Z.of_N b = (Z.of_N a + x)%Z /\ Z.of_N c = (Z.of_N b + x)%Z /\ Z.of_N d = (Z.of_N c + x)%Z.
Check C11_diff_skip : forall a b c d,
  calculate_diff a b c d = Ok DSkip <-> a = b /\ b = c /\ c = d.
Check C11_diff_boundary :
  calculate_diff 1 (1 + 2 ^ 32) (1 + 2 ^ 33) (1 + 3 * 2 ^ 32) = Ok (DGot (Plus 0)).
Check C11_make_rule_exact : forall c1 c2 c3 c4 r,
  make_rule c1 c2 c3 c4 = Ok (Some r) ->
  Forall quad_small (zip4 (fst c1) (fst c2) (fst c3) (fst c4)) ->
  Forall quad_small (zip4 (snd c1) (snd c2) (snd c3) (snd c4)) ->
  all_plus r ->
  forall (side : bool) i a b c d,
    nth_error (zip4 (side_of side c1) (side_of side c2) (side_of side c3) (side_of side c4)) i
      = Some (a, b, c, d) ->
    let x := match rule_get r (side, N.of_nat i) with Some (Plus x) => x | _ => 0%Z end in
    Z.of_N b = (Z.of_N a + x)%Z /\ Z.of_N c = (Z.of_N b + x)%Z /\ Z.of_N d = (Z.of_N c + x)%Z.
Check C11_count_apps_max : forall t r times pos res,
  count_apps t r = Ok (Some (times, pos, res)) ->
  (forall ix d, In (ix, Plus d) r -> (d < 0)%Z ->
     exists c, get_count t ix = Ok c /\ (1 <= Z.of_N c + d * Z.of_N times)%Z) /\
  (exists d c, In (pos, Plus d) r /\ (d < 0)%Z /\ get_count t pos = Ok c /\
     (Z.of_N res = Z.of_N c + d * Z.of_N times)%Z /\
     (Z.of_N c + d * (Z.of_N times + 1) < 1)%Z).
Check C11_count_apps_first : forall t r times pos res,
  count_apps t r = Ok (Some (times, pos, res)) ->
  exists r1 d r2, r = r1 ++ (pos, Plus d) :: r2 /\ (d < 0)%Z /\
    forall ix d', In (ix, Plus d') r1 -> (d' < 0)%Z ->
      exists c', get_count t ix = Ok c' /\ (1 <= Z.of_N c' + d' * (Z.of_N times + 1))%Z.
Check C11_count_apps_none : forall t r,
  all_plus r -> indices_valid t r ->
  (count_apps t r = Ok None <->
   (forall ix d, In (ix, Plus d) r -> (0 <= d)%Z) \/
   (exists ix d c, In (ix, Plus d) r /\ (d < 0)%Z /\ get_count t ix = Ok c /\ (Z.of_N c <= - d)%Z)).
Check C11_apply_exact : forall t r times t',
  rule_keys_nodup r -> apply_rule t r = Ok (Some times, t') ->
  (forall ix d, In (ix, Plus d) r ->
     exists c, get_count t ix = Ok c /\
               get_count t' ix = Ok (Z.to_N (Z.of_N c + d * Z.of_N times)) /\
               (0 <= Z.of_N c + d * Z.of_N times)%Z) /\
  (forall ix, (forall o, ~ In (ix, o) r) -> get_count t' ix = get_count t ix) /\
  scan t' = scan t /\
  map fst (lspan t') = map fst (lspan t) /\ map fst (rspan t') = map fst (rspan t) /\
  length (lspan t') = length (lspan t) /\ length (rspan t') = length (rspan t).
Check C11_apply_none_untouched : forall t r t', apply_rule t r = Ok (None, t') -> t' = t.
Check C11_apply_none_iff : forall t r o t', apply_rule t r = Ok (o, t') ->
  (o = None <->
   count_apps t r = Ok None \/
   exists times pos res ix d c, count_apps t r = Ok (Some (times, pos, res)) /\
     In (ix, Plus d) r /\ ix <> pos /\ get_count t ix = Ok c /\ plus_overflows c d times).
Check C11_apply_plus_prefix_refuted :
  apply_rule_prefix apply_plus_prefix
      (mkTape 0 [] [(2, 10); (3, 10); (4, 5)])
      [((true, 0), Plus (-1)); ((true, 1), Plus (-2)); ((true, 2), Plus 1)]
    = Ok (Some 4, mkTape 0 [] [(2, 14); (3, 2); (4, 9)]) /\
  apply_rule (mkTape 0 [] [(2, 10); (3, 10); (4, 5)])
      [((true, 0), Plus (-1)); ((true, 1), Plus (-2)); ((true, 2), Plus 1)]
    = Ok (Some 4, mkTape 0 [] [(2, 6); (3, 2); (4, 9)]) /\
  ~ exact_on (apply_rule_prefix apply_plus_prefix) /\
  exact_on apply_rule.
Check C11_apply_rule_prefix_refuted :
  count_apps (mkTape 0 [(1, 2 ^ 62)] [(2, 5)]) [((false, 0), Plus (-1)); ((true, 0), Plus 8)]
    = Ok (Some (2 ^ 62 - 1, (false, 0), 1)) /\
  apply_rule_prefix apply_plus (mkTape 0 [(1, 2 ^ 62)] [(2, 5)])
      [((false, 0), Plus (-1)); ((true, 0), Plus 8)]
    = Ok (None, mkTape 0 [(1, 1)] [(2, 5)]) /\
  apply_rule (mkTape 0 [(1, 2 ^ 62)] [(2, 5)]) [((false, 0), Plus (-1)); ((true, 0), Plus 8)]
    = Ok (None, mkTape 0 [(1, 2 ^ 62)] [(2, 5)]) /\
  ~ untouched_on (apply_rule_prefix apply_plus) /\
  untouched_on apply_rule.
(* the definitions the statements rest on, pinned too *)
Check eq_refl : small_diff = fun a b => (Z.abs (Z.of_N b - Z.of_N a) < 2147483648)%Z.
Check eq_refl : quad_small = fun q : quad =>
  let '(a, b, c, d) := q in small_diff a b /\ small_diff b c /\ small_diff c d.
Check eq_refl : all_plus = fun r : rule => forall ix o, In (ix, o) r -> exists x, o = Plus x.
Check eq_refl : rule_keys_nodup = fun r : rule => NoDup (map fst r).
Check eq_refl : indices_valid = fun t (r : rule) =>
  forall ix o, In (ix, o) r -> exists c, get_count t ix = Ok c.
Check eq_refl : side_of = fun (side : bool) (c : list N * list N) => if side then snd c else fst c.
Check eq_refl : rule_get = fix rule_get (r : rule) (ix : index) : option op :=
  match r with
  | [] => None
  | (k, o) :: r' => if index_eqb k ix then Some o else rule_get r' ix
  end.
Check eq_refl : exact_on = fun ar : tape -> rule -> outcome (option N * tape) =>
  forall t r times t', rule_keys_nodup r -> ar t r = Ok (Some times, t') ->
    forall ix d, In (ix, Plus d) r ->
      exists c, get_count t ix = Ok c /\
                get_count t' ix = Ok (Z.to_N (Z.of_N c + d * Z.of_N times)).
Check eq_refl : untouched_on = fun ar : tape -> rule -> outcome (option N * tape) =>
  forall t r t', ar t r = Ok (None, t') -> t' = t.

Check C11_apply_plus_prefix8_refuted :
  let t := mkTape 0 [(1, 4611686018427387904)] [(2, 5)] in
  let r := [((false, 0), Plus (-1)); ((true, 0), Plus 4)] in
  apply_rule_prefix apply_plus_prefix8 t r = Panic /\ apply_rule t r = Ok (None, t).
Check eq_refl : plus_overflows = fun c d times =>
  (Z.of_N u64_max < Z.abs d * Z.of_N times)%Z \/
  ((0 <= d)%Z /\ (Z.of_N u64_max < Z.of_N c + d * Z.of_N times)%Z).
