(** Pinned statements of the C13 theorems: weakening a theorem breaks this file. *)
From BB Require Import Base InstrsModel InstrsRoundTrip.
From BB.Properties Require Import C13.

Check C13_show_parse : forall S C tbl,
  1 <= S <= 26 -> 1 <= C <= 10 -> table_ok S C tbl ->
  exists txt, show tbl (Some (S, C)) = Some txt /\ from_str txt = Some tbl.
Check C13_show_well_formed : forall S C tbl,
  table_ok S C tbl ->
  exists txt, show tbl (Some (S, C)) = Some txt /\ well_formed_text S C txt.
Check C13_parse_show : forall S C txt,
  1 <= S <= 26 -> 1 <= C <= 10 -> well_formed_text S C txt ->
  exists tbl, from_str txt = Some tbl /\ show tbl (Some (S, C)) = Some txt.
Check C13_parse_table_ok : forall S C txt,
  1 <= S <= 26 -> 1 <= C <= 10 -> well_formed_text S C txt ->
  exists tbl, from_str txt = Some tbl /\ table_ok S C tbl.
Check C13_parse_places : forall S C rows,
  1 <= S <= 26 -> 1 <= C <= 10 -> matrix_okb S C rows = true ->
  exists tbl, from_str (text_of rows) = Some tbl /\
    forall r c : nat, cp_get tbl (N.of_nat r, N.of_nat c) = nth c (nth r rows []) None.
Check C13_instr_rt :
  (forall o, oinstr_okb o = true ->
     exists tok, show_instr o = Some tok /\ read_instr tok = Some o) /\
  (forall tok, instr_tokb tok = true ->
     exists o, read_instr tok = Some o /\ show_instr o = Some tok).
Check C13_slot_rt :
  (forall s c, s <= 25 -> c <= 9 ->
     exists tok, show_slot (s, c) = Some tok /\ read_slot tok = Some (s, c)) /\
  (forall tok, slot_tokb tok = true ->
     exists sl, read_slot tok = Some sl /\ show_slot sl = Some tok).
Check C13_state_rt :
  (forall s, s <= 25 -> exists ch, show_state s = Some ch /\ read_state ch = Some s) /\
  (forall ch, is_upper ch = true -> exists s, read_state ch = Some s /\ show_state s = Some ch).
Check C13_show_none_params : forall tbl,
  show tbl None =
  show tbl (Some (1 + max_list 1 (states_of tbl), 1 + max_list 1 (colours_of tbl))).
Check C13_parse_show_none : forall S C txt,
  1 <= S <= 26 -> 1 <= C <= 10 -> well_formed_text S C txt ->
  exists tbl, from_str txt = Some tbl /\
    (1 + max_list 1 (states_of tbl) = S -> 1 + max_list 1 (colours_of tbl) = C ->
     show tbl None = Some txt).

(* the definitions the statements rest on, pinned too *)
Check eq_refl : instr_okb = fun i => let '(co, _, tr) := i in (co <=? 9) && (tr <=? 25).
Check eq_refl : oinstr_okb = fun o => match o with None => true | Some i => instr_okb i end.
Check eq_refl : show_tok = fun o =>
  match o with
  | None => [46; 46; 46]
  | Some (co, sh, tr) => [48 + co; if sh then 82 else 76; 65 + tr]
  end.
Check eq_refl : row_text = fun row => join [32] (map show_tok row).
Check eq_refl : text_of = fun rows => join [32; 32] (map row_text rows).
Check eq_refl : matrix_okb = fun S C rows =>
  (N.of_nat (length rows) =? S) &&
  forallb (fun row => (N.of_nat (length row) =? C) && forallb oinstr_okb row) rows.
Check eq_refl : well_formed_text = fun S C txt =>
  exists rows, matrix_okb S C rows = true /\ txt = text_of rows.
Check eq_refl : cp_sortedb = fix f (p : comp_prog) : bool :=
  match p with
  | [] => true
  | kv :: p' => match p' with
                | [] => true
                | kv' :: _ => slot_ltb (fst kv) (fst kv') && f p'
                end
  end.
Check eq_refl : entry_okb = fun S C (kv : slot * instr) =>
  (fst (fst kv) <? S) && (snd (fst kv) <? C) && instr_okb (snd kv).
Check eq_refl : table_okb = fun S C tbl => cp_sortedb tbl && forallb (entry_okb S C) tbl.
Check eq_refl : table_ok = fun S C tbl => table_okb S C tbl = true.
Check eq_refl : is_digit = fun c => (48 <=? c) && (c <=? 57).
Check eq_refl : is_upper = fun c => (65 <=? c) && (c <=? 90).
Check eq_refl : instr_tokb = fun tok =>
  match tok with
  | [a; b; c] => ((a =? 46) && (b =? 46) && (c =? 46))
                 || (is_digit a && ((b =? 76) || (b =? 82)) && is_upper c)
  | _ => false
  end.
Check eq_refl : slot_tokb = fun tok =>
  match tok with [a; b] => is_upper a && is_digit b | _ => false end.
Check eq_refl : states_of = fun p =>
  flat_map (fun kv : slot * instr => [fst (fst kv); snd (snd kv)]) p.
Check eq_refl : colours_of = fun p =>
  flat_map (fun kv : slot * instr => [snd (fst kv); fst (fst (snd kv))]) p.
Check eq_refl : max_list = fun d l => fold_right N.max d l.
