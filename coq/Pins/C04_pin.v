From BB Require Import Base TM Ref InstrsModel TapeModel ReasonModel ReasonInstr StepSim BackstepSound ReasonSound.
From BB.Properties Require Import C04.

Check C04_bw_halt_refuted_F1 :
  exists comp d s n sl, cant_halt comp d = Ok (BwRefuted s) /\ halts_at (to_prog comp) init_config n sl.
Check C04_bw_spin_refuted_F1 :
  exists comp d s n, cant_spin_out comp d = Ok (BwRefuted s) /\ spins_out_at (to_prog comp) init_config n.
Check C04_bw_halt_refuted_F2 :
  exists comp d s n sl, cant_halt comp d = Ok (BwRefuted s) /\ halts_at (to_prog comp) init_config n sl.
Check C04_stmt_refuted : ~ C04_bw_refuted_sound_stmt.
Check C04_bw_mono : forall sw comp d d', d <= d' ->
  (cant_halt_sw sw comp d <> Ok BwStepLimit -> cant_halt_sw sw comp d' = cant_halt_sw sw comp d) /\
  (cant_blank_sw sw comp d <> Ok BwStepLimit -> cant_blank_sw sw comp d' = cant_blank_sw sw comp d) /\
  (cant_spin_out_sw sw comp d <> Ok BwStepLimit -> cant_spin_out_sw sw comp d' = cant_spin_out_sw sw comp d).

Check C04_backstep_exact : forall (P : prog) q z q' z' t pr sh,
  tm_step P (q, z) = Some (q', z') ->
  P (q, zc z) = Some (pr, sh, q') ->
  bs_conc t z' ->
  pulls_indef t sh = false ->
  check_step t sh pr = true /\ bs_conc (backstep t sh (zc z)) z.
Check C04_indef_covers : forall (P : prog) q c pr sh k z z' t b,
  P (q, c) = Some (pr, sh, q) ->
  (1 <= k)%nat ->
  sweep_run P q c k z z' ->
  bs_conc t z' ->
  check_spinout t sh c = Some b ->
  bs_conc (push_indef t sh) z.
Check C04_check_spinout_spec : forall t sh read b,
  check_spinout t sh read = Some b <->
  let pull := if sh then bs_lspan t else bs_rspan t in
  let push := if sh then bs_rspan t else bs_lspan t in
  bs_scan t = read /\ sp_blocks pull = [] /\
  (sp_end pull = EndBlanks \/ sp_blocks push <> []) /\
  b = negb (bspan_matches_color push (bs_scan t)).
Check C04_plain_round_sound : forall sw comp cfgs cfg bl vs cfgs' indefs bl' q z q' z' pr sh,
  In cfg cfgs -> c_state cfg = q' -> bs_conc (c_tape cfg) z' ->
  to_prog comp (q, zc z) = Some (pr, sh, q') ->
  tm_step (to_prog comp) (q, z) = Some (q', z') ->
  get_valid_steps sw cfgs (get_entrypoints comp) = Ok vs ->
  step_configs vs bl = inl (cfgs', indefs, bl') ->
  (q = q' -> check_spinout (c_tape cfg) sh (zc z) = None \/
             (check_spinout (c_tape cfg) sh (zc z) = Some false /\ sw_nodrop sw = true)) ->
  round_covered cfgs' indefs bl' (c_tape cfg) sh q z.

Check C04_cant_reach_i_spec : forall sw comp depth g,
  fst (fst (cant_reach_i sw comp depth g)) = cant_reach sw comp depth g.
Check C04_frontier_round_sound : forall sw comp, sw_nodrop sw = true ->
  forall cfgs bl vs j c,
  (1 <= j)%nat -> rcfg comp j c -> covers cfgs c ->
  get_valid_steps sw cfgs (get_entrypoints comp) = Ok vs ->
  vs <> [] /\
  forall cfgs' indefs bl' sk,
    step_configs_i vs bl = inl (cfgs', indefs, bl', sk) -> round_outcome comp cfgs' indefs sk j.
Check C04_bw_halt_refuted_sound : forall sw comp depth s,
  sw_nodrop sw = true ->
  halt_box_ok sw comp = true ->
  to_prog comp (0, 0) <> None ->
  bw_skips_justified sw comp depth (halt_configs sw) = true ->
  cant_halt_sw sw comp depth = Ok (BwRefuted s) ->
  forall n sl, ~ halts_at (to_prog comp) init_config n sl.
Check C04_bw_blank_refuted_sound : forall sw comp depth s,
  sw_nodrop sw = true ->
  cant_blank_sw sw comp depth = Ok (BwRefuted s) ->
  forall n, ~ erases_at (to_prog comp) init_config n.
Check C04_bw_spinout_refuted_sound : forall sw comp depth s,
  sw_nodrop sw = true ->
  bw_skips_justified sw comp depth zero_reflexive_configs = true ->
  cant_spin_out_sw sw comp depth = Ok (BwRefuted s) ->
  forall n, ~ spins_out_at (to_prog comp) init_config n.
Check C04_bw_refuted_sound_guarded : forall sw comp depth s,
  sw_nodrop sw = true ->
  (halt_box_ok sw comp = true -> to_prog comp (0, 0) <> None ->
   bw_skips_justified sw comp depth (halt_configs sw) = true ->
   cant_halt_sw sw comp depth = Ok (BwRefuted s) ->
   forall n sl, ~ halts_at (to_prog comp) init_config n sl) /\
  (cant_blank_sw sw comp depth = Ok (BwRefuted s) ->
   forall n, ~ erases_at (to_prog comp) init_config n) /\
  (bw_skips_justified sw comp depth zero_reflexive_configs = true ->
   cant_spin_out_sw sw comp depth = Ok (BwRefuted s) ->
   forall n, ~ spins_out_at (to_prog comp) init_config n).
Check C04_no_blank_skip_justified : forall sw comp depth g,
  bw_no_blank_skip sw comp depth g = true -> bw_skips_justified sw comp depth g = true.
Check C04_guards_nonvacuous :
  (sw_nodrop sw_f2 = true /\ halt_box_ok sw_f2 ex_halt_prog = true /\
   to_prog ex_halt_prog (0, 0) <> None /\
   bw_skips_justified sw_f2 ex_halt_prog 40 (halt_configs sw_f2) = true /\
   cant_halt_sw sw_f2 ex_halt_prog 40 = Ok (BwRefuted 12)) /\
  cant_blank_sw sw_f2 ex_blank_prog 40 = Ok (BwRefuted 28) /\
  (bw_no_blank_skip sw_f2 ex_spin_prog 40 zero_reflexive_configs = false /\
   bw_skips_justified sw_f2 ex_spin_prog 40 zero_reflexive_configs = true /\
   cant_spin_out_sw sw_f2 ex_spin_prog 40 = Ok (BwRefuted 10)).

(** ---- Proofs/ReasonSkips.v: the run guard always holds ---- *)
From BB Require Import ReasonSkips.
From BB Require InstrsRoundTrip.
Check C04_skips_always_justified : forall sw comp depth,
  NoDup (map fst comp) ->
  bw_skips_justified sw comp depth (halt_configs sw) = true /\
  bw_skips_justified sw comp depth zero_reflexive_configs = true.
Check C04_sorted_distinct_slots : forall comp : comp_prog,
  InstrsRoundTrip.cp_sortedb comp = true -> NoDup (map fst comp).
Check C04_parsed_distinct_slots : forall s (comp : comp_prog),
  from_str s = Some comp -> NoDup (map fst comp).
Check C04_skips_always_justified_sorted : forall sw comp depth s,
  InstrsRoundTrip.cp_sortedb comp = true ->
  sw_nodrop sw = true ->
  (cant_halt_sw sw comp depth = Ok (BwRefuted s) ->
     bw_skips_justified sw comp depth (halt_configs sw) = true) /\
  (cant_spin_out_sw sw comp depth = Ok (BwRefuted s) ->
     bw_skips_justified sw comp depth zero_reflexive_configs = true).
Check C04_skips_justified_needs_distinct_slots :
  let sw := mkSw true true in
  sw_nodrop sw = true /\
  cant_halt_sw sw dup_prog 10 = Ok (BwRefuted 2) /\
  bw_skips_justified sw dup_prog 10 (halt_configs sw) = false.
Check eq_refl : dup_prog = [((0,1),(1,false,1)); ((1,0),(0,true,2)); ((1,0),(0,false,2))].
Check C04_skips_always_justified_stmt_literal_false : ~ C04_skips_always_justified_stmt.
Check C04_bw_halt_refuted_sound_nodrop : forall sw comp depth s,
  NoDup (map fst comp) ->
  sw_nodrop sw = true ->
  halt_box_ok sw comp = true ->
  to_prog comp (0, 0) <> None ->
  cant_halt_sw sw comp depth = Ok (BwRefuted s) ->
  forall n sl, ~ halts_at (to_prog comp) init_config n sl.
Check C04_bw_spinout_refuted_sound_nodrop : forall sw comp depth s,
  NoDup (map fst comp) ->
  sw_nodrop sw = true ->
  cant_spin_out_sw sw comp depth = Ok (BwRefuted s) ->
  forall n, ~ spins_out_at (to_prog comp) init_config n.
Check C04_bw_refuted_sound_nodrop : forall sw comp depth s,
  NoDup (map fst comp) ->
  sw_nodrop sw = true ->
  (halt_box_ok sw comp = true -> to_prog comp (0, 0) <> None ->
   cant_halt_sw sw comp depth = Ok (BwRefuted s) ->
   forall n sl, ~ halts_at (to_prog comp) init_config n sl) /\
  (cant_blank_sw sw comp depth = Ok (BwRefuted s) ->
   forall n, ~ erases_at (to_prog comp) init_config n) /\
  (cant_spin_out_sw sw comp depth = Ok (BwRefuted s) ->
   forall n, ~ spins_out_at (to_prog comp) init_config n).
