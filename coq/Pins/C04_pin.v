From BB Require Import Base TM Ref InstrsModel TapeModel ReasonModel StepSim BackstepSound.
From BB.Properties Require Import C04.

Check C04_bw_halt_refuted_F1 :
  exists comp d s n sl, cant_halt comp d = Ok (BwRefuted s) /\ halts_at (to_prog comp) init_config n sl.
Check C04_bw_spin_refuted_F1 :
  exists comp d s n, cant_spin_out comp d = Ok (BwRefuted s) /\ spins_out_at (to_prog comp) init_config n.
Check C04_bw_halt_refuted_F2 :
  exists comp d s n sl, cant_halt comp d = Ok (BwRefuted s) /\ halts_at (to_prog comp) init_config n sl.
Check C04_stmt_refuted : ~ C04_bw_refuted_sound_stmt.
Check C04_bw_mono : forall sw comp d d', d <= d' ->
  (cant_halt_sw sw comp d <> Ok BwStepLimit -> cant_halt_sw sw comp d' = cant_halt_sw sw comp d) /\
  (cant_blank_sw sw comp d <> Ok BwStepLimit -> cant_blank_sw sw comp d' = cant_blank_sw sw comp d) /\
  (cant_spin_out_sw sw comp d <> Ok BwStepLimit -> cant_spin_out_sw sw comp d' = cant_spin_out_sw sw comp d).

Check C04_backstep_exact : forall (P : prog) q z q' z' t pr sh,
  tm_step P (q, z) = Some (q', z') ->
  P (q, zc z) = Some (pr, sh, q') ->
  bs_conc t z' ->
  pulls_indef t sh = false ->
  check_step t sh pr = true /\ bs_conc (backstep t sh (zc z)) z.
Check C04_indef_covers : forall (P : prog) q c pr sh k z z' t b,
  P (q, c) = Some (pr, sh, q) ->
  (1 <= k)%nat ->
  sweep_run P q c k z z' ->
  bs_conc t z' ->
  check_spinout t sh c = Some b ->
  bs_conc (push_indef t sh) z.
Check C04_check_spinout_spec : forall t sh read b,
  check_spinout t sh read = Some b <->
  let pull := if sh then bs_lspan t else bs_rspan t in
  let push := if sh then bs_rspan t else bs_lspan t in
  bs_scan t = read /\ sp_blocks pull = [] /\
  (sp_end pull = EndBlanks \/ sp_blocks push <> []) /\
  b = negb (bspan_matches_color push (bs_scan t)).
Check C04_plain_round_sound : forall sw comp cfgs cfg bl vs cfgs' indefs bl' q z q' z' pr sh,
  In cfg cfgs -> c_state cfg = q' -> bs_conc (c_tape cfg) z' ->
  to_prog comp (q, zc z) = Some (pr, sh, q') ->
  tm_step (to_prog comp) (q, z) = Some (q', z') ->
  get_valid_steps sw cfgs (get_entrypoints comp) = Ok vs ->
  step_configs vs bl = inl (cfgs', indefs, bl') ->
  (q = q' -> check_spinout (c_tape cfg) sh (zc z) = None \/
             (check_spinout (c_tape cfg) sh (zc z) = Some false /\ sw_nodrop sw = true)) ->
  round_covered cfgs' indefs bl' (c_tape cfg) sh q z.
