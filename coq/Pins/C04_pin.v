From BB Require Import Base TM Ref InstrsModel TapeModel ReasonModel.
From BB.Properties Require Import C04.

Check C04_bw_halt_refuted_F1 :
  exists comp d s n sl, cant_halt comp d = Ok (BwRefuted s) /\ halts_at (to_prog comp) init_config n sl.
Check C04_bw_spin_refuted_F1 :
  exists comp d s n, cant_spin_out comp d = Ok (BwRefuted s) /\ spins_out_at (to_prog comp) init_config n.
Check C04_bw_halt_refuted_F2 :
  exists comp d s n sl, cant_halt comp d = Ok (BwRefuted s) /\ halts_at (to_prog comp) init_config n sl.
Check C04_stmt_refuted : ~ C04_bw_refuted_sound_stmt.
Check C04_bw_mono : forall sw comp d d', d <= d' ->
  (cant_halt_sw sw comp d <> Ok BwStepLimit -> cant_halt_sw sw comp d' = cant_halt_sw sw comp d) /\
  (cant_blank_sw sw comp d <> Ok BwStepLimit -> cant_blank_sw sw comp d' = cant_blank_sw sw comp d) /\
  (cant_spin_out_sw sw comp d <> Ok BwStepLimit -> cant_spin_out_sw sw comp d' = cant_spin_out_sw sw comp d).
