From BB Require Import Base TM TMabs MacroSpec InstrsModel MacrosModel.
From BB Require Import MacroSim MacroPure MacroBlock MacroBack.
From BB.Properties Require Import C09.
Open Scope N_scope.

Check C09_back_new : forall fx k Q C,
  1 <= C -> back_fits k Q C ->
  backsymbol_new fx k (Q, C) = Ok (back_logic fx k Q C) /\
  macro_sim_lim (back_logic fx k Q C) = Ok (2 * Q * C ^ k * C).
Check C09_back_instr_sound_fix : forall comp k Q C m ms mc bs r m',
  1 <= C -> back_fits k Q C -> prog_within comp Q C -> mc < C ->
  cache_ok k C m -> c2t_get (ms_c2t m) ((ms / 2) mod C ^ k) = Some bs ->
  macro_calculate_instr unit (plain_get comp) (back_logic true k Q C) (m, tt) (ms, mc) = (r, (m', tt)) ->
  cache_ok k C m' /\ r = Ok (calc_back (to_prog comp) true k Q C (ms, mc)) /\
  forall mc' sh ms', r = Ok (Some (mc', sh, ms')) ->
    ms' mod 2 = (if sh then 1 else 0) /\ back_state C k ms' < Q /\ mc' < C /\
    c2t_get (ms_c2t m') ((ms' / 2) mod C ^ k) = Some (back_span C k ms') /\
    forall lo t, win_at t lo (back_in_window C k ms mc) ->
      leaves (to_prog comp) lo (S (N.to_nat k))
             (mkA (back_state C k ms) (entry_pos (negb (ms mod 2 =? 1)) lo (S (N.to_nat k))) t)
             (negb sh) (back_state C k ms') (back_out_window C k ms' mc' sh).
Check C09_back_instr_none_fix : forall comp k Q C m ms mc bs lo t,
  1 <= C -> back_fits k Q C -> prog_within comp Q C -> mc < C ->
  cache_ok k C m -> c2t_get (ms_c2t m) ((ms / 2) mod C ^ k) = Some bs ->
  Q * (k + 1) * C ^ (k + 1) <= 2 * Q * C ^ k * C ->
  win_at t lo (back_in_window C k ms mc) ->
  (fst (macro_calculate_instr unit (plain_get comp) (back_logic true k Q C) (m, tt) (ms, mc)) = Ok None <->
   halts_inside (to_prog comp) lo (S (N.to_nat k))
     (mkA (back_state C k ms) (entry_pos (negb (ms mod 2 =? 1)) lo (S (N.to_nat k))) t) \/
   never_leaves (to_prog comp) lo (S (N.to_nat k))
     (mkA (back_state C k ms) (entry_pos (negb (ms mod 2 =? 1)) lo (S (N.to_nat k))) t)).
Check C09_back_pigeon_k1 : forall Q C, Q * (1 + 1) * C ^ (1 + 1) <= 2 * Q * C ^ 1 * C.
Check C09_back_pigeon_fails : forall k Q C,
  1 <= Q -> 1 <= C -> 2 <= k -> 2 * Q * C ^ k * C < Q * (k + 1) * C ^ (k + 1).
Check C09_back_instr_none_conv : forall (P : prog) k Q C,
  1 <= C -> back_fits k Q C ->
  forall ms mc lo t, win_at t lo (back_in_window C k ms mc) ->
  halts_inside P lo (S (N.to_nat k))
    (mkA (back_state C k ms) (entry_pos (negb (ms mod 2 =? 1)) lo (S (N.to_nat k))) t) \/
  never_leaves P lo (S (N.to_nat k))
    (mkA (back_state C k ms) (entry_pos (negb (ms mod 2 =? 1)) lo (S (N.to_nat k))) t) ->
  calc_back P true k Q C (ms, mc) = None.
Check C09_back_instr_none_weak : forall (P : prog) k Q C,
  1 <= C -> back_fits k Q C ->
  forall ms mc lo t, win_at t lo (back_in_window C k ms mc) ->
  calc_back P true k Q C (ms, mc) = None ->
  halts_inside P lo (S (N.to_nat k))
    (mkA (back_state C k ms) (entry_pos (negb (ms mod 2 =? 1)) lo (S (N.to_nat k))) t) \/
  exists sL, iter_nat (N.to_nat (2 * Q * C ^ k * C))
               (sim_body unit (pget P) (mt_len (back_in_window C k ms mc)))
               (sim_start (back_state C k ms) (negb (ms mod 2 =? 1)) (back_in_window C k ms mc))
             = inl sL.
Check C09_calc_back_sound : forall (P : prog) k Q C,
  1 <= C -> back_fits k Q C -> prog_within_P P Q C ->
  forall ms mc mc' sh ms', mc < C ->
  calc_back P true k Q C (ms, mc) = Some (mc', sh, ms') ->
  (forall lo t, win_at t lo (back_in_window C k ms mc) ->
     leaves P lo (S (N.to_nat k))
            (mkA (back_state C k ms) (entry_pos (negb (ms mod 2 =? 1)) lo (S (N.to_nat k))) t)
            (negb sh) (back_state C k ms') (back_out_window C k ms' mc' sh)) /\
  ms' mod 2 = (if sh then 1 else 0) /\ back_state C k ms' < Q /\ mc' < C.
Check C09_back_run_sim_fix : forall (P : prog) k Q C,
  1 <= C -> back_fits k Q C -> prog_within_P P Q C ->
  forall c0 n, (forall x, a_t c0 x < C) ->
  exists tm : nat -> nat,
    tm O = O /\ (forall i, (i < n)%nat -> (tm i < tm (S i))%nat) /\
    forall i ci, (i <= n)%nat -> a_steps (calc_back P true k Q C) i c0 = Some ci ->
      (forall x, a_t ci x < C) /\
      exists cb, a_steps P (tm i) (back_dec_cfg C k c0) = Some cb /\
                 aconf_eq cb (back_dec_cfg C k ci).
Check C09_back_run_sim_fix_zipper : forall (P : prog) k Q C,
  1 <= C -> back_fits k Q C -> prog_within_P P Q C ->
  forall ms z H n ms' z', (forall x, abs_of z H x < C) ->
  tm_steps (calc_back P true k Q C) n (ms, z) = Some (ms', z') ->
  exists H' m cb, (n <= m)%nat /\
    a_steps P m (back_dec_cfg C k (mkA ms H (abs_of z H))) = Some cb /\
    aconf_eq cb (back_dec_cfg C k (mkA ms' H' (abs_of z' H'))).
Check C09_back_obj_run_fix : forall (P : prog) k Q C,
  1 <= C -> back_fits k Q C -> prog_within_P P Q C ->
  forall n m q z,
  obj_ok_b P k Q C m -> known_b k C m q -> ztape_lt C z ->
  match tm_steps (calc_back P true k Q C) n (q, z) with
  | Some c' => exists m', obj_steps (macro_get_instr unit (pget P) (back_logic true k Q C)) n ((m, tt), (q, z))
                            = Ok (Some ((m', tt), c')) /\
                          obj_ok_b P k Q C m' /\ known_b k C m' (fst c') /\ ztape_lt C (snd c')
  | None => obj_steps (macro_get_instr unit (pget P) (back_logic true k Q C)) n ((m, tt), (q, z)) = Ok None
  end.
Check C09_back_obj_run_fix_blank : forall (P : prog) k Q C,
  1 <= C -> back_fits k Q C -> prog_within_P P Q C ->
  forall n,
  match tm_steps (calc_back P true k Q C) n ((0 : state), blank_tape) with
  | Some c' => exists m', obj_steps (macro_get_instr unit (pget P) (back_logic true k Q C)) n
                            ((mstate_new k, tt), ((0 : state), blank_tape)) = Ok (Some ((m', tt), c'))
  | None => obj_steps (macro_get_instr unit (pget P) (back_logic true k Q C)) n
              ((mstate_new k, tt), ((0 : state), blank_tape)) = Ok None
  end.
Check C09_back_blank : forall k C, 1 <= C ->
  aconf_eq (back_dec_cfg C k (mkA 0 0%Z (abs_of blank_tape 0%Z))) (mkA 0 (Z.of_N k) (fun _ => 0)).
Check C09_back_right_exit_eq : forall (P : prog) k Q C ms mc,
  (forall st' tp',
     fst (run_simulator unit (pget P) (back_logic true k Q C)
            (back_state C k ms, (negb (ms mod 2 =? 1), back_in_window C k ms mc)) tt)
       <> Ok (Some (st', (false, tp')))) ->
  calc_back P false k Q C (ms, mc) = calc_back P true k Q C (ms, mc).
Check C09_back_right_exit_eq_obj : forall (P : prog) k Q C m ms mc,
  (forall cfg st' tp', deconstruct_inputs (back_logic true k Q C) m (ms, mc) = Ok cfg ->
     fst (run_simulator unit (pget P) (back_logic true k Q C) cfg tt)
       <> Ok (Some (st', (false, tp')))) ->
  macro_calculate_instr unit (pget P) (back_logic false k Q C) (m, tt) (ms, mc) =
  macro_calculate_instr unit (pget P) (back_logic true k Q C) (m, tt) (ms, mc).
Check C09_back_faithful_right : forall (P : prog) k Q C ms mc mc' ms',
  calc_back P true k Q C (ms, mc) = Some (mc', false, ms') ->
  calc_back P false k Q C (ms, mc) = Some (mc', false, ms').
Check C09_back_faithful_none : forall (P : prog) k Q C ms mc,
  1 <= C -> back_fits k Q C ->
  calc_back P true k Q C (ms, mc) = None -> calc_back P false k Q C (ms, mc) = None.
Check C09_back_run_sim_outside_F3 : forall (P : prog) k Q C ms z H n ms' z',
  1 <= k -> 1 <= C -> back_fits k Q C -> prog_within_P P Q C ->
  (forall x, abs_of z H x < C) ->
  tm_steps (calc_back P false k Q C) n (ms, z) = Some (ms', z') ->
  (forall i ci, (i < n)%nat -> tm_steps (calc_back P false k Q C) i (ms, z) = Some ci ->
     forall mc' ms'', calc_back P false k Q C (fst ci, zc (snd ci)) <> Some (mc', true, ms'')) ->
  exists H' m cb, (n <= m)%nat /\
    a_steps P m (back_dec_cfg C k (mkA ms H (abs_of z H))) = Some cb /\
    aconf_eq cb (back_dec_cfg C k (mkA ms' H' (abs_of z' H'))).
Check C09_back_refuted : fst (macro_calculate_instr unit (plain_get f3_comp) (back_logic false 1 2 2)
         (mstate_new 1, tt) (0, 1)) = Ok (Some (1, true, 1)) /\
  calc_back (to_prog f3_comp) false 1 2 2 (0, 1) = Some (1, true, 1) /\
  forall lo t, win_at t lo (back_in_window 2 1 0 1) ->
    ~ leaves (to_prog f3_comp) lo 2
        (mkA (back_state 2 1 0) (entry_pos (negb (0 mod 2 =? 1)) lo 2) t)
        (negb true) (back_state 2 1 1) (back_out_window 2 1 1 1 true).
