From BB Require Import Base TM Ref InstrsModel TapeModel SegmentModel.
From BB.Properties Require Import C05.

Check C05_wrapper_refuted_F2 :
  exists prog segs st n sl,
    sg_py_segment_cant_halt prog segs = Ok (SgrRefuted st) /\ halts_at (to_prog prog) init_config n sl.
Check C05_seg_mono : forall prog params goal s s',
  2 <= s -> s <= s' ->
  sg_segment_cant_reach prog params s goal <> Ok SgrSegmentLimit ->
  sg_segment_cant_reach prog params s' goal = sg_segment_cant_reach prog params s goal.
