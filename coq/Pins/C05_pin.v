From BB Require Import Base TM Ref InstrsModel TapeModel SegmentModel.
From BB Require Import MacroSpec MacroSim SegmentFacts SegmentTape SegmentSound.
From BB.Properties Require Import C05.

Check C05_seg_verdicts_true : forall prog S C segs,
  0 < S -> 0 < C ->
  (forall s c pr sh tr, cp_get prog (s, c) = Some (pr, sh, tr) -> s < S /\ c < C /\ tr < S /\ pr < C) ->
  let P := to_prog prog in
  (forall st, sg_seg_cant_halt prog (S, C) segs = Ok (SgrRefuted st) -> forall n sl, ~ halts_at P init_config n sl) /\
  (forall st, sg_seg_cant_spin_out prog (S, C) segs = Ok (SgrRefuted st) -> forall n, ~ spins_out_at P init_config n) /\
  (forall st, sg_seg_cant_blank prog (S, C) segs = Ok (SgrRefuted st) -> forall n, ~ erases_at P init_config n) /\
  (forall g, sg_segment_cant_reach prog (S, C) segs g = Ok SgrHalt -> exists n sl, halts_at P init_config n sl) /\
  (forall g, sg_segment_cant_reach prog (S, C) segs g = Ok SgrSpinout -> exists n, spins_out_at P init_config n) /\
  (forall g, sg_segment_cant_reach prog (S, C) segs g = Ok SgrBlank -> exists n q, blank_after P init_config n q) /\
  (forall g, sg_segment_cant_reach prog (S, C) segs g = Ok SgrRepeat -> never_halts P init_config).
Check C05_seg_verdicts_true_stmt_degenerate : ~ C05_seg_verdicts_true_stmt.
Check C05_seg_positive_sound : forall prog S C segs g,
  prog_within prog S C ->
  let P := to_prog prog in
  (sg_segment_cant_reach prog (S, C) segs g = Ok SgrHalt -> exists n sl, halts_at P init_config n sl) /\
  (sg_segment_cant_reach prog (S, C) segs g = Ok SgrSpinout -> exists n, spins_out_at P init_config n) /\
  (sg_segment_cant_reach prog (S, C) segs g = Ok SgrBlank -> exists n q, blank_after P init_config n q) /\
  (sg_segment_cant_reach prog (S, C) segs g = Ok SgrRepeat -> never_halts P init_config).
Check C05_seg_positive_sound_any_params : forall prog params segs g,
  let P := to_prog prog in
  (sg_segment_cant_reach prog params segs g = Ok SgrHalt -> exists n sl, halts_at P init_config n sl) /\
  (sg_segment_cant_reach prog params segs g = Ok SgrSpinout -> exists n, spins_out_at P init_config n) /\
  (sg_segment_cant_reach prog params segs g = Ok SgrBlank -> exists n q, blank_after P init_config n q) /\
  (sg_segment_cant_reach prog params segs g = Ok SgrRepeat -> never_halts P init_config).
Check C05_seg_refuted_sound : forall prog S C segs,
  prog_within prog S C -> 0 < S -> 0 < C ->
  let P := to_prog prog in
  (forall st, sg_seg_cant_halt prog (S, C) segs = Ok (SgrRefuted st) -> forall n sl, ~ halts_at P init_config n sl) /\
  (forall st, sg_seg_cant_spin_out prog (S, C) segs = Ok (SgrRefuted st) -> forall n, ~ spins_out_at P init_config n).
Check C05_seg_blank_never_refuted : forall prog params segs st,
  sg_seg_cant_blank prog params segs <> Ok (SgrRefuted st).
Check C05_seg_tape_step_sim : forall (P : prog) q c pr sh q' t t' T h,
  P (q, c) = Some (pr, sh, q') ->
  sgt_scan t = Some c -> tape_ok t -> rep t T h ->
  sg_tape_step t sh pr (q' =? q) = Ok t' ->
  exists k T' h',
    (1 <= k)%nat /\
    TMabs.a_steps P k (TMabs.mkA q h T) = Some (TMabs.mkA q' h' T') /\
    tape_ok t' /\ rep t' T' h' /\
    (forall i ci, (i < k)%nat -> TMabs.a_steps P i (TMabs.mkA q h T) = Some ci ->
       (wl t h <= TMabs.a_h ci <= wr t h)%Z /\ TMabs.a_q ci = q /\
       TMabs.a_t ci (TMabs.a_h ci) = c) /\
    (forall y, ~ (wl t h <= y <= wr t h)%Z -> T' y = T y) /\
    match sgt_scan t' with
    | Some _ => wl t' h' = wl t h /\ wr t' h' = wr t h
    | None =>
        if sh then h' = (wr t h + 1)%Z /\ sgt_rspan t' = [] /\ wl t' h' = wl t h
        else h' = (wl t h - 1)%Z /\ sgt_lspan t' = [] /\ wr t' h' = wr t h
    end.
Check C05_seg_run_to_edge_sound : forall prog goal c cs,
  cfg_ok c -> rte_post prog (sgs_todo cs) (sg_run_to_edge prog goal c cs).
Check C05_seg_init_exact : forall prog (ap : sg_aprog) goal, sga_prog ap = prog ->
  forall n cs0 cs, asr_inv cs0 ->
  iter_nat n (sg_asr_body ap goal) cs0 = inl cs ->
  forall c cs', sg_configs_next cs = Ok (Some c, cs') ->
  tape_ok (sgc_tape c) /\ (sgc_init c = true -> real_at prog 0 (sg_x c)).
Check C05_wrapper_refuted_F2 :
  exists prog segs st n sl,
    sg_py_segment_cant_halt prog segs = Ok (SgrRefuted st) /\ halts_at (to_prog prog) init_config n sl.
Check C05_wrapper_counterfactual : sg_seg_cant_halt f2_seg_prog (2, 2) 3 = Ok SgrHalt.
Check C05_seg_mono : forall prog params goal s s',
  2 <= s -> s <= s' ->
  sg_segment_cant_reach prog params s goal <> Ok SgrSegmentLimit ->
  sg_segment_cant_reach prog params s' goal = sg_segment_cant_reach prog params s goal.
