From BB Require Import Base TM Ref TapeModel InstrsModel MachineModel.
From BB Require Import TapeCanon TapeObs StepSim Loops QuickSim.
From BB.Properties Require Import C01.

Check C01_step_unroll : forall t sh pr skip t' stepped,
  counts_pos_tape t -> step t sh pr skip = (t', stepped) ->
  exists j, N.to_nat stepped = S j /\
    tape_eq (unroll_tape t') (mv_n (S j) sh pr (unroll_tape t)) /\
    (forall i, (i < j)%nat -> cell (side sh (unroll_tape t)) i = scan t) /\
    counts_pos_tape t' /\
    (j <> O -> exists c n rest, (if sh then rspan t else lspan t) = (c, n) :: rest
                               /\ c = scan t /\ N.to_nat n = j).
Check C01_quick_eq_ref : forall comp n,
  let P := to_prog comp in
  let r := run_quick comp n in
  (r_result r <> xlimit ->
     forall L, r_steps r < L ->
       let rr := ref_run P L in
       rr_result rr = r_result r /\ rr_steps rr = r_steps r /\ rr_marks rr = r_marks r /\
       rr_blanks rr = r_blanks r /\ rr_last_slot rr = r_last_slot r) /\
  (r_result r = xlimit ->
     let rr := ref_run P (r_steps r) in
       rr_result rr = xlimit /\ rr_steps rr = r_steps r /\ rr_marks rr = r_marks r /\
       rr_blanks rr = r_blanks r /\ rr_last_slot rr = r_last_slot r /\ n <= r_steps r).
Check C01_cycle_unrolls : forall comp m s,
  iter_nat m (quick_body comp) q_init = inl s ->
  exists z, tm_steps (to_prog comp) (N.to_nat (q_steps s)) init_config = Some (q_state s, z) /\
            tape_eq z (unroll_tape (q_tape s)) /\ canon_tape (q_tape s) /\ q_cycle s = N.of_nat m.
Check C01_run_quick_is_iter : forall comp n,
  run_quick comp n = finish 0 (iter_nat (N.to_nat n) (quick_body comp) q_init).
