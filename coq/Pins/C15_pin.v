From BB Require Import Base Ref TapeModel InstrsModel MachineModel ReasonModel SegmentModel CpsModel.
From BB Require Import ProverModel.
From BB.Properties Require Import C15.

Check C15_for_upto_mono : forall (St Rs : Type) (body : St -> St + Rs) n m s r,
  for_upto n body s = inr r -> n <= m -> for_upto m body s = inr r.
Check C15_quick_mono : forall comp n m,
  r_result (run_quick comp n) <> xlimit -> n <= m -> run_quick comp m = run_quick comp n.
Check C15_rec_mono : forall comp n m,
  quick_term_or_rec comp n <> RLimit -> n <= m -> quick_term_or_rec comp m = quick_term_or_rec comp n.
Check C15_bw_mono : forall sw comp d d', d <= d' ->
  (cant_halt_sw sw comp d <> Ok BwStepLimit -> cant_halt_sw sw comp d' = cant_halt_sw sw comp d) /\
  (cant_blank_sw sw comp d <> Ok BwStepLimit -> cant_blank_sw sw comp d' = cant_blank_sw sw comp d) /\
  (cant_spin_out_sw sw comp d <> Ok BwStepLimit -> cant_spin_out_sw sw comp d' = cant_spin_out_sw sw comp d).
Check C15_seg_mono : forall prog params goal s s',
  2 <= s -> s <= s' ->
  sg_segment_cant_reach prog params s goal <> Ok SgrSegmentLimit ->
  sg_segment_cant_reach prog params s' goal = sg_segment_cant_reach prog params s goal.
Check C15_cps_mono : forall order prog goal r r',
  cps_run order prog r goal = Ok true -> r <= r' -> cps_run order prog r' goal = Ok true.
Check C15_for_upto_agree : forall (St Rs : Type) (body : St -> St + Rs) n m s r r',
  for_upto n body s = inr r -> for_upto m body s = inr r' -> r = r'.
Check C15_prover_mono : forall comp n m r,
  run_prover comp n = Ok r -> r_result r <> xlimit -> n <= m -> run_prover comp m = Ok r.
Check C15_quick_agree : forall comp n m,
  r_result (run_quick comp n) <> xlimit -> r_result (run_quick comp m) <> xlimit ->
  run_quick comp m = run_quick comp n.
Check C15_rec_agree : forall comp n m,
  quick_term_or_rec comp n <> RLimit -> quick_term_or_rec comp m <> RLimit ->
  quick_term_or_rec comp m = quick_term_or_rec comp n.
Check C15_bw_halt_agree : forall sw comp d d',
  cant_halt_sw sw comp d <> Ok BwStepLimit -> cant_halt_sw sw comp d' <> Ok BwStepLimit ->
  cant_halt_sw sw comp d' = cant_halt_sw sw comp d.
Check C15_bw_blank_agree : forall sw comp d d',
  cant_blank_sw sw comp d <> Ok BwStepLimit -> cant_blank_sw sw comp d' <> Ok BwStepLimit ->
  cant_blank_sw sw comp d' = cant_blank_sw sw comp d.
Check C15_bw_spin_agree : forall sw comp d d',
  cant_spin_out_sw sw comp d <> Ok BwStepLimit -> cant_spin_out_sw sw comp d' <> Ok BwStepLimit ->
  cant_spin_out_sw sw comp d' = cant_spin_out_sw sw comp d.
Check C15_seg_agree : forall prog params goal s s',
  2 <= s -> 2 <= s' ->
  sg_segment_cant_reach prog params s goal <> Ok SgrSegmentLimit ->
  sg_segment_cant_reach prog params s' goal <> Ok SgrSegmentLimit ->
  sg_segment_cant_reach prog params s' goal = sg_segment_cant_reach prog params s goal.
