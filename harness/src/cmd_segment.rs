// commands for segment
use crate::*;

use crate::segment::{Segment, SegmentResult};

fn string_of_result(r: &SegmentResult) -> String {
    match r {
        SegmentResult::Halt => "halt".to_string(),
        SegmentResult::Blank => "blank".to_string(),
        SegmentResult::Repeat => "repeat".to_string(),
        SegmentResult::Spinout => "spinout".to_string(),
        SegmentResult::DepthLimit => "depth_limit".to_string(),
        SegmentResult::SegmentLimit => "segment_limit".to_string(),
        SegmentResult::Refuted(step) => format!("refuted:{step}"),
    }
}

fn string_of_py_result(r: &wrappers::SegmentResult) -> String {
    match r {
        wrappers::SegmentResult::halt {} => "halt".to_string(),
        wrappers::SegmentResult::blank {} => "blank".to_string(),
        wrappers::SegmentResult::repeat {} => "repeat".to_string(),
        wrappers::SegmentResult::spinout {} => "spinout".to_string(),
        wrappers::SegmentResult::depth_limit {} => "depth_limit".to_string(),
        wrappers::SegmentResult::segment_limit {} => "segment_limit".to_string(),
        wrappers::SegmentResult::refuted { step } => format!("refuted:{step}"),
    }
}

// id|seg|<goal>|<prog>|<S>,<C>|<segs>
fn cmd_seg(goal: &str, prog: &str, params: &str, segs: &str) -> String {
    let comp = CompProg::from_str(prog);
    let pr: Vec<u64> = params.split(',').map(|x| x.trim().parse().unwrap()).collect();
    assert!(pr.len() == 2);
    let params = (pr[0], pr[1]);
    let segs: usize = segs.trim().parse().unwrap();
    let res = match goal {
        "halt" => comp.seg_cant_halt(params, segs),
        "blank" => comp.seg_cant_blank(params, segs),
        "spin" => comp.seg_cant_spin_out(params, segs),
        _ => return "HARNESS-ERROR:bad goal".to_string(),
    };
    string_of_result(&res)
}

// id|segpy|<goal>|<prog>|<segs>
fn cmd_segpy(goal: &str, prog: &str, segs: &str) -> String {
    let segs: usize = segs.trim().parse().unwrap();
    let res = match goal {
        "halt" => wrappers::py_segment_cant_halt(prog, segs),
        "blank" => wrappers::py_segment_cant_blank(prog, segs),
        "spin" => wrappers::py_segment_cant_spin_out(prog, segs),
        _ => return "HARNESS-ERROR:bad goal".to_string(),
    };
    string_of_py_result(&res)
}

pub fn dispatch(fields: &[&str]) -> Option<String> {
    match fields {
        ["seg", goal, prog, params, segs] => Some(cmd_seg(goal, prog, params, segs)),
        ["segpy", goal, prog, segs] => Some(cmd_segpy(goal, prog, segs)),
        _ => None,
    }
}
