// commands for cps: calls the real `Cps` trait methods of /repo/src/cps.rs
use crate::*;

use crate::cps::Cps;
use crate::instrs::{CompProg, Parse};

fn cmd_cps(goal: &str, prog: &str, rad: &str) -> String {
    let comp = CompProg::from_str(prog);
    let rad: usize = rad.parse().unwrap();
    let r = match goal {
        "halt" => comp.cps_cant_halt(rad),
        "blank" => comp.cps_cant_blank(rad),
        "spin" => comp.cps_cant_spin_out(rad),
        _ => panic!("bad goal"),
    };
    b2s(r).to_string()
}

pub fn dispatch(fields: &[&str]) -> Option<String> {
    match fields {
        ["cps", goal, prog, rad] => Some(cmd_cps(goal, prog, rad)),
        // the Python-facing string wrappers of wrappers.rs
        ["cpspy", goal, prog, rad] => {
            let rad: usize = rad.parse().unwrap();
            Some(b2s(match *goal {
                "halt" => crate::wrappers::py_cps_cant_halt(prog, rad),
                "blank" => crate::wrappers::py_cps_cant_blank(prog, rad),
                _ => crate::wrappers::py_cps_cant_spin_out(prog, rad),
            })
            .to_string())
        },
        // cps1 (one pass of the private fn cps_cant_reach) is model-only
        _ => None,
    }
}
