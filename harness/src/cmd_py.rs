// commands for C17 (Python/Rust agreement): the REAL Rust side of the
// three-way comparison.
//   rsrun|<prog>|<lim>            -> kind|marks|rulapp|blanks      (machine::run_prover)
//   tape3|<mode>|<tape>|<ops>     -> per-step records in the `tape3` format
//                                    (tape::Tape::step + observers), see record3
//   leaves|<S>,<C>|<halt>|<lim>|<max> -> a sample of the leaves of tree::build_tree
//   rsapps|<prog>|<lim>           -> the rule applications of run_prover (diagnosis)
// A panic anywhere is caught by main.rs (catch_unwind) and printed as PANIC.
use crate::*;

const TRUNCATE_COUNT: u64 = 1_000_000_000_000; // tm/num.py:2254 (Python display truncates there)

// tape3 record: only what BOTH tape classes provide themselves:
// stepped tape marks blank edgeL edgeR counts lens sig display
// (display is "-" when a count reaches 10^12, where Python abbreviates)
fn record3(t: &BasicTape, stepped: u64) -> String {
    let (cl, cr) = t.counts();
    let (ll, rl) = t.span_lens();
    let big = cl.iter().chain(cr.iter()).any(|n| *n >= TRUNCATE_COUNT);
    [
        stepped.to_string(),
        field_of_tape(t),
        t.marks().to_string(),
        b2s(t.blank()).to_string(),
        b2s(t.at_edge(false)).to_string(),
        b2s(t.at_edge(true)).to_string(),
        format!("{}/{}", field_of_nlist(&cl), field_of_nlist(&cr)),
        format!("{ll},{rl}"),
        field_of_sig(&t.signature()),
        if big { "-".to_string() } else { t.to_string() },
    ]
    .join(" ")
}

fn cmd_tape3(mode: &str, tape_f: &str, ops_f: &str) -> String {
    let mut t = tape_of_field(tape_f);
    let mut recs: Vec<String> = vec![];
    if !ops_f.is_empty() {
        for o in ops_f.split(';') {
            let f: Vec<&str> = o.split(',').collect();
            let stepped = t.step(f[0] == "1", f[1].parse().unwrap(), f[2] == "1");
            recs.push(record3(&t, stepped));
        }
    }
    if mode == "v" {
        recs.join(";")
    } else {
        format!(
            "{}|{}|{}",
            recs.len(),
            fnv(&recs.join(";")),
            recs.last().cloned().unwrap_or_else(|| field_of_tape(&t))
        )
    }
}

fn termres(r: &TermRes) -> &'static str {
    match r {
        TermRes::xlimit => "xlimit",
        TermRes::cfglim => "cfglim",
        TermRes::infrul => "infrul",
        TermRes::spnout => "spnout",
        TermRes::undfnd => "undfnd",
        TermRes::mulrul => "mulrul",
    }
}

fn cmd_rsrun(prog: &str, lim: &str) -> String {
    let r = machine::run_prover(prog, lim.parse().unwrap());
    format!(
        "{}|{}|{}|{}",
        termres(&r.result),
        r.marks,
        r.rulapp,
        r.blanks.iter().map(|(s, n)| format!("{s}:{n}")).collect::<Vec<_>>().join(",")
    )
}

// rsapps|<prog>|<lim> -> every rule application of run_prover (the cfg(bb_verif)
// hook of machine.rs): cycle:state:tape before:rule:times:tape after;...
// (diagnosis of a whole-run disagreement; only the last 40 are printed)
fn cmd_rsapps(prog: &str, lim: &str) -> String {
    let _ = machine::verif::take_apps();
    let _ = machine::run_prover(prog, lim.parse().unwrap());
    let apps = machine::verif::take_apps();
    let n = apps.len();
    let shown: Vec<String> = apps
        .iter()
        .skip(n.saturating_sub(40))
        .map(|(cycle, state, before, rule, times, after)| {
            format!(
                "{}:{}:{}:{}:{}:{}",
                cycle,
                state,
                before,
                field_of_rule(rule),
                times,
                after
            )
        })
        .collect();
    format!("{}|{}", n, shown.join(";"))
}

// leaves|<S>,<C>|<halt 0/1>|<sim_lim>|<max> -> total|prog;prog;...
// the leaves of the REAL tree::build_tree, sorted, then every k-th so that at
// most <max> are returned (deterministic whatever the thread schedule)
fn cmd_leaves(params: &str, halt: &str, lim: &str, max: &str) -> String {
    let f: Vec<u64> = params.split(',').map(|x| x.parse().unwrap()).collect();
    let pr = (f[0], f[1]);
    let max: usize = max.parse().unwrap();
    let out = std::sync::Mutex::new(Vec::<String>::new());
    tree::build_tree(pr, halt == "1", lim.parse().unwrap(), &|prog: &CompProg| {
        out.lock().unwrap().push(wrappers::show_comp(prog, Some(pr)));
    });
    let mut v = out.into_inner().unwrap();
    v.sort();
    v.dedup();
    let total = v.len();
    let k = if max == 0 || total <= max { 1 } else { (total + max - 1) / max };
    let sample: Vec<String> = v.into_iter().step_by(k).collect();
    format!("{}|{}", total, sample.join(";"))
}

pub fn dispatch(fields: &[&str]) -> Option<String> {
    match fields {
        ["leaves", params, halt, lim, max] => Some(cmd_leaves(params, halt, lim, max)),
        ["rsrun", prog, lim] => Some(cmd_rsrun(prog, lim)),
        ["rsapps", prog, lim] => Some(cmd_rsapps(prog, lim)),
        ["tape3", mode, tp, ops] => Some(cmd_tape3(mode, tp, ops)),
        _ => None,
    }
}
