// commands for prover
use crate::*;

// prover / provertrace: run the REAL run_prover; the rule applications come
// from the cfg(bb_verif) hook machine::verif (thread-local record).
fn cmd_prover(trace: bool, prog: &str, lim: &str) -> String {
    // clear leftovers (e.g. of a case that panicked on this worker thread)
    let _ = machine::verif::take_apps();
    let r = machine::run_prover(prog, lim.parse().unwrap());
    let apps = machine::verif::take_apps();
    let recs = apps
        .iter()
        .map(|(cycle, state, before, rule, times, after)| {
            format!(
                "{} {} {} {} {} {}",
                cycle,
                state,
                field_of_tape(before),
                field_of_rule(rule),
                times,
                field_of_tape(after)
            )
        })
        .collect::<Vec<_>>()
        .join(";");
    let head = format!("{}|{}|{}", field_of_mresult(&r), apps.len(), fnv(&recs));
    if trace { format!("{head}|{recs}") } else { head }
}

// proverrules: the rules (slot, minimal signature, edge flags, rule) the prover holds when run_prover returns
// (second cfg(bb_verif) hook, machine::verif::take_rules)
fn cmd_proverrules(prog: &str, lim: &str) -> String {
    let _ = machine::verif::take_rules();
    let _ = machine::run_prover(prog, lim.parse().unwrap());
    let _ = machine::verif::take_apps();
    let rules = machine::verif::take_rules();
    let recs = rules
        .iter()
        .map(|(slot, (sig, (lex, rex)), rule)| {
            format!("{},{} {} {}{} {}", slot.0, slot.1, field_of_sig(sig), b2s(*lex), b2s(*rex), field_of_rule(rule))
        })
        .collect::<Vec<_>>()
        .join(";");
    format!("{}|{}|{}", rules.len(), fnv(&recs), recs)
}

// Diagnostic: where does run_prover panic?  (file:line of the panic site; the
// model runner classifies its own Panic with the same labels.)  The hook is
// silent like the one of main.rs and records the location per thread.
thread_local! {
    static WHY: std::cell::RefCell<String> = const { std::cell::RefCell::new(String::new()) };
}
static HOOK: std::sync::Once = std::sync::Once::new();

fn cmd_proverwhy(prog: &str, lim: &str) -> String {
    HOOK.call_once(|| {
        std::panic::set_hook(Box::new(|info| {
            let loc = info
                .location()
                .map(|l| format!("{}:{}", l.file().rsplit('/').next().unwrap_or(""), l.line()))
                .unwrap_or_default();
            WHY.with(|w| *w.borrow_mut() = loc);
        }));
    });
    let _ = machine::verif::take_apps();
    let lim: u64 = lim.parse().unwrap();
    let r = std::panic::catch_unwind(|| machine::run_prover(prog, lim));
    let napps = machine::verif::take_apps().len();
    match r {
        Ok(_) => format!("ok napps={napps}"),
        Err(_) => format!("PANIC napps={napps} at {}", WHY.with(|w| w.borrow().clone())),
    }
}

pub fn dispatch(fields: &[&str]) -> Option<String> {
    match fields {
        ["prover", prog, lim] => Some(cmd_prover(false, prog, lim)),
        ["provertrace", prog, lim] => Some(cmd_prover(true, prog, lim)),
        ["proverwhy", prog, lim] => Some(cmd_proverwhy(prog, lim)),
        ["proverrules", prog, lim] => Some(cmd_proverrules(prog, lim)),
        _ => None,
    }
}
