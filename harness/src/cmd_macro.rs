// commands for macro: drive the REAL src/macros.rs objects.
//
// A macro spec `block:3+back:1` = make_backsymbol_macro(&make_block_macro(&comp, P, 3), P, 1):
// every layer receives the SAME params P given in the command.  Chains of
// arbitrary depth are built by recursion; `MacroProg<P, L>` needs a sized
// `P: GetInstr`, so each layer's base is wrapped in `Dyn(&dyn GetInstr)`.
// Params field `S,C,chain`: the innermost layer receives (S,C), every further
// layer receives `params()` of the layer below it (what tm/macro.py does).
use crate::*;

use std::collections::BTreeSet;

use instrs::{Color, Params, Shift, State};
use macros::{make_backsymbol_macro, make_block_macro, BacksymbolLogic, BlockLogic, MacroProg};

pub struct Dyn<'a>(&'a dyn GetInstr);

impl GetInstr for Dyn<'_> {
    fn get_instr(&self, slot: &Slot) -> Option<Instr> {
        self.0.get_instr(slot)
    }
    fn halt_slots(&self) -> BTreeSet<Slot> {
        self.0.halt_slots()
    }
    fn erase_slots(&self) -> BTreeSet<Slot> {
        self.0.erase_slots()
    }
    fn zr_shifts(&self) -> BTreeSet<(State, Shift)> {
        self.0.zr_shifts()
    }
    fn params(&self) -> Params {
        self.0.params()
    }
}

/// What the commands need from the outermost object.
pub trait MacroObj: GetInstr {
    fn decode(&self, color: Color) -> Option<Vec<Color>>;
    fn memo(&self) -> CompProg;
}

impl MacroObj for MacroProg<'_, Dyn<'_>, BlockLogic> {
    fn decode(&self, color: Color) -> Option<Vec<Color>> {
        self.verif_decode(color)
    }
    fn memo(&self) -> CompProg {
        self.verif_memo()
    }
}

impl MacroObj for MacroProg<'_, Dyn<'_>, BacksymbolLogic> {
    fn decode(&self, color: Color) -> Option<Vec<Color>> {
        self.verif_decode(color)
    }
    fn memo(&self) -> CompProg {
        self.verif_memo()
    }
}

#[derive(Clone, Copy, PartialEq)]
enum Kind {
    Block,
    Back,
}

fn parse_spec(spec: &str) -> Vec<(Kind, usize)> {
    spec.split('+')
        .map(|e| {
            let mut it = e.split(':');
            let k = match it.next().unwrap() {
                "block" => Kind::Block,
                "back" => Kind::Back,
                other => panic!("bad macro spec {other}"),
            };
            (k, it.next().unwrap().parse().unwrap())
        })
        .collect()
}

/// Builds the chain over `base` (base outward) and calls `f` on the outermost
/// object and the params its constructor received.
fn with_chain<R>(
    base: &dyn GetInstr,
    (params, chain): (Params, bool),
    spec: &[(Kind, usize)],
    f: &mut dyn FnMut(&dyn MacroObj, Params) -> R,
) -> R {
    let d = Dyn(base);
    let (kind, k) = spec[0];
    match kind {
        Kind::Block => {
            let m = make_block_macro(&d, params, k);
            if spec.len() == 1 {
                f(&m, params)
            } else {
                let next = if chain { m.params() } else { params };
                with_chain(&m, (next, chain), &spec[1..], f)
            }
        },
        Kind::Back => {
            let m = make_backsymbol_macro(&d, params, k);
            if spec.len() == 1 {
                f(&m, params)
            } else {
                let next = if chain { m.params() } else { params };
                with_chain(&m, (next, chain), &spec[1..], f)
            }
        },
    }
}

fn params_of(s: &str) -> (Params, bool) {
    let f: Vec<&str> = s.split(',').collect();
    let chain = match f.get(2) {
        None => false,
        Some(&"chain") => true,
        Some(other) => panic!("bad params {other}"),
    };
    ((f[0].parse().unwrap(), f[1].parse().unwrap()), chain)
}

fn slots_of_field(s: &str) -> Vec<Slot> {
    if s.is_empty() {
        return vec![];
    }
    s.split(';')
        .map(|q| {
            let f: Vec<u64> = q.split(',').map(|x| x.parse().unwrap()).collect();
            (f[0], f[1])
        })
        .collect()
}

type Answer = Result<Option<Instr>, ()>;

fn query(m: &dyn MacroObj, slot: &Slot) -> Answer {
    catch_unwind(AssertUnwindSafe(|| m.get_instr(slot))).map_err(|_| ())
}

fn field_of_answer(a: &Answer) -> String {
    match a {
        Err(()) => "P".to_string(),
        Ok(None) => "-".to_string(),
        Ok(Some(i)) => field_of_instr(i),
    }
}

fn dump_state(
    outer: (Kind, usize),
    params: Params,
    m: &dyn MacroObj,
    qs: &[Slot],
    ans: &[Answer],
) -> String {
    let mut cands: BTreeSet<Color> = (0..32).collect();
    let insts: Vec<Instr> = ans.iter().filter_map(|a| a.clone().ok().flatten()).collect();
    cands.extend(qs.iter().map(|s| s.1));
    cands.extend(insts.iter().map(|i| i.0));
    if outer.0 == Kind::Back {
        let bk = params.1.checked_pow(outer.1 as u32).unwrap();
        if bk != 0 {
            cands.extend(qs.iter().map(|s| (s.0 / 2) % bk));
            cands.extend(insts.iter().map(|i| (i.2 / 2) % bk));
        }
    }
    let entries: Vec<String> = cands
        .iter()
        .filter_map(|c| m.decode(*c).map(|t| format!("{}={}", c, field_of_nlist(&t))))
        .collect();
    format!("c2t:{}|memo:{}", entries.join(";"), field_of_comp(&m.memo()))
}

fn cmd_macro(prog: &str, params: &str, spec: &str, queries: &str) -> String {
    let comp = CompProg::from_str(prog);
    let params = params_of(params);
    let spec = parse_spec(spec);
    let qs = slots_of_field(queries);
    with_chain(&comp, params, &spec, &mut |m, outer_params| {
        let ans: Vec<Answer> = qs.iter().map(|q| query(m, q)).collect();
        format!(
            "{}|{}",
            ans.iter().map(field_of_answer).collect::<Vec<_>>().join(";"),
            dump_state(*spec.last().unwrap(), outer_params, m, &qs, &ans)
        )
    })
}

fn cmd_macro2(prog: &str, params: &str, spec: &str, qa: &str, qb: &str) -> String {
    let comp = CompProg::from_str(prog);
    let params = params_of(params);
    let spec = parse_spec(spec);
    let qa = slots_of_field(qa);
    let qb = slots_of_field(qb);
    with_chain(&comp, params, &spec, &mut |a, _| {
        with_chain(&comp, params, &spec, &mut |b, _| {
            let mut ra = vec![];
            let mut rb = vec![];
            for i in 0..qa.len().max(qb.len()) {
                if i < qa.len() {
                    ra.push(field_of_answer(&query(a, &qa[i])));
                }
                if i < qb.len() {
                    rb.push(field_of_answer(&query(b, &qb[i])));
                }
            }
            format!("{}|{}", ra.join(";"), rb.join(";"))
        })
    })
}

fn cmd_macrorun(prog: &str, params: &str, spec: &str, n: &str) -> String {
    let comp = CompProg::from_str(prog);
    let params = params_of(params);
    let spec = parse_spec(spec);
    let n: u64 = n.parse().unwrap();
    with_chain(&comp, params, &spec, &mut |m, _| {
        // machine.rs:159-203 run_for_infrul without the prover
        let mut tape = BasicTape::init(0);
        let mut state: State = 0;
        let mut cycles: u64 = 0;
        let mut log: Vec<String> = vec![];
        let mut reason = "limit".to_string();
        for _ in 0..n {
            let slot = (state, tape.scan);
            let a = query(m, &slot);
            log.push(format!("{}>{}", field_of_slot(&slot), field_of_answer(&a)));
            let (color, shift, next_state) = match a {
                Err(()) => {
                    reason = "P".to_string();
                    break;
                },
                Ok(None) => {
                    reason = format!("undef:{}", field_of_slot(&slot));
                    break;
                },
                Ok(Some(i)) => i,
            };
            let same = state == next_state;
            if same && tape.at_edge(shift) {
                reason = "spinout".to_string();
                break;
            }
            tape.step(shift, color, same);
            state = next_state;
            cycles += 1;
        }
        format!("{}|{}|{}|{}", cycles, reason, fnv(&log.join(";")), field_of_tape(&tape))
    })
}

fn cmd_macroparams(params: &str, spec: &str) -> String {
    let comp = CompProg::new();
    let params = params_of(params);
    let spec = parse_spec(spec);
    with_chain(&comp, params, &spec, &mut |m, _| {
        let (s, c) = m.params();
        format!("{s},{c}")
    })
}

pub fn dispatch(fields: &[&str]) -> Option<String> {
    match fields {
        ["macro", prog, params, spec, queries] => Some(cmd_macro(prog, params, spec, queries)),
        ["macro2", prog, params, spec, qa, qb] => Some(cmd_macro2(prog, params, spec, qa, qb)),
        ["macrorun", prog, params, spec, n] => Some(cmd_macrorun(prog, params, spec, n)),
        ["macroparams", params, spec] => Some(cmd_macroparams(params, spec)),
        _ => None,
    }
}
