// commands for macro
use crate::*;

pub fn dispatch(fields: &[&str]) -> Option<String> {
    match fields {
        _ => None,
    }
}
