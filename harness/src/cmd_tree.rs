// commands for tree: the REAL build_tree through wrappers::tree_progs
use crate::*;

use std::collections::HashSet;

fn tree_strings(params: &str, halt: &str, lim: &str) -> Vec<String> {
    let f: Vec<u64> = params.split(',').map(|x| x.parse().unwrap()).collect();
    wrappers::tree_progs((f[0], f[1]), halt == "1", lim.parse().unwrap())
}

fn summary(l: &[String]) -> String {
    let mut seen: HashSet<&str> = HashSet::new();
    let mut dups = 0usize;
    for s in l {
        if !seen.insert(s.as_str()) {
            dups += 1;
        }
    }
    let mut sorted: Vec<&str> = l.iter().map(|s| s.as_str()).collect();
    sorted.sort();
    format!("{}|{}|dups={}", l.len(), fnv(&sorted.join("\n")), dups)
}

pub fn dispatch(fields: &[&str]) -> Option<String> {
    match fields {
        ["tree", params, halt, lim] => Some(summary(&tree_strings(params, halt, lim))),
        ["treedump", params, halt, lim] => {
            let mut l = tree_strings(params, halt, lim);
            l.sort();
            Some(l.join(";"))
        },
        _ => None,
    }
}
