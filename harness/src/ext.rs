// further command families, one module (and one cargo feature) each
use crate::*;

pub fn dispatch(fields: &[&str]) -> String {
    let ds: Vec<fn(&[&str]) -> Option<String>> = vec![
        #[cfg(feature = "cps")]
        cmd_cps::dispatch,
        #[cfg(feature = "reason")]
        cmd_reason::dispatch,
        #[cfg(feature = "segment")]
        cmd_segment::dispatch,
        #[cfg(feature = "macro")]
        cmd_macro::dispatch,
        #[cfg(feature = "tree")]
        cmd_tree::dispatch,
        #[cfg(feature = "prover")]
        cmd_prover::dispatch,
        #[cfg(feature = "oracle")]
        cmd_oracle::dispatch,
        #[cfg(feature = "py")]
        cmd_py::dispatch,
    ];
    for d in ds {
        if let Some(a) = d(fields) {
            return a;
        }
    }
    format!("HARNESS-ERROR:unknown command {:?}", fields.first())
}
