// further command families, one module each
use crate::*;

pub fn dispatch(fields: &[&str]) -> String {
    for d in [
        cmd_cps::dispatch,
        cmd_reason::dispatch,
        cmd_segment::dispatch,
        cmd_macro::dispatch,
        cmd_tree::dispatch,
        cmd_prover::dispatch,
        cmd_oracle::dispatch,
        cmd_py::dispatch,
    ] {
        if let Some(a) = d(fields) {
            return a;
        }
    }
    format!("HARNESS-ERROR:unknown command {:?}", fields.first())
}
