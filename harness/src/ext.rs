// further commands (deciders, macros, tree, prover)
use crate::*;

pub fn dispatch(fields: &[&str]) -> String {
    format!("HARNESS-ERROR:unknown command {:?}", fields.first())
}
