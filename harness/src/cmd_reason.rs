// commands for reason:  bw|<goal>|<prog>|<depth>  with goal in halt, blank, spin.
// Calls the real code through the public `Backward` trait of /repo/src/reason.rs.
// The model-only counterfactual variants (bw_nodrop, bw_fullparams) have no
// counterpart in the real code: not handled here.
use crate::*;

use crate::reason::{Backward, BackwardResult};

fn string_of_bw(r: &BackwardResult) -> String {
    match r {
        BackwardResult::Init => "init".to_string(),
        BackwardResult::LinRec => "linrec".to_string(),
        BackwardResult::Spinout => "spinout".to_string(),
        BackwardResult::StepLimit => "step_limit".to_string(),
        BackwardResult::DepthLimit => "depth_limit".to_string(),
        BackwardResult::Refuted(step) => format!("refuted:{step}"),
    }
}

fn cmd_bw(goal: &str, prog: &str, depth: &str) -> String {
    let comp = CompProg::from_str(prog);
    let depth: usize = depth.parse().unwrap();
    let r = match goal {
        "halt" => comp.cant_halt(depth),
        "blank" => comp.cant_blank(depth),
        "spin" => comp.cant_spin_out(depth),
        _ => return format!("HARNESS-ERROR:bad goal {goal}"),
    };
    string_of_bw(&r)
}

pub fn dispatch(fields: &[&str]) -> Option<String> {
    match fields {
        ["bw", goal, prog, depth] => Some(cmd_bw(goal, prog, depth)),
        _ => None,
    }
}
