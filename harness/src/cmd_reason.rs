// commands for reason:  bw|<goal>|<prog>|<depth>  with goal in halt, blank, spin.
// Calls the real code through the public `Backward` trait of /repo/src/reason.rs.
// The model-only counterfactual variants (bw_nodrop, bw_fullparams) have no
// counterpart in the real code: not handled here.
use crate::*;

use crate::reason::{Backward, BackwardResult};

fn string_of_bw(r: &BackwardResult) -> String {
    match r {
        BackwardResult::Init => "init".to_string(),
        BackwardResult::LinRec => "linrec".to_string(),
        BackwardResult::Spinout => "spinout".to_string(),
        BackwardResult::StepLimit => "step_limit".to_string(),
        BackwardResult::DepthLimit => "depth_limit".to_string(),
        BackwardResult::Refuted(step) => format!("refuted:{step}"),
    }
}

fn cmd_bw(goal: &str, prog: &str, depth: &str) -> String {
    let comp = CompProg::from_str(prog);
    let depth: usize = depth.parse().unwrap();
    let r = match goal {
        "halt" => comp.cant_halt(depth),
        "blank" => comp.cant_blank(depth),
        "spin" => comp.cant_spin_out(depth),
        _ => return format!("HARNESS-ERROR:bad goal {goal}"),
    };
    string_of_bw(&r)
}

// The Python-facing string wrappers (wrappers.rs), called in the given order on
// ONE thread: answers must not depend on what was asked before.
fn string_of_bwpy(r: &crate::wrappers::BackwardResult) -> String {
    use crate::wrappers::BackwardResult as W;
    match r {
        W::refuted { step } => format!("refuted:{step}"),
        W::init {} => "init".to_string(),
        W::linrec {} => "linrec".to_string(),
        W::spinout {} => "spinout".to_string(),
        W::step_limit {} => "step_limit".to_string(),
        W::depth_limit {} => "depth_limit".to_string(),
    }
}

fn cmd_bwpyseq(prog: &str, depth: &str, goals: &str) -> String {
    let depth: usize = depth.parse().unwrap();
    goals
        .split(',')
        .map(|g| {
            let r = std::panic::catch_unwind(|| match g {
                "halt" => crate::wrappers::py_cant_halt(prog, depth),
                "blank" => crate::wrappers::py_cant_blank(prog, depth),
                _ => crate::wrappers::py_cant_spin_out(prog, depth),
            });
            match r {
                Ok(r) => string_of_bwpy(&r),
                Err(_) => "PANIC".to_string(),
            }
        })
        .collect::<Vec<_>>()
        .join(",")
}

pub fn dispatch(fields: &[&str]) -> Option<String> {
    match fields {
        ["bw", goal, prog, depth] => Some(cmd_bw(goal, prog, depth)),
        ["bwpyseq", prog, depth, goals] => Some(cmd_bwpyseq(prog, depth, goals)),
        _ => None,
    }
}
