// bbh: runs the REAL code of /repo (included by path, so always the current
// working tree) on case lines (stdin) and prints one canonical answer line
// per case (stdout).  Same protocol as ocaml/bbm.ml.
#![allow(warnings)]
#[path = "/repo/src/blocks.rs"]
mod blocks;
#[path = "/repo/src/cps.rs"]
mod cps;
#[path = "/repo/src/graph.rs"]
mod graph;
#[path = "/repo/src/instrs.rs"]
mod instrs;
#[path = "/repo/src/machine.rs"]
mod machine;
#[path = "/repo/src/macros.rs"]
mod macros;
#[path = "/repo/src/prover.rs"]
mod prover;
#[path = "/repo/src/reason.rs"]
mod reason;
#[path = "/repo/src/rules.rs"]
mod rules;
#[path = "/repo/src/segment.rs"]
mod segment;
#[path = "/repo/src/tape.rs"]
mod tape;
#[path = "/repo/src/tree.rs"]
mod tree;
#[path = "/repo/src/wrappers.rs"]
mod wrappers;

mod ext;
#[cfg(feature = "cps")]
mod cmd_cps;
#[cfg(feature = "reason")]
mod cmd_reason;
#[cfg(feature = "segment")]
mod cmd_segment;
#[cfg(feature = "macro")]
mod cmd_macro;
#[cfg(feature = "tree")]
mod cmd_tree;
#[cfg(feature = "prover")]
mod cmd_prover;
#[cfg(feature = "oracle")]
mod cmd_oracle;
#[cfg(feature = "py")]
mod cmd_py;

use std::io::{self, BufRead, Write};
use std::panic::{catch_unwind, AssertUnwindSafe};

use rayon::prelude::*;

use instrs::{CompProg, GetInstr, Instr, Parse, Slot};
use machine::{MachineResult, RecRes, TermRes};
use rules::{ApplyRule, Op, Rule};
use tape::{BasicTape, ColorCount, GetSig, HeadTape, Signature, Alignment};

pub fn fnv(s: &str) -> String {
    let mut h: u64 = 0xcbf29ce484222325;
    for b in s.bytes() {
        h ^= b as u64;
        h = h.wrapping_mul(0x100000001b3);
    }
    format!("{h:016x}")
}

pub fn b2s(b: bool) -> &'static str {
    if b { "1" } else { "0" }
}

pub fn span_of_field(s: &str) -> Vec<(u64, u64)> {
    if s.is_empty() {
        return vec![];
    }
    s.split(',')
        .map(|b| {
            let mut it = b.split(':');
            let c = it.next().unwrap().parse().unwrap();
            let n = it.next().unwrap().parse().unwrap();
            (c, n)
        })
        .collect()
}

pub fn tape_of_field(s: &str) -> BasicTape {
    let parts: Vec<&str> = s.split('/').collect();
    assert!(parts.len() == 3);
    BasicTape::verif_from_parts(
        parts[0].parse().unwrap(),
        &span_of_field(parts[1]),
        &span_of_field(parts[2]),
    )
}

pub fn field_of_span(s: &[(u64, u64)]) -> String {
    s.iter().map(|(c, n)| format!("{c}:{n}")).collect::<Vec<_>>().join(",")
}

pub fn field_of_tape(t: &BasicTape) -> String {
    let (scan, l, r) = t.verif_parts();
    format!("{}/{}/{}", scan, field_of_span(&l), field_of_span(&r))
}

fn field_of_cc(c: &ColorCount) -> String {
    match c {
        ColorCount::Just(c) => format!("J{c}"),
        ColorCount::Mult(c) => format!("M{c}"),
    }
}

pub fn field_of_sig(g: &Signature) -> String {
    format!(
        "{}/{}/{}",
        g.scan,
        g.lspan.iter().map(field_of_cc).collect::<Vec<_>>().join(","),
        g.rspan.iter().map(field_of_cc).collect::<Vec<_>>().join(",")
    )
}

pub fn field_of_nlist(l: &[u64]) -> String {
    l.iter().map(|n| n.to_string()).collect::<Vec<_>>().join(",")
}

pub fn nlist_of_field(s: &str) -> Vec<u64> {
    if s.is_empty() {
        return vec![];
    }
    s.split(',').map(|x| x.parse().unwrap()).collect()
}

pub fn field_of_slot(s: &Slot) -> String {
    format!("{},{}", s.0, s.1)
}

pub fn field_of_oslot(s: &Option<Slot>) -> String {
    match s {
        None => "-".to_string(),
        Some(s) => field_of_slot(s),
    }
}

pub fn field_of_instr(i: &Instr) -> String {
    format!("{},{},{}", i.0, b2s(i.1), i.2)
}

pub fn field_of_comp(p: &CompProg) -> String {
    p.iter()
        .map(|(sl, i)| format!("{}={}", field_of_slot(sl), field_of_instr(i)))
        .collect::<Vec<_>>()
        .join(";")
}

pub fn comp_of_field(s: &str) -> CompProg {
    let mut p = CompProg::new();
    if s.is_empty() {
        return p;
    }
    for e in s.split(';') {
        let mut it = e.split('=');
        let sl: Vec<u64> = it.next().unwrap().split(',').map(|x| x.parse().unwrap()).collect();
        let i: Vec<&str> = it.next().unwrap().split(',').collect();
        p.insert(
            (sl[0], sl[1]),
            (i[0].parse().unwrap(), i[1] == "1", i[2].parse().unwrap()),
        );
    }
    p
}

fn string_of_termres(r: &TermRes) -> &'static str {
    match r {
        TermRes::xlimit => "xlimit",
        TermRes::cfglim => "cfglim",
        TermRes::infrul => "infrul",
        TermRes::spnout => "spnout",
        TermRes::undfnd => "undfnd",
        TermRes::mulrul => "mulrul",
    }
}

pub fn field_of_mresult(r: &MachineResult) -> String {
    format!(
        "{}|{}|{}|{}|{}|{}|{}",
        string_of_termres(&r.result),
        r.steps,
        r.cycles,
        r.marks,
        r.rulapp,
        field_of_oslot(&r.last_slot),
        r.blanks.iter().map(|(s, n)| format!("{s}:{n}")).collect::<Vec<_>>().join(",")
    )
}

fn field_of_op(o: &Op) -> String {
    match o {
        Op::Plus(d) => {
            if *d < 0 {
                format!("{d}")
            } else {
                format!("+{d}")
            }
        },
        Op::Mult((q, r)) => format!("*{q}_{r}"),
    }
}

fn field_of_index(ix: &(bool, usize)) -> String {
    format!("{}{}", if ix.0 { "R" } else { "L" }, ix.1)
}

pub fn field_of_rule(r: &Rule) -> String {
    r.iter()
        .map(|(ix, o)| format!("{}:{}", field_of_index(ix), field_of_op(o)))
        .collect::<Vec<_>>()
        .join(",")
}

pub fn rule_of_field(s: &str) -> Rule {
    let mut r = Rule::new();
    if s.is_empty() {
        return r;
    }
    for e in s.split(',') {
        let mut it = e.split(':');
        let ix = it.next().unwrap();
        let o = it.next().unwrap();
        let index = (ix.starts_with('R'), ix[1..].parse::<usize>().unwrap());
        let op = if let Some(rest) = o.strip_prefix('*') {
            let mut qr = rest.split('_');
            Op::Mult((qr.next().unwrap().parse().unwrap(), qr.next().unwrap().parse().unwrap()))
        } else {
            Op::Plus(o.trim_start_matches('+').parse().unwrap())
        };
        r.insert(index, op);
    }
    r
}

fn counts_of_field(s: &str) -> (Vec<u64>, Vec<u64>) {
    let mut it = s.split('/');
    let l = nlist_of_field(it.next().unwrap());
    let r = nlist_of_field(it.next().unwrap());
    (l, r)
}

fn unroll_small(t: &BasicTape) -> bool {
    let (_, l, r) = t.verif_parts();
    // explicit up to 63 cells per block; hashed (length + FNV of the cell list) up to 100000 cells in all
    let total: u128 = l.iter().chain(r.iter()).map(|(_, n)| *n as u128).sum();
    total <= 100_000
}

fn unroll_sides(t: &BasicTape) -> String {
    let (_, l, r) = t.verif_parts();
    let explicit = l.iter().chain(r.iter()).all(|(_, n)| *n < 64);
    // the code's own unroll(): left reversed + scan + right
    let u = t.unroll();
    let ll: usize = l.iter().map(|(_, n)| *n as usize).sum();
    if u.len() <= ll || u[ll] != t.scan {
        return format!("BAD-UNROLL:len={}:left={}", u.len(), ll);
    }
    let lpart: Vec<String> = u[..ll].iter().rev().map(|c| c.to_string()).collect();
    let rpart: Vec<String> = u[ll + 1..].iter().map(|c| c.to_string()).collect();
    if explicit {
        format!("{}/{}", lpart.join(","), rpart.join(","))
    } else {
        format!("H{}:{}/{}:{}", lpart.len(), fnv(&lpart.join(",")), rpart.len(), fnv(&rpart.join(",")))
    }
}

fn tape_record(prev_sig: &Signature, t: &BasicTape, stepped: u64) -> String {
    let (cl, cr) = t.counts();
    let (ll, rl) = t.span_lens();
    let last = if unroll_small(t) { unroll_sides(t) } else { "big".to_string() };
    [
        stepped.to_string(),
        field_of_tape(t),
        t.marks().to_string(),
        b2s(t.blank()).to_string(),
        b2s(t.at_edge(false)).to_string(),
        b2s(t.at_edge(true)).to_string(),
        t.blocks().to_string(),
        format!("{}/{}", field_of_nlist(&cl), field_of_nlist(&cr)),
        format!("{ll},{rl}"),
        field_of_sig(&t.signature()),
        b2s(t.sig_compatible(prev_sig)).to_string(),
        t.to_string(),
        last,
    ]
    .join(" ")
}

fn cmd_tape(mode: &str, tape_f: &str, ops_f: &str) -> String {
    let mut t = tape_of_field(tape_f);
    let mut recs: Vec<String> = vec![];
    if !ops_f.is_empty() {
        for o in ops_f.split(';') {
            let f: Vec<&str> = o.split(',').collect();
            let prev_sig = t.signature();
            let stepped = t.step(f[0] == "1", f[1].parse().unwrap(), f[2] == "1");
            recs.push(tape_record(&prev_sig, &t, stepped));
        }
    }
    if mode == "v" {
        recs.join(";")
    } else {
        format!(
            "{}|{}|{}",
            recs.len(),
            fnv(&recs.join(";")),
            recs.last().cloned().unwrap_or_else(|| field_of_tape(&t))
        )
    }
}

fn run_ops(tape_f: &str, ops_f: &str) -> BasicTape {
    let mut t = tape_of_field(tape_f);
    if !ops_f.is_empty() {
        for o in ops_f.split(';') {
            let f: Vec<&str> = o.split(',').collect();
            t.step(f[0] == "1", f[1].parse().unwrap(), f[2] == "1");
        }
    }
    t
}

// derived == and Hash on two tapes reached by two op sequences, plus what the cells say
fn cmd_tapeeq(ta: &str, oa: &str, tb: &str, ob: &str) -> String {
    use std::collections::hash_map::DefaultHasher;
    use std::hash::{Hash, Hasher};
    let a = run_ops(ta, oa);
    let b = run_ops(tb, ob);
    let hash = |t: &BasicTape| {
        let mut h = DefaultHasher::new();
        t.hash(&mut h);
        h.finish()
    };
    format!(
        "{}|{}|{} {}|{} {}",
        b2s(a == b),
        b2s(hash(&a) == hash(&b)),
        field_of_tape(&a),
        if unroll_small(&a) { unroll_sides(&a) } else { "big".to_string() },
        field_of_tape(&b),
        if unroll_small(&b) { unroll_sides(&b) } else { "big".to_string() },
    )
}

fn cmd_rec(prog: &str, lim: &str) -> String {
    match machine::quick_term_or_rec(&CompProg::from_str(prog), lim.parse().unwrap()) {
        RecRes::Limit => "limit".to_string(),
        RecRes::Recur => "recur".to_string(),
        RecRes::Spinout => "spinout".to_string(),
        RecRes::Undefined(sl) => format!("undefined:{}", field_of_slot(&sl)),
    }
}

fn cmd_mkrule(c1: &str, c2: &str, c3: &str, c4: &str) -> String {
    match rules::make_rule(
        &counts_of_field(c1),
        &counts_of_field(c2),
        &counts_of_field(c3),
        &counts_of_field(c4),
    ) {
        None => "none".to_string(),
        Some(r) => format!("rule:{}", field_of_rule(&r)),
    }
}

fn cmd_capps(tape_f: &str, rule_f: &str) -> String {
    match tape_of_field(tape_f).count_apps(&rule_of_field(rule_f)) {
        None => "none".to_string(),
        Some((times, pos, res)) => format!("{} {} {}", times, field_of_index(&pos), res),
    }
}

fn cmd_apply(tape_f: &str, rule_f: &str) -> String {
    let mut t = tape_of_field(tape_f);
    let r = rule_of_field(rule_f);
    // a panic inside apply_rule is a PANIC answer as a whole
    let res = t.apply_rule(&r);
    format!(
        "{}|{}",
        match res {
            None => "none".to_string(),
            Some(times) => format!("some:{times}"),
        },
        field_of_tape(&t)
    )
}

fn cps_of_field(s: &str) -> String {
    if s.is_empty() {
        return String::new();
    }
    s.split(',').map(|x| char::from_u32(x.parse().unwrap()).unwrap()).collect()
}

fn field_of_cps(s: &str) -> String {
    s.chars().map(|c| (c as u32).to_string()).collect::<Vec<_>>().join(",")
}

fn cmd_tok(kind: &str, cps: &str) -> String {
    let s = cps_of_field(cps);
    match kind {
        "instr" => match instrs::read_instr(&s) {
            None => "-".to_string(),
            Some(i) => field_of_instr(&i),
        },
        "slot" => field_of_slot(&instrs::read_slot(&s)),
        "state" => instrs::read_state(s.chars().next().unwrap()).to_string(),
        _ => panic!("bad tok kind"),
    }
}

fn cmd_showtok(kind: &str, v: &str) -> String {
    match kind {
        "instr" => {
            let i = if v == "-" {
                None
            } else {
                let f: Vec<&str> = v.split(',').collect();
                Some((f[0].parse().unwrap(), f[1] == "1", f[2].parse().unwrap()))
            };
            field_of_cps(&instrs::show_instr(i))
        },
        "slot" => {
            let f: Vec<u64> = v.split(',').map(|x| x.parse().unwrap()).collect();
            field_of_cps(&instrs::show_slot((f[0], f[1])))
        },
        "state" => (instrs::show_state(Some(v.parse().unwrap())) as u32).to_string(),
        _ => panic!("bad tok kind"),
    }
}

fn cmd_slots(prog: &str) -> String {
    let p = CompProg::from_str(prog);
    let (ms, mc) = p.params();
    format!(
        "{},{}|{}|{}|{}",
        ms,
        mc,
        p.halt_slots().iter().map(field_of_slot).collect::<Vec<_>>().join(";"),
        p.erase_slots().iter().map(field_of_slot).collect::<Vec<_>>().join(";"),
        p.zr_shifts().iter().map(|(s, sh)| format!("{},{}", s, b2s(*sh))).collect::<Vec<_>>().join(";")
    )
}

fn cmd_cmptake(a: &str, b: &str, take: &str) -> String {
    let ta = BasicTape::verif_from_parts(0, &span_of_field(a), &[]);
    let tb = BasicTape::verif_from_parts(0, &span_of_field(b), &[]);
    let ha = HeadTape::verif_from_parts(0, ta);
    let hb = HeadTape::verif_from_parts(0, tb);
    b2s(ha.l_compare_take(&hb, take.parse().unwrap())).to_string()
}

fn cmd_aligns(f: &[&str]) -> String {
    let cur = HeadTape::verif_from_parts(f[0].parse().unwrap(), tape_of_field(f[1]));
    let prev = HeadTape::verif_from_parts(f[2].parse().unwrap(), tape_of_field(f[3]));
    b2s(cur.aligns_with(&prev, f[4].parse().unwrap(), f[5].parse().unwrap())).to_string()
}

fn dispatch(fields: &[&str]) -> String {
    match fields {
        ["tape", mode, tp, ops] => cmd_tape(mode, tp, ops),
        ["tapeeq", ta, oa, tb, ob] => cmd_tapeeq(ta, oa, tb, ob),
        ["quick", prog, lim] => {
            field_of_mresult(&machine::run_quick_machine(prog, lim.parse().unwrap()))
        },
        ["rec", prog, lim] => cmd_rec(prog, lim),
        ["mkrule", c1, c2, c3, c4] => cmd_mkrule(c1, c2, c3, c4),
        ["capps", tp, rl] => cmd_capps(tp, rl),
        ["apply", tp, rl] => cmd_apply(tp, rl),
        ["conn", prog, states] => {
            b2s(graph::is_connected(&CompProg::from_str(prog), states.parse().unwrap()))
                .to_string()
        },
        ["parse", cps] => field_of_comp(&CompProg::from_str(&cps_of_field(cps))),
        ["show", comp, params] => {
            let p = comp_of_field(comp);
            let pr = if *params == "-" {
                None
            } else {
                let f: Vec<u64> = params.split(',').map(|x| x.parse().unwrap()).collect();
                Some((f[0], f[1]))
            };
            field_of_cps(&wrappers::show_comp(&p, pr))
        },
        ["tok", kind, cps] => cmd_tok(kind, cps),
        ["showtok", kind, v] => cmd_showtok(kind, v),
        ["slots", prog] => cmd_slots(prog),
        ["cmptake", a, b, take] => cmd_cmptake(a, b, take),
        ["aligns", rest @ ..] if rest.len() == 6 => cmd_aligns(rest),
        _ => ext::dispatch(fields),
    }
}

fn main() {
    std::panic::set_hook(Box::new(|_| {}));
    let stdin = io::stdin();
    let lines: Vec<String> = stdin.lock().lines().map(|l| l.unwrap()).collect();
    let threads: usize = std::env::var("BBH_THREADS").ok().and_then(|s| s.parse().ok()).unwrap_or(16);
    let pool = rayon::ThreadPoolBuilder::new()
        .num_threads(threads)
        .stack_size(256 << 20)
        .build()
        .unwrap();
    let out: Vec<String> = pool.install(|| {
        lines
            .par_iter()
            .filter(|l| !l.is_empty())
            .map(|line| {
                let mut it = line.splitn(2, '|');
                let id = it.next().unwrap();
                let rest = it.next().unwrap_or("");
                let fields: Vec<&str> = rest.split('|').collect();
                let ans = catch_unwind(AssertUnwindSafe(|| dispatch(&fields)))
                    .unwrap_or_else(|_| "PANIC".to_string());
                format!("{id}|{ans}")
            })
            .collect()
    });
    let stdout = io::stdout();
    let mut w = io::BufWriter::new(stdout.lock());
    for l in out {
        writeln!(w, "{l}").unwrap();
    }
}
