// Native pre-filter oracle: a naive cell-by-cell Turing machine (no code of
// /repo involved except the program parser).  Used only to FIND candidates;
// every candidate is re-confirmed by the Coq-extracted spec before it is
// reported.
use crate::*;
use std::collections::VecDeque;

pub struct Naive {
    pub tape: VecDeque<u64>,
    pub pos: usize,
    pub state: u64,
}

impl Naive {
    pub fn new() -> Self {
        let mut tape = VecDeque::new();
        tape.push_back(0);
        Self { tape, pos: 0, state: 0 }
    }
    fn blank_side(&self, right: bool) -> bool {
        if right {
            self.tape.iter().skip(self.pos + 1).all(|&c| c == 0)
        } else {
            self.tape.iter().take(self.pos).all(|&c| c == 0)
        }
    }
    fn all_blank(&self) -> bool {
        self.tape.iter().all(|&c| c == 0)
    }
}

// term=<halt:s,c|spinout|limit>@n;erase=<n|->;blank=<n|-> (blank: first step after which the tape is all blank)
pub fn naive_run(prog: &str, lim: u64) -> String {
    let comp = CompProg::from_str(prog);
    let mut m = Naive::new();
    let mut erase: Option<u64> = None;
    let mut blank: Option<u64> = None;
    // number of non-blank cells strictly left / right of the head (kept incrementally)
    let mut nz_left: u64 = 0;
    let mut nz_right: u64 = 0;
    let mut term = String::from("limit");
    let mut n: u64 = 0;
    while n < lim {
        let scan = m.tape[m.pos];
        let Some(&(pr, sh, next)) = comp.get(&(m.state, scan)) else {
            term = format!("halt:{},{}", m.state, scan);
            break;
        };
        if next == m.state && scan == 0 && (if sh { nz_right == 0 } else { nz_left == 0 }) {
            term = String::from("spinout");
            break;
        }
        m.tape[m.pos] = pr;
        if sh {
            if pr != 0 {
                nz_left += 1;
            }
            m.pos += 1;
            if m.pos == m.tape.len() {
                m.tape.push_back(0);
            }
            if m.tape[m.pos] != 0 {
                nz_right -= 1;
            }
        } else {
            if pr != 0 {
                nz_right += 1;
            }
            if m.pos == 0 {
                m.tape.push_front(0);
            } else {
                m.pos -= 1;
            }
            if m.tape[m.pos] != 0 {
                nz_left -= 1;
            }
        }
        m.state = next;
        n += 1;
        let all_blank = nz_left == 0 && nz_right == 0 && m.tape[m.pos] == 0;
        if erase.is_none() && scan != 0 && pr == 0 && all_blank {
            erase = Some(n);
        }
        if blank.is_none() && all_blank {
            blank = Some(n);
        }
    }
    format!(
        "term={}@{};erase={};blank={}",
        term,
        n,
        erase.map_or("-".to_string(), |e| e.to_string()),
        blank.map_or("-".to_string(), |e| e.to_string())
    )
}

pub fn dispatch(fields: &[&str]) -> Option<String> {
    match fields {
        ["naive", prog, lim] => Some(naive_run(prog, lim.parse().unwrap())),
        _ => None,
    }
}
