"""C07 — quick recurrence check: every verdict is true."""
from lib import core, gen

LEVEL = 'proof'
HISTORY = {}                  # id -> calls made before it on the same thread (history cases)
BBH_FEATURES = ['oracle']      # harness command families this check needs (fallback build, lib/core.py build_bbh)
LIMITS_Q = [1, 2, 3, 5, 9, 17, 33, 50, 100, 300]
PLAIN_BUDGET = 200000
CERT_T = 2500


def nf_2x2():
    return [gen.prog_text(t) for t in gen.exhaustive_tables(2, 2, normal_first=True)]


def cases(seed, tier):
    rng = core.mkrng(seed, 'C07')
    cs = []
    dist = {}
    k = 0
    p22 = nf_2x2()
    for p in p22:
        for lim in (LIMITS_Q if tier == 'quick' else LIMITS_Q + [1000, 5000, 20000]):
            cs.append((f'a{k}', f'rec|{p}|{lim}'))
            k += 1
    dist['exhaustive_2x2_nf'] = len(p22)
    n = 8000 if tier == 'quick' else 600000
    sizes = [(3, 2), (2, 3), (4, 2), (2, 4), (3, 3), (5, 2), (2, 5), (6, 2)]
    for i in range(n):
        S, C = rng.choice(sizes)
        p = gen.prog_text(gen.random_nf_table(rng, S, C, rng.choice([0.0, 0.05, 0.15])))
        lim = rng.choice(LIMITS_Q + ([1000, 3000] if tier == 'quick' else [1000, 5000, 20000]))
        cs.append((f'r{i}', f'rec|{p}|{lim}'))
    dist['random_nf'] = n
    named = [p for p in gen.named_machines() if p.startswith('1RB')]
    for i, p in enumerate(named):
        for lim in ([50, 1000] if tier == 'quick' else [50, 1000, 20000]):
            cs.append((f'n{i}_{lim}', f'rec|{p}|{lim}'))
    dist['named_nf'] = len(named)
    # non-normal-form and degenerate inputs: correspondence only (ids start with 'w')
    for i, p in enumerate(gen.corpus_2x2()[::37]):
        cs.append((f'w{i}', f'rec|{p}|{rng.choice([0, 1, 2, 7, 40])}'))
    return cs, dist


def oracle(cs, h):
    """decide every implementation verdict against the extracted spec"""
    ol = []
    for cid, line in cs:
        if cid.startswith('w'):
            continue
        a = h.get(cid, '')
        prog = line.split('|')[1]
        if a == 'limit' or a == 'PANIC' or not a:
            continue
        ol.append(f'{cid}|plain|{prog}|{PLAIN_BUDGET}')
        if a == 'recur' and int(line.split('|')[2]) <= 40:
            ol.append(f'{cid}c|cert|{prog}|{CERT_T}')
    o = core.run_bbm(ol)
    fails = []
    stats = {'undefined_confirmed': 0, 'spinout_confirmed': 0, 'recur_not_falsified': 0,
             'recur_certified': 0, 'undecided_in_budget': 0}
    for cid, line in cs:
        a = h.get(cid, '')
        p = o.get(cid)
        if p is None:
            continue
        kind = p.split('|')[0]
        if a.startswith('undefined:'):
            if kind == 'limit':
                stats['undecided_in_budget'] += 1
            elif kind == 'halt:' + a[len('undefined:'):]:
                stats['undefined_confirmed'] += 1
            else:
                fails.append((cid, line, f'quick check says {a}, the machine does: {p}'))
        elif a == 'spinout':
            if kind == 'limit':
                stats['undecided_in_budget'] += 1
            elif kind == 'spinout':
                stats['spinout_confirmed'] += 1
            else:
                fails.append((cid, line, f'quick check says spinout, the machine does: {p}'))
        elif a == 'recur':
            if kind != 'limit':
                fails.append((cid, line, f'quick check says recur, but the machine terminates: {p}'))
            else:
                stats['recur_not_falsified'] += 1
                c = o.get(cid + 'c')
                if c is not None:
                    if c == '-':
                        fails.append((cid, line, f'recur claimed within {line.split("|")[2]} cycles but no '
                                                 f'translated-cycle certificate exists within {CERT_T} steps'))
                    else:
                        stats['recur_certified'] += 1
    return fails, stats


def run(rep, tier, seed):
    cs, dist = cases(seed, tier)
    lines = [f'{i}|{l}' for i, l in cs]
    h = core.run_bbh(lines)
    m = core.run_bbm(lines)
    diffs = core.diff_answers(cs, h, m)
    # HISTORIES: sibling programs (one-slot edits of one table, also tables of 9+ slots) asked in a row on ONE thread:
    # the answer must not depend on what was asked before (per-thread caches, memo tables with lossy keys, reused buffers)
    hrng = core.mkrng(seed, 'C07-hist')
    hcs = gen.history_cases(hrng, 120 if tier == 'quick' else 1500, lambda r, S, C: (lambda lim: (lambda p: f'rec|{p}|{lim}'))(r.choice([9, 17, 50, 300])), nf=True)
    hl = [f'{i}|{l}' for i, l in hcs]
    hh, hm = core.run_bbh(hl, threads=1), core.run_bbm(hl)
    diffs += core.diff_answers(hcs, hh, hm)
    cs = cs + hcs
    h.update(hh)
    m.update(hm)
    global HISTORY
    HISTORY = gen.history_of(hcs)
    fails, stats = oracle(cs, h)
    kinds = {}
    for cid, _ in cs:
        k = h.get(cid, '?').split(':')[0]
        kinds[k] = kinds.get(k, 0) + 1
    nontriv = {l for (i, l) in cs if h.get(i, 'limit') != 'limit'}
    rep.coverage.update({
        'evaluations': len(cs),
        'distinct_nontrivial': len(nontriv),
        'rule': 'normal-form programs (2x2 exhaustive, random to 6x2/3x3/2x5, named) x cycle limits; '
                'quick_term_or_rec of /repo vs the extracted model; every non-limit verdict of the implementation is '
                're-decided by the extracted spec: plain cell-by-cell run (halt slot / spin-out / any termination '
                'falsifies recur) and, for small limits, a brute-force translated-cycle certificate search; '
                'non-trivial = distinct cases with a settled verdict',
        'input_distribution': dist, 'verdicts': kinds, 'oracle': stats,
        'divergences': len(diffs),
        'samples': [cs[3][1], cs[len(cs) // 2][1], cs[-1][1]],
        'explanation': 'partial proof + verified-spec exploration: see MANIFEST level text',
    })
    return diffs, fails


def search(rep, diffs, fails):
    for cid, line, why in fails[:3]:
        why = gen.hist_note(why, HISTORY.get(cid))
        _, prog, lim = line.split('|')
        # shrink the limit
        best = int(lim)
        for l in range(1, min(best, 200)):
            a = core.run_bbh([f'z|rec|{prog}|{l}']).get('z', '')
            f2, _ = oracle([('z', f'rec|{prog}|{l}')], {'z': a})
            if f2:
                best, why = l, f2[0][2]
                break
        rep.violation({'kind': 'property-failure', 'program': prog, 'cycle_limit': best, 'why': why}, found=True)
    if fails:
        return
    for cid, line, a, b in diffs[:3]:
        _, prog, lim = line.split('|')
        found = None
        for l in sorted(set(list(range(1, 80)) + [int(lim)])):
            ans = core.run_bbh([f'z|rec|{prog}|{l}']).get('z', '')
            f2, _ = oracle([('z', f'rec|{prog}|{l}')], {'z': ans})
            if f2:
                found = (l, f2[0][2])
                break
        if found:
            rep.violation({'kind': 'property-failure', 'program': prog, 'cycle_limit': found[0], 'why': found[1]}, found=True)
        else:
            rep.violation({'kind': 'correspondence', 'case': line, 'impl': a, 'model': b,
                           'correspondence': 'bbh quick_term_or_rec = MachineModel.quick_term_or_rec'}, found=False)
