"""C06 — closed-position-set analysis never claims a reachable event unreachable."""
from lib import core, gen
from props.C04 import event_of

LEVEL = 'proof'
BBH_FEATURES = ['cps', 'oracle']      # harness command families this check needs (fallback build, lib/core.py build_bbh)
GOALS = ['halt', 'blank', 'spin']
RADII = [2, 3, 4, 5, 6, 7, 8, 9]


def cases(seed, tier):
    rng = core.mkrng(seed, 'C06')
    cs = []
    dist = {}
    k = 0
    for f in core.known_findings()['open']:
        for j, x in enumerate(f.get('witnesses_C06', [])):
            cs.append((f'k{f["id"]}_{j}', f'cps|{x["goal"]}|{x["program"]}|{x["rad"]}'))
    p22 = gen.corpus_2x2()
    for p in p22:
        for g in GOALS:
            for r in (RADII if tier != 'quick' else [RADII[(k + j) % len(RADII)] for j in (0, 3)]):
                cs.append((f'a{k}', f'cps|{g}|{p}|{r}'))
                k += 1
    dist['exhaustive_2x2'] = len(p22)
    n = 10000 if tier == 'quick' else 2000000
    sizes = [(3, 2), (2, 3), (3, 2), (2, 3), (4, 2), (2, 4), (3, 3), (5, 2), (6, 2), (2, 6), (4, 3)]
    for i in range(n):
        S, C = rng.choice(sizes)
        p = gen.prog_text(gen.random_table(rng, S, C, rng.choice([0.0, 0.05, 0.15]),
                                           first=(1, True, 1) if rng.random() < 0.5 else None))
        r = rng.choice([2, 3, 3, 4, 4, 5, 5, 6] if tier == 'quick' else RADII)
        cs.append((f'r{i}', f'cps|{rng.choice(GOALS)}|{p}|{r}'))
    dist['random_tables'] = n
    dg = gen.degenerate_programs()
    for i, p in enumerate(dg):
        for g in GOALS:
            for r in (2, 3, 5):
                cs.append((f'd{i}{g}{r}', f'cps|{g}|{p}|{r}'))
    dist['degenerate (empty / A0 undefined)'] = len(dg)
    named = gen.named_machines()
    for i, p in enumerate(named[:: (4 if tier == 'quick' else 1)]):
        cs.append((f'n{i}', f'cps|{rng.choice(GOALS)}|{p}|{rng.choice([3, 4, 5])}'))
    dist['named'] = len(named)
    return cs, dist


def falsified(cs, h, budget):
    """'true' answers that a real run falsifies (native pre-filter, confirmed by the extracted spec)"""
    tr = [(cid, line) for cid, line in cs if h.get(cid, '') == '1']
    progs = sorted({line.split('|')[2] for _, line in tr})
    nv = core.run_bbh([f'p{i}|naive|{p}|{budget}' for i, p in enumerate(progs)])
    nvp = {p: nv[f'p{i}'] for i, p in enumerate(progs)}
    cand = []
    for cid, line in tr:
        _, g, p, r = line.split('|')
        ev = event_of(g, nvp[p])
        if ev:
            cand.append((cid, line, ev))
    ol = []
    for cid, line, (n, what) in cand:
        _, g, p, r = line.split('|')
        ol.append(f'{cid}|{"erase" if g == "blank" else "plain"}|{p}|{n + 1}')
    o = core.run_bbm(ol) if ol else {}
    out = []
    for cid, line, (n, what) in cand:
        _, g, p, r = line.split('|')
        a = o.get(cid, '')
        ok = (a not in ('-', '')) if g == 'blank' else (a.startswith('halt:') if g == 'halt' else a.startswith('spinout'))
        if ok:
            out.append((cid, line, f'cps_cant_{g} = true at radius {r}, but the machine does it: {what} at step {n} (spec: {a})'))
    return out, len(tr), len(progs)


def classify(fals):
    """F2: the early exit `halt_slots().is_empty()` with the table size from defined keys only.
    Counterfactual on the model: without the early exit the closure passes decide; a falsified
    'true' for goal halt is F2 iff no single pass (radius 2..rad-1) of the faithful model closes."""
    ol = []
    for cid, line, why in fals:
        _, g, p, r = line.split('|')
        ol.append(f'{cid}m|{line}')
        for seg in range(2, int(r)):
            ol.append(f'{cid}s{seg}|cps1|{g}|{p}|{seg}')
    o = core.run_bbm(ol) if ol else {}
    res = []
    for cid, line, why in fals:
        _, g, p, r = line.split('|')
        passes = [o.get(f'{cid}s{seg}') for seg in range(2, int(r))]
        if g == 'halt' and o.get(cid + 'm') == '1' and all(x == '0' for x in passes):
            res.append((cid, line, why, 'F2'))
        else:
            res.append((cid, line, why, None))
    return res


def run(rep, tier, seed):
    cs, dist = cases(seed, tier)
    lines = [f'{i}|{l}' for i, l in cs]
    h = core.run_bbh(lines)
    m = core.run_bbm(lines)
    diffs = core.diff_answers(cs, h, m)
    # the Python-facing wrappers, consecutive questions about one program on ONE thread
    rngw = core.mkrng(seed, 'C06w')
    wcs = []
    for i, p in enumerate(gen.corpus_2x2()[::7] + gen.random_progs(rngw, 700 if tier == 'quick' else 7000)):
        r = rngw.choice([3, 4, 5])
        for g in rngw.sample(GOALS, 3):
            wcs.append((f'w{i}{g}', f'cpspy|{g}|{p}|{r}'))
    wl = [f'{i}|{l}' for i, l in wcs]
    hw = core.run_bbh(wl, threads=1)
    mw = core.run_bbm(wl)
    diffs += core.diff_answers(wcs, hw, mw)
    cs = cs + [(i, l.replace('cpspy|', 'cps|', 1)) for i, l in wcs]
    h.update(hw)
    # HISTORIES: sibling programs (one-slot edits, first slots preferred; also tables of 9+ slots) asked in a row on
    # ONE thread, same goal and radius: the answer must not depend on what was asked before
    # (added after seeded change C06-m5: a per-thread memo keyed by a fingerprint that drops the first slots of big tables)
    scs = []
    nseq = 150 if tier == 'quick' else 1500
    for i in range(nseq):
        S, C = rngw.choice([(3, 3), (5, 2), (2, 5), (4, 3), (6, 2), (2, 6), (3, 2), (2, 3), (4, 2), (2, 4)])
        g, r = rngw.choice(GOALS), rngw.choice([3, 3, 4, 5])
        for j, p in enumerate(gen.sibling_sequence(rngw, S, C, 6)):
            scs.append((f's{i}_{j}', f'cps|{g}|{p}|{r}'))
    sl = [f'{i}|{l}' for i, l in scs]
    hs = core.run_bbh(sl, threads=1)
    ms = core.run_bbm(sl)
    diffs += core.diff_answers(scs, hs, ms)
    cs = cs + scs
    h.update(hs)
    dist['sibling_histories_one_thread'] = len(scs)
    global HISTORY
    HISTORY = {}
    for i, (cid, line) in enumerate(scs):
        k, j = cid[1:].split('_')
        HISTORY[cid] = [l for c, l in scs[i - int(j):i]]
    fals, ntrue, nprogs = falsified(cs, h, 10000 if tier == 'quick' else 100000)
    fails = []
    nf2 = 0
    for cid, line, why, k in classify(fals):
        if k == 'F2':
            nf2 += 1
            if cid.startswith('k'):
                _, g, p, r = line.split('|')
                rep.known_finding(f'F2 witness: cps_cant_{g}("{p}", {r}) = true: {why}')
        else:
            fails.append((cid, line, why))
    if nf2:
        kf = [f for f in core.known_findings()['open'] if f['id'] == 'F2'][0]
        rep.known_finding(f'F2 class ({kf["site"]}): {nf2} falsified `true` answers of cps_cant_halt in this run, all through the '
                          'early exit halt_slots().is_empty() (no closure pass of the model closes)')
    kinds = {}
    for cid, _ in cs:
        a = h.get(cid, '?')
        kinds[a] = kinds.get(a, 0) + 1
    rep.coverage.update({
        'evaluations': len(cs),
        'distinct_nontrivial': len({l for i, l in cs if h.get(i) == '1'}),
        'rule': 'programs (2x2 exhaustive, random to 6x2/4x3/2x6, named) x goal x radius; cps_cant_* of /repo vs the extracted '
                'model (processing order oldest-first; the boolean is order independent except through MAX_LOOPS, where only '
                '`false` can result); every `true` of the implementation is tested against a real run (native pre-filter, confirmed '
                'by the extracted spec); non-trivial = distinct cases answered true',
        'input_distribution': dist, 'answers': kinds, 'true_answers_tested': ntrue, 'programs_run': nprogs,
        'falsified_known_F2': nf2, 'falsified_new': len(fails), 'divergences': len(diffs),
        'samples': [cs[0][1], cs[len(cs) // 2][1], cs[-1][1]],
        'explanation': 'see MANIFEST',
    })
    return diffs, fails


HISTORY = {}


def search(rep, diffs, fails):
    for cid, line, why in fails[:3]:
        _, g, p, r = line.split('|')
        rec = {'kind': 'property-failure', 'goal': g, 'program': p, 'radius': int(r), 'why': why}
        if HISTORY.get(cid):
            rec['history'] = HISTORY[cid]
            rec['why'] += ' — asked on ONE thread after the calls listed under `history` (in that order)'
        rep.violation(rec, found=True)
    if fails:
        return
    extra = []
    for cid, line, a, b in diffs[:40]:
        _, g, p, r = line.split('|')
        for rr in RADII:
            extra.append((f'{cid}_{rr}', f'cps|{g}|{p}|{rr}'))
    h = core.run_bbh([f'{i}|{l}' for i, l in extra])
    fals, _, _ = falsified(extra, h, 100000)
    new = [x for x in classify(fals) if x[3] is None]
    if new:
        cid, line, why, _ = new[0]
        _, g, p, r = line.split('|')
        rep.violation({'kind': 'property-failure', 'goal': g, 'program': p, 'radius': int(r), 'why': why}, found=True)
    else:
        cid, line, a, b = diffs[0]
        rep.violation({'kind': 'correspondence', 'case': line, 'impl': a, 'model': b, 'divergences': len(diffs),
                       'correspondence': 'bbh Cps::cps_cant_* = CpsModel.cps_cant_* (order_oldest_first)'}, found=False)
