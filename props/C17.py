"""C17 — Python and Rust simulators agree.

Three-way (in fact four-way) correspondence on every run:

  real Python (py/pyharness17.py under CPython 3.12, tm/*.py of the current
  tree + a rust_stuff.so built from the current tree in a scratch copy)
    vs real Rust (bbh: /repo/src included by path)
    vs the two Coq models (bbm: PyTapeModel/PyRulesModel and TapeModel/RulesModel),
  which Proofs/PyRsAgree.v proves equal on the stated ranges.

 (i)   tape steps: C12's step streams, one record per step in the `tape3`
       format (stepped, tape, marks, blank, at_edge x2, counts, span_lens,
       signature, display), compared as strings.
 (ii)  rule arithmetic: calculate_diff / make_rule / count_apps / apply_rule
       of tm/rules.py vs PyRulesModel (tie of the model), and vs rules.rs on
       the additive in-range part (what the theorems cover).
 (iii) whole runs: Machine(prog).run(sim_lim) vs run_prover(prog, sim_lim) on
       outcome kind, marks, rule applications, blank record, for the runs
       inside the property's quantifier; on EVERY run the real Machine.run is
       also compared with the extracted whole-run Python model
       (PyMachineModel.py_run, bbm `pyrunx`: + steps, cycles, configurations,
       complete rule table), and the guard of theorem C17_py_rs_run_agree
       (PyRunAgree.run_inside, bbm `pyguard`) is evaluated and tallied by the
       difference D1..D6 that makes it fail.
 (iv)  components that whole runs rarely reach (tools/pycomp_diff.py): real
       Tape.sig_compatible, EnumTape op streams, Prover.get_rule,
       Prover.get_min_sig vs the models.

Python != Rust is a concrete VIOLATION (replay = input + both answers);
model != implementation alone is a correspondence failure
(no-failing-input-found).

Environment: BB_REPO_OVERRIDE = root of the tree whose PYTHON side (tm/*.py
and the extension built from its src/) is checked (default /repo; used by the
self-test with a mutated scratch copy; bbh always compiles /repo/src).
"""
import glob
import hashlib
import os
import shutil
import signal
import subprocess
import tempfile
import threading
import time

from lib import core, gen
from props import C12
from tools import pycomp_diff, pyrun_diff

LEVEL = 'other'
BBH_FEATURES = ['py', 'prover']      # harness command families this check needs (fallback build, lib/core.py build_bbh)
PY312 = os.environ.get('BB_PY312', '/root/.pyenv/versions/3.12.1/bin/python')
PYH = f'{core.VERIF}/py/pyharness17.py'
PYHX = f'{core.VERIF}/py/pyharness17x.py'      # + pyrunx: steps, cycles, configurations, rule table
U64 = (1 << 64) - 1

TRUSTED_EXTRA = [
    'py/pyharness17.py (drives the real tm.tape.Tape / tm.rules / tm.machine.Machine; prints records); '
    'CPython 3.12.1; pyo3 marshalling of the extension the Python side imports',
    'whole-run agreement (Machine.run vs run_prover) is a theorem (C17_py_rs_run_agree) about the Gallina models '
    'of tm/machine.py + tm/prover.py and of run_prover, for the runs on which its decidable guard run_inside '
    'holds (evaluated on every explored run, bbm pyguard); the models are tied to the real code by execution: '
    'real Machine.run = py_run (kind, marks, rulapp, blank record, steps, cycles, configurations, the complete '
    'rule table), real Tape.sig_compatible / EnumTape / Prover.get_rule / Prover.get_min_sig = models '
    '(tools/pycomp_diff.py), real run_prover = ProverModel (C02)',
]
ASSUMPTIONS = [
    'the cycle limit is an input common to both runners: xlimit is compared as an outcome kind, not '
    'treated as an own limit (the stronger reading)',
    'blank-tape record: the states are compared always, the step numbers only where Python still has one '
    '(Machine.run sets step = -1 after the first rule application and records -1 from then on, run_prover '
    'records its step counter, which by then excludes the steps skipped by rules)',
    'outside the quantifier (counted, not compared): Python inferred or used a multiplicative/symbolic '
    'difference (also when it only led to InfiniteRule), a second-difference inference (SecondDiffRule), '
    'SuspectedRule, RuleLimit, ConfigLimit or crashed; Rust answered cfglim, mulrul or panicked (u64 '
    'overflow); the Python prover confirmed a rule by simulating more than 90_000 cycles ahead, which '
    'src/prover.rs:183-185 declines (Rust\'s own limit, not visible in its answer; flag bigdelta); the '
    'check\'s own CPU/memory budget per run was hit',
]


# ---------------------------------------------------------------- building

def build_pyext():
    """scratch copy of the tree + release build of rust_stuff for CPython 3.12
    in a FRESH target dir; returns (scratch dir, python root, seconds)."""
    src = os.environ.get('BB_REPO_OVERRIDE', '/repo').rstrip('/')
    t0 = time.time()
    scratch = tempfile.mkdtemp(prefix='bb17.', dir='/tmp')
    root = f'{scratch}/repo'
    try:
        shutil.copytree(src, root, symlinks=True,
                        ignore=shutil.ignore_patterns('target', '.git', '__pycache__', '*.so'))
        env = dict(core.ENV, PYO3_PYTHON=PY312, PYO3_USE_ABI3_FORWARD_COMPATIBILITY='1',
                   CARGO_NET_OFFLINE='true')
        env.pop('CARGO_TARGET_DIR', None)
        env.pop('RUSTFLAGS', None)
        rc, o, e = core.sh('cargo build --release --offline', cwd=root, env=env, timeout=1500)
        so = f'{root}/target/release/librust_stuff.so'
        if rc != 0 or not os.path.exists(so):
            raise core.BuildError(f'rust_stuff extension build for CPython 3.12 from {src}', (o + e)[-4000:])
        shutil.copy(so, f'{root}/tm/rust_stuff.so')
        rc, o, e = core.sh([PY312, '-c', 'import tm.machine, tm.tape, tm.rules, tm.prover'],
                           env=dict(core.ENV, PYTHONPATH=root), timeout=120)
        if rc != 0:
            raise core.BuildError(f'import of tm.* under CPython 3.12 from {src}', (o + e)[-4000:])
    except Exception:
        shutil.rmtree(scratch, ignore_errors=True)
        raise
    return scratch, root, time.time() - t0


def tree_digest(root):
    """digest of the sources both sides are built from (src/*.rs, tm/*.py)"""
    h = hashlib.sha256()
    for f in sorted(glob.glob(f'{root}/src/*.rs') + glob.glob(f'{root}/tm/*.py')):
        h.update(os.path.relpath(f, root).encode())
        h.update(open(f, 'rb').read())
    return h.hexdigest()[:16]


def check_tree_stable(d0, root):
    """the comparison is meaningless if the tree changed under the check (the
    extension, bbh and the Python sources would come from different versions)"""
    src = os.environ.get('BB_REPO_OVERRIDE', '/repo').rstrip('/')
    d1, ds = tree_digest(src), tree_digest(root)
    if not d0 == d1 == ds:
        raise core.BuildError('the checked tree changed while C17 was running',
                              f'digest at start {d0}, at end {d1}, scratch copy {ds} ({src})')
    # (with BBH_OVERRIDE the harness was built from a scratch copy on purpose: self-tests)
    newer = [] if core.BBH_OVERRIDE else [
        f for f in glob.glob('/repo/src/*.rs') if os.path.getmtime(f) > os.path.getmtime(core.BBH)]
    if newer:
        raise core.BuildError('bbh is older than /repo/src (changed after the harness build)', ' '.join(newer))


def run_py(root, lines, shards=16, timeout=3000, cpu=None, harness=None):
    """pyharness17 over the case lines, sharded; dict id -> answer"""
    if not lines:
        return {}
    env = dict(core.ENV, BB_PYROOT=root, PYTHONDONTWRITEBYTECODE='1')
    if cpu is not None:
        env['BB_PYRUN_CPU'] = str(cpu)
    n = max(1, min(shards, len(lines) // 4))
    procs = []
    for k in range(n):
        part = lines[k::n]
        p = subprocess.Popen([PY312, harness or PYH], stdin=subprocess.PIPE, stdout=subprocess.PIPE,
                             stderr=subprocess.PIPE, text=True, env=env)
        procs.append((p, part))
    results = [None] * len(procs)

    def feed(ix, p, part):
        try:
            o, e = p.communicate('\n'.join(part) + '\n', timeout=timeout)
            results[ix] = (p.returncode, o, e)
        except subprocess.TimeoutExpired:
            p.kill()
            results[ix] = (-9, '', 'timeout')
    ths = [threading.Thread(target=feed, args=(i, p, part)) for i, (p, part) in enumerate(procs)]
    for t in ths:
        t.start()
    for t in ths:
        t.join()
    out = {}
    for (rc, o, e), (_, part) in zip(results, procs):
        for l in o.splitlines():
            i = l.find('|')
            if i > 0:
                out[l[:i]] = l[i + 1:]
        if rc != 0:
            # a worker died (e.g. killed by the memory limit): its unanswered cases are marked
            for l in part:
                cid = l.split('|', 1)[0]
                out.setdefault(cid, f'PYHARNESS-DIED:{rc}')
            if not o and 'Traceback' in (e or ''):
                raise core.BuildError('pyharness17 failed to start', e[-3000:])
    return out


# ---------------------------------------------------------------- (i) tape steps

def tape_cases(seed, tier):
    """C12's streams.  Returns list of (id, start_tape, ops) and the distribution."""
    cs, dist = C12.cases(seed, tier)
    out = []
    stride = 4 if tier == 'quick' else 3      # CPython budget: ~1M of the 3M length-6 sequences
    kept = 0
    for k, (cid, line) in enumerate(cs):
        f = line.split('|')          # tape|h|<start>|<ops>
        if f[0] != 'tape':           # C12 also generates equality pairs (tapeeq): not step streams
            continue
        if cid.startswith('x'):
            if int(cid[1:]) % stride:
                continue
            kept += 1
        out.append((cid, f[2], f[3]))
    for key in list(dist):
        if key.startswith('exhaustive'):
            dist[key + f'_every_{stride}th'] = kept
            del dist[key]
    return out, dist


def four_way(root, cases, mode='h'):
    """cases: (id, start, ops).  Answers of the four runners."""
    py = run_py(root, [f'{i}|pytape|{mode}|{s}|{o}' for i, s, o in cases])
    rs = core.run_bbh([f'{i}|tape3|{mode}|{s}|{o}' for i, s, o in cases])
    pm = core.run_bbm([f'{i}|pytape|{mode}|{s}|{o}' for i, s, o in cases])
    rm = core.run_bbm([f'{i}|tape3|{mode}|{s}|{o}' for i, s, o in cases])
    return py, rs, pm, rm


def localise_tape(root, cid, start, ops):
    """verbose re-run of one sequence: first step where real Python and real Rust differ"""
    py, rs, pm, rm = four_way(root, [(cid, start, ops)], mode='v')
    a, b = py.get(cid, 'MISSING').split(';'), rs.get(cid, 'MISSING').split(';')
    opl = ops.split(';')
    for k in range(max(len(a), len(b))):
        x = a[k] if k < len(a) else 'MISSING'
        y = b[k] if k < len(b) else 'MISSING'
        if x != y:
            return {'start_tape': start, 'ops': ';'.join(opl[:k + 1]), 'step': k,
                    'python_record': x, 'rust_record': y,
                    'record_before': a[k - 1] if k else '(start tape)',
                    'record_format': 'stepped tape marks blank edgeL edgeR counts lens sig display'}
    return None


def shrink_tape(root, cid, start, ops):
    """first differing step, then drop leading ops while the difference stays"""
    loc = localise_tape(root, cid, start, ops)
    if not loc:
        return None
    opl = loc['ops'].split(';')
    # shortest suffix (from the same start tape) that still shows a difference
    for n in (1, 2, 3, 4, 5, 6, 8, 10, 15, 20, 30):
        if n >= len(opl):
            break
        l2 = localise_tape(root, cid, start, ';'.join(opl[-n:]))
        if l2:
            return l2
    return loc


# ---------------------------------------------------------------- (ii) rule arithmetic

def rnd_count(rng):
    k = rng.random()
    if k < 0.5:
        return rng.randint(0, 12)
    if k < 0.8:
        return rng.randint(0, 200)
    if k < 0.9:
        return rng.randint(2 ** 31 - 5, 2 ** 31 + 5)
    return rng.randint(0, 2 ** 63)


def rule_cases(seed, tier):
    rng = core.mkrng(seed, 'C17r')
    scale = 1 if tier == 'quick' else 10
    diff, mk, app = [], [], []
    for i in range(6000 * scale):
        m = rng.random()
        if m < 0.3:
            a, d = rnd_count(rng), rng.randint(-6, 6)
            cs = [a, a + d, a + 2 * d, a + 3 * d]
            if rng.random() < 0.2:
                cs[rng.randrange(4)] += rng.randint(-2, 2)
        elif m < 0.5:
            a, q, r = rng.randint(1, 9), rng.randint(1, 4), rng.randint(-3, 5)
            cs = [a]
            for _ in range(3):
                cs.append(cs[-1] * q + r)
            if rng.random() < 0.2:
                cs[rng.randrange(4)] += rng.randint(-2, 2)
        elif m < 0.6:
            a, b, c = rng.randint(0, 9), rng.randint(0, 5), rng.randint(0, 3)
            cs = [a + b * k + c * k * k for k in range(4)]
        elif m < 0.7:
            a = rng.randint(1, 30)
            ad, sb = rng.choice([(3, 2), (5, 3), (5, 2), (5, 4), (4, 3)])
            r = rng.randint(0, 4)
            cs = [a]
            for _ in range(3):
                cs.append(cs[-1] * ad // sb + r)
        elif m < 0.8:
            # counts at and beyond the i32/u32 widths with SMALL true differences: Rust's wrapping `as i32` cast still gives
            # the right difference there, so the two implementations must agree (after seeded change C17-m7: saturating cast)
            a = rng.choice([2 ** 31 - 8, 2 ** 31, 2 ** 31 + 5, 2 ** 32 - 4, 2 ** 32, 2 ** 32 + 9, 3 * 2 ** 31, 2 ** 40, 2 ** 52 + 1]) + rng.randint(0, 40)
            d = rng.randint(-9, 9)
            cs = [a, a + d, a + 2 * d, a + 3 * d]
            if rng.random() < 0.15:
                cs[rng.randrange(4)] += rng.randint(-2, 2)
        else:
            cs = [rnd_count(rng) for _ in range(4)]
        diff.append((f'd{i}', [max(0, c) for c in cs]))

    def col():
        m = rng.random()
        a = rng.randint(1, 40)
        if m < 0.35:
            return [a] * 4
        if m < 0.75:
            d = rng.randint(-5, 5)
            return [max(0, a + 20 + k * d) for k in range(4)]
        if m < 0.85:
            q, r = rng.randint(2, 3), rng.randint(0, 3)
            cs = [a]
            for _ in range(3):
                cs.append(cs[-1] * q + r)
            return cs
        if m < 0.92:
            return [a + k * k for k in range(4)]
        return [rng.randint(0, 50) for _ in range(4)]
    for i in range(4000 * scale):
        L = [col() for _ in range(rng.randint(0, 3))]
        R = [col() for _ in range(rng.randint(0, 3))]
        cf = []
        for k in range(4):
            l, r = [c[k] for c in L], [c[k] for c in R]
            if rng.random() < 0.02 and l:
                l = l[:-1]
            cf.append(','.join(map(str, l)) + '/' + ','.join(map(str, r)))
        mk.append((f'm{i}', cf))
    for i in range(5000 * scale):
        cols = rng.randint(2, 4)
        mc = (1 << 62) if rng.random() < 0.1 else 60
        l = gen.random_span(rng, cols, 4, mc, True)
        r = gen.random_span(rng, cols, 4, mc, True)
        ent = []
        for side, sp in (('L', l), ('R', r)):
            for k in range(len(sp) + (1 if rng.random() < 0.03 else 0)):
                if rng.random() < 0.6:
                    if rng.random() < 0.05:
                        ent.append(f'{side}{k}:*{rng.randint(1, 3)}_{rng.randint(0, 3)}')
                    else:
                        d = rng.choice([-1, -1, -2, -3, 1, 2, 3, 0, -rng.randint(1, 20),
                                        rng.randint(1, 2 ** 31 - 1)])
                        ent.append(f'{side}{k}:{d if d < 0 else "+" + str(d)}')
        app.append((f'a{i}', gen.tape_field(rng.randrange(cols), l, r), ','.join(ent), l, r))
    return diff, mk, app


def check_rules(root, seed, tier, diffs, fails, dist):
    diff, mk, app = rule_cases(seed, tier)
    lines = [f'{i}|pydiff|{",".join(map(str, cs))}' for i, cs in diff]
    lines += [f'{i}|pymkrule|{"|".join(cf)}' for i, cf in mk]
    lines += [f'{i}|pyapply|{tp}|{rl}' for i, tp, rl, _, _ in app]
    lines += [f'c{i}|pycapps|{tp}|{rl}' for i, tp, rl, _, _ in app]
    py = run_py(root, lines)
    pm = core.run_bbm(lines)
    for l in lines:
        cid, rest = l.split('|', 1)
        a, b = py.get(cid, 'MISSING-PY'), pm.get(cid, 'MISSING-M')
        if a != b:
            diffs.append((cid, rest, a, b, 'tm/rules.py (real) = PyRulesModel'))
    # Python vs Rust where the theorems speak: additive, in range
    def in_range(cs):     # every count below 2^31, or every pairwise difference small (the wrapped casts then differ exactly as the counts do)
        return max(cs) < 2 ** 31 or (max(cs) - min(cs) < 2 ** 20 and max(cs) < 2 ** 63
                                     and len({(c + 2 ** 31) // 2 ** 32 for c in cs}) == 1)     # no i32 sign boundary between them
    rl_lines = [f'{i}|mkrule|{cs[0]}/|{cs[1]}/|{cs[2]}/|{cs[3]}/' for i, cs in diff if in_range(cs)]
    additive = [(i, tp, rl, l, r) for i, tp, rl, l, r in app
                if '*' not in rl and max([n for _, n in l + r] + [0]) < 2 ** 32]
    rl_lines += [f'{i}|apply|{tp}|{rl}' for i, tp, rl, _, _ in additive]
    rs = core.run_bbh(rl_lines)
    ncmp = 0
    for i, cs in diff:
        if not in_range(cs):
            continue
        p, r = py.get(i, ''), rs.get(i, '')
        pv = 'same' if p == 'none' else (p if p[:1] in '+-' else 'other')
        rv = 'same' if r == 'rule:' else (r[len('rule:L0:'):] if r.startswith('rule:L0:')
                                          and r[len('rule:L0:')] in '+-' else 'other')
        ncmp += 1
        if pv != rv:
            fails.append({'kind': 'property-failure', 'component': 'additive difference inference',
                          'counts': cs, 'python_calculate_diff': p, 'rust_make_rule_one_block': r,
                          'why': f'Python reads {pv}, Rust reads {rv} (counts below 2^31, or differences below 2^20)'})
    for i, tp, rl, l, r in additive:
        p, q = py.get(i, ''), rs.get(i, '')
        ncmp += 1
        if p.startswith('raise:IndexError') and q == 'PANIC':
            continue
        if p != q:
            fails.append({'kind': 'property-failure', 'component': 'additive rule application',
                          'tape': tp, 'rule': rl, 'python_apply_rule': p, 'rust_apply_rule': q,
                          'why': 'answers differ on an additive rule with counts below 2^32'})
    dist['rule_arithmetic_model_vs_python'] = len(lines)
    dist['rule_arithmetic_python_vs_rust_in_range'] = ncmp
    return len(lines)


# ---------------------------------------------------------------- (iii) whole runs

SIZES = [(2, 2), (3, 2), (2, 3), (4, 2), (2, 4)]
PY_OUTSIDE = ('nonadd', 'sym', 'secdiff', 'susrul', 'limrul', 'cfglim', 'bigdelta', 'check-budget', 'check-memory')


def run_cases(seed, tier):
    """named machines + leaves of the REAL tree generator (tree::build_tree,
    2x2..4x2/2x4, halting and non-halting trees, sampled evenly over the sorted
    leaf list).  Most leaves never make the prover apply a rule, so the sample
    is drawn from a larger pool pre-filtered -- by the Rust runner, which is
    cheap -- for programs on which at least one rule is applied, plus a share
    of unfiltered leaves."""
    rng = core.mkrng(seed, 'C17w')
    named = gen.named_machines()
    nplain = 600 if tier == 'quick' else 3000
    nrule = 1500 if tier == 'quick' else 6000
    per_tree = 6000 if tier == 'quick' else 40000
    lv = core.run_bbh([f'l{S}{C}{h}|leaves|{S},{C}|{h}|100|{per_tree}' for S, C in SIZES for h in (0, 1)])
    pool, seen, totals = [], set(), {}
    for S, C in SIZES:
        for h in (0, 1):
            a = lv.get(f'l{S}{C}{h}', '')
            if a.count('|') != 1:
                raise core.BuildError(f'tree leaves {S}x{C} halt={h}', a[:500])
            tot, ps = a.split('|')
            totals[f'{S}x{C}_halt{h}'] = int(tot)
            for p in ps.split(';'):
                if p and p not in seen:
                    seen.add(p)
                    pool.append(p)
    rng.shuffle(pool)
    pre = core.run_bbh([f'q{i}|rsrun|{p}|1000' for i, p in enumerate(pool)])
    ruled = [p for i, p in enumerate(pool)
             if (a := pre.get(f'q{i}', '')).count('|') == 3 and a.split('|')[2] != '0'][:nrule]
    rs_ruled = set(ruled)
    rand = ruled + [p for p in pool if p not in rs_ruled][:nplain]
    cs = []
    for i, p in enumerate(named):
        cs.append((f'n{i}_1000', p, 1000))
        if i % 4 == 0 or tier != 'quick':
            cs.append((f'n{i}_100', p, 100))
        if tier != 'quick' and i % 3 == 0:
            cs.append((f'n{i}_10000', p, 10000))
    for i, p in enumerate(rand):
        cs.append((f'r{i}_1000', p, 1000))
        cs.append((f'r{i}_100', p, 100))
        if tier != 'quick' and i % 4 == 0:
            cs.append((f'r{i}_10000', p, 10000))
    # halting named machines whose halt jumps into an eraser: one-block-per-side tapes with single-entry rules
    # (after seeded change C17-m4: the two-block sweep filter of src/prover.rs try_rule lost `rule.len() == 2`)
    ers = gen.eraser_compositions()
    for i, p in enumerate(ers):
        cs.append((f'e{i}_1000', p, 1000))
    for i, (p, lim) in enumerate(gen.REGRESSION_PROVER):
        cs.append((f'g{i}_{lim}', p, lim))
    dist = {'named_machines': len(named), 'eraser_compositions': len(ers),
            'tree_leaves_2x2_to_4x2_2x4_used': len(rand),
            'tree_leaf_totals(sim_lim 100)': totals,
            'tree_leaf_pool_sampled': len(pool), 'leaves_with_rule_application_in_rust_at_1000': len(ruled),
            'cycle_limits': [100, 1000] + ([10000] if tier != 'quick' else []),
            'whole_runs': len(cs)}
    return cs, dist


def classify(py_ans, rs_ans):
    """-> ('outside', reason) | ('same', nontrivial) | ('diff', why)"""
    if py_ans.startswith('PYHARNESS'):
        return 'outside', 'check: python worker died (memory budget)'
    pf = py_ans.split('|')
    if len(pf) != 5:
        return 'diff', f'unreadable Python answer {py_ans[:80]}'
    pk, pmk, pr, pb, flags = pf
    flags = [x for x in flags.split(',') if x]
    for fl in flags:
        if fl in PY_OUTSIDE:
            return 'outside', 'python: ' + fl
    crashed = [fl[4:] for fl in flags if fl.startswith('exc:')]
    if crashed and crashed[0] in ('RecursionError',):
        return 'outside', 'python crashed: ' + crashed[0]
    if rs_ans == 'PANIC':
        return 'outside', 'rust: panic (u64 overflow)'
    rf = rs_ans.split('|')
    if len(rf) != 4:
        return 'diff', f'unreadable Rust answer {rs_ans[:80]}'
    rk, rmk, rr, rb = rf
    if rk in ('cfglim', 'mulrul'):
        return 'outside', 'rust: ' + rk
    if crashed:
        # an exception that is none of the runner's declared limits is not "the same outcome" (added after the self-test
        # sweep: a mutant raising TypeError inside EnumTape.check_offsets was silently counted as outside the quantifier)
        return 'diff', f'Python raised {crashed[0]} (not one of its declared limits); Rust answers {rk}'
    if pk != rk:
        return 'diff', f'outcome kind: Python {pk}, Rust {rk}'
    if pmk != rmk:
        return 'diff', f'marks: Python {pmk}, Rust {rmk}'
    if pr != rr:
        return 'diff', f'rule applications: Python {pr}, Rust {rr}'
    pbl = [x.split(':') for x in pb.split(',') if x]
    rbl = [x.split(':') for x in rb.split(',') if x]
    if [s for s, _ in pbl] != [s for s, _ in rbl]:
        return 'diff', f'blank record states: Python {pb}, Rust {rb}'
    for (s, a), (_, b) in zip(pbl, rbl):
        if a != '-1' and a != b:
            return 'diff', f'blank record step of state {s}: Python {a}, Rust {b}'
    return 'same', (pr != '0')


def check_runs(root, seed, tier, fails, dist, cov, diffs):
    cs, d = run_cases(seed, tier)
    dist.update(d)
    rs = core.run_bbh([f'{i}|rsrun|{p}|{lim}' for i, p, lim in cs])
    pyx = run_py(root, [f'{i}|pyrunx|{p}|{lim}' for i, p, lim in cs], cpu=10 if tier == 'quick' else 15,
                 harness=PYHX)
    # the four compared fields + flags (the `pyrun` answer) are the first five fields of `pyrunx`
    py = {i: ('|'.join(a.split('|')[:5]) if a.count('|') >= 4 else a) for i, a in pyx.items()}
    inside, nontrivial = 0, set()
    outside = {}
    samples = []
    for i, p, lim in cs:
        a, b = py.get(i, 'PYHARNESS-MISSING'), rs.get(i, 'MISSING')
        verdict, info = classify(a, b)
        if verdict == 'outside':
            outside[info] = outside.get(info, 0) + 1
        elif verdict == 'same':
            inside += 1
            if info:
                nontrivial.add((p, lim))
                if len(samples) < 3:
                    samples.append(f'pyrun|{p}|{lim} -> {a}')
        else:
            inside += 1
            fails.append({'kind': 'property-failure', 'component': 'whole run',
                          'program': p, 'cycle_limit': lim, 'python_Machine_run': a,
                          'rust_run_prover': b, 'why': info,
                          'answer_format': 'kind|marks|rulapp|blanks(state:step)|python flags'})
    # tie of the whole-run Python model (PyMachineModel.py_run) to the real Machine.run, on every run
    mo = pyrun_diff.run_bbm([f'{i}|pyrunx|{p}|{lim}' for i, p, lim in cs])    # long timeout: 10^4-cycle runs
    tie = {}
    for i, p, lim in cs:
        a, b = pyx.get(i, 'PYHARNESS-MISSING'), mo.get(i, 'MISSING-M')
        v, info = pyrun_diff.compare_model(a, b)
        tie[v] = tie.get(v, 0) + 1
        if v == 'DIFF':
            diffs.append((i, f'pyrunx|{p}|{lim}', a[:600], b[:600],
                          'tm/machine.py Machine.run + tm/prover.py (real) = PyMachineModel.py_run: ' + info))
    # the guard of theorem C17_py_rs_run_agree (extracted PyRunAgree.run_inside) on every run the model finishes
    done = [(i, p, lim) for i, p, lim in cs if mo.get(i, 'MISSING').split('|')[0] not in ('outside', 'exc', 'MISSING')]
    gd = pyrun_diff.run_bbm([f'{i}|pyguard|{p}|{lim}' for i, p, lim in done])
    rmod = pyrun_diff.run_bbm([f'{i}|prover|{p}|{lim}' for i, p, lim in done])
    holds, why, instances = 0, {}, 0
    for i, p, lim in done:
        g = gd.get(i, 'MISSING')
        if g == '1':
            holds += 1
            m_rs = pyrun_diff.rust_fields(rmod.get(i, 'PANIC'))
            if m_rs != 'PANIC':
                instances += 1
                v2, info2 = classify('|'.join(mo[i].split('|')[:4]) + '|', m_rs)
                if v2 != 'same':       # would contradict the theorem: the extraction or the glue is broken
                    diffs.append((i, f'pyguard|{p}|{lim}', mo[i][:300], m_rs,
                                  'instance of theorem C17_py_rs_run_agree re-observed on the extracted models: ' + info2))
        else:
            k = g.split('|')[-1]
            why[k] = why.get(k, 0) + 1
    cov['whole_runs'] = {
        'total': len(cs), 'inside_quantifier_compared': inside,
        'inside_with_rule_applications': len(nontrivial),
        'outside_quantifier': dict(sorted(outside.items(), key=lambda kv: -kv[1])),
        'outside_total': sum(outside.values()),
        'real_python_vs_python_model': tie,
        'theorem_guard_run_inside': {'evaluated': len(done), 'holds': holds,
                                     'fails_by_reason': dict(sorted(why.items(), key=lambda kv: -kv[1])),
                                     'theorem_instances_reobserved': instances},
    }
    return len(cs), len(nontrivial), samples


# ---------------------------------------------------------------- entry points

def _on_term(_sig, _frm):
    raise SystemExit(143)        # so that the scratch copy is removed on SIGTERM too


def run(rep, tier, seed):
    diffs, fails = [], []
    signal.signal(signal.SIGTERM, _on_term)
    d0 = tree_digest(os.environ.get('BB_REPO_OVERRIDE', '/repo').rstrip('/'))
    scratch, root, tbuild = build_pyext()
    try:
        timing = {'extension_build_s': round(tbuild, 1)}
        # (i) tapes
        t0 = time.time()
        tcs, dist = tape_cases(seed, tier)
        ocs, _ = C12.prog_stream_cases(seed, tier)
        ocs = ocs[:1200]                      # CPython budget (thorough: 5000 ops each)
        om = core.run_bbm([f'{i}|{l}' for i, l in ocs])
        nstream = 0
        for i, _l in ocs:
            ops = om.get(i, '')
            if ops and not ops.startswith(('PANIC', 'MODEL')):
                tcs.append((f'p{i}', '0//', ops))
                nstream += 1
        dist['program_streams'] = nstream
        py, rs, pm, rm = four_way(root, tcs)
        ntr = set()
        tape_bad = []
        for cid, start, ops in tcs:
            a, b = py.get(cid, 'MISSING-PY'), rs.get(cid, 'MISSING-RS')
            c, d = pm.get(cid, 'MISSING-PM'), rm.get(cid, 'MISSING-RM')
            if a != b:
                if b.startswith('PANIC') and d == b:
                    # Rust's u64 arithmetic overflows (e.g. marks() of blocks around 2^62, C12's big-count start tapes) and
                    # the Rust MODEL says so too: a declared limit of the Rust side, outside this property's quantifier
                    dist['tape_streams_outside (rust u64 overflow, modelled)'] = dist.get('tape_streams_outside (rust u64 overflow, modelled)', 0) + 1
                else:
                    tape_bad.append((cid, start, ops))
            if a != c:
                diffs.append((cid, f'pytape|h|{start}|{ops[:300]}', a, c, 'tm.tape.Tape.step (real) = PyTapeModel.py_step'))
            if b != d:
                diffs.append((cid, f'tape3|h|{start}|{ops[:300]}', b, d, 'tape.rs Tape::step (real) = TapeModel.step'))
            if c != d and a == b:
                diffs.append((cid, f'pytape/tape3|h|{start}|{ops[:300]}', c, d, 'PyTapeModel.py_step = TapeModel.step (theorem C17_py_step_eq_rs)'))
            f = a.split('|')
            if len(f) == 3 and f[2].count(':') >= 2:
                ntr.add(f[2].split(' ')[1] if ' ' in f[2] else f[2])
        for cid, start, ops in tape_bad[:3]:
            loc = shrink_tape(root, cid, start, ops)
            if loc:
                fails.append(dict(loc, kind='property-failure', component='tape step',
                                  why='real tm.tape.Tape and real tape.rs Tape disagree on this step'))
            else:
                fails.append({'kind': 'property-failure', 'component': 'tape step', 'start_tape': start,
                              'ops': ops[:2000], 'python': py.get(cid), 'rust': rs.get(cid),
                              'why': 'sequence digests differ'})
        timing['tape_steps_s'] = round(time.time() - t0, 1)
        # (ii) rules
        t0 = time.time()
        nrules = check_rules(root, seed, tier, diffs, fails, dist)
        timing['rule_arithmetic_s'] = round(time.time() - t0, 1)
        # (iii) whole runs
        t0 = time.time()
        cov = {}
        nruns, nrun_nt, rsamples = check_runs(root, seed, tier, fails, dist, cov, diffs)
        timing['whole_runs_s'] = round(time.time() - t0, 1)
        # (iv) components that whole runs rarely reach (sig_compatible, EnumTape, get_rule, get_min_sig)
        t0 = time.time()
        ncomp, cdiffs, cdist = pycomp_diff.check(root, seed, tier)
        diffs.extend(cdiffs)
        dist['components'] = cdist
        timing['components_s'] = round(time.time() - t0, 1)
        rep.coverage.update(cov)
        rep.coverage.update({
            'evaluations': len(tcs) + nrules + nruns + ncomp,
            'distinct_nontrivial': len(ntr) + nrun_nt,
            'tape_sequences': len(tcs),
            'tape_sequences_python_ne_rust': len(tape_bad),
            'rule': 'tape: C12 step sequences (exhaustive short over 3 colours, random long, random start tapes '
                    'with counts to 2^62, op streams of real programs) through the REAL tm.tape.Tape, the REAL '
                    'tape.rs Tape and both Coq models, every step\'s record hashed; rules: random/structured '
                    'count quadruples, count tables and (tape, rule) pairs through tm/rules.py, PyRulesModel and '
                    '(additive, in range) rules.rs; whole runs: Machine(prog).run(n) vs run_prover(prog, n) on '
                    'kind/marks/rulapp/blank record.  non-trivial = distinct final tapes with >= 2 blocks + '
                    'distinct (program, limit) inside the quantifier with at least one rule application',
            'input_distribution': dist,
            'divergences': len(diffs),
            'python_ne_rust': len(fails),
            'timing': timing,
            'samples': [f'pytape|h|{tcs[0][1]}|{tcs[0][2][:120]}',
                        f'pytape|h|{tcs[len(tcs) // 2][1]}|{tcs[len(tcs) // 2][2][:120]}'] + rsamples,
            'explanation': 'Coq: PyTapeModel.py_step = TapeModel.step on every tape without zero counts (same '
                           'tape, same number of cells), all observers equal, additive count_apps/apply_rule and '
                           'additive difference inference equal on stated ranges, with witnesses that the ranges '
                           'are needed.  Runtime: the models are tied to the real Python and the real Rust code '
                           'and the two real implementations are compared directly.  Whole runs: theorem '
                           'C17_py_rs_run_agree (py_run = run_prover on kind, marks, rule applications, blank record '
                           'under the decidable guard run_inside) about the models of tm/machine.py + tm/prover.py and '
                           'of run_prover; the Python model is tied to the real Machine.run on every run here, the '
                           'guard is evaluated on every run here.',
            'python_tree': os.environ.get('BB_REPO_OVERRIDE', '/repo'),
            'tree_digest(src/*.rs,tm/*.py)': d0,
            'exhaustive': False,
        })
        check_tree_stable(d0, root)
    finally:
        shutil.rmtree(scratch, ignore_errors=True)
    return diffs, fails


def search(rep, diffs, fails):
    for f in fails[:8]:
        rep.violation(f, found=True)
    if fails:
        return
    for cid, line, a, b, rel in diffs[:4]:
        rep.violation({'kind': 'correspondence', 'case': line[:2000], 'impl': a[:600], 'model': b[:600],
                       'correspondence': rel}, found=False)


def replay(r):
    """re-run the input of a replay file against the current trees"""
    scratch, root, _ = build_pyext()
    try:
        out = dict(r)
        if r.get('component') == 'tape step':
            py, rs, pm, rm = four_way(root, [('z', r['start_tape'], r['ops'])], mode='v')
            out['now'] = {'python': py.get('z', '').split(';')[-1], 'rust': rs.get('z', '').split(';')[-1],
                          'py_model': pm.get('z', '').split(';')[-1], 'rs_model': rm.get('z', '').split(';')[-1]}
        elif r.get('component') == 'whole run':
            p, lim = r['program'], r['cycle_limit']
            out['now'] = {'python': run_py(root, [f'z|pyrun|{p}|{lim}']).get('z'),
                          'rust': core.run_bbh([f'z|rsrun|{p}|{lim}']).get('z')}
        elif r.get('component') == 'additive rule application':
            out['now'] = {'python': run_py(root, [f'z|pyapply|{r["tape"]}|{r["rule"]}']).get('z'),
                          'rust': core.run_bbh([f'z|apply|{r["tape"]}|{r["rule"]}']).get('z')}
        elif r.get('component') == 'additive difference inference':
            cs = r['counts']
            out['now'] = {'python': run_py(root, [f'z|pydiff|{",".join(map(str, cs))}']).get('z'),
                          'rust': core.run_bbh([f'z|mkrule|{cs[0]}/|{cs[1]}/|{cs[2]}/|{cs[3]}/']).get('z')}
        return out
    finally:
        shutil.rmtree(scratch, ignore_errors=True)
