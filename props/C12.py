"""C12 — compressed tape stays canonical; observers tell the truth."""
import itertools
from lib import core, gen

LEVEL = 'proof'
BBH_FEATURES = []      # harness command families this check needs (fallback build, lib/core.py build_bbh)


def parse_span(s):
    if not s:
        return []
    return [tuple(int(x) for x in b.split(':')) for b in s.split(',')]


def rle(cells):
    out = []
    for c in cells:
        if out and out[-1][0] == c:
            out[-1][1] += 1
        else:
            out.append([c, 1])
    return [tuple(x) for x in out]


def core_fnv(txt):
    h = 0xcbf29ce484222325
    for b in txt.encode():
        h ^= b
        h = (h * 0x100000001b3) & 0xFFFFFFFFFFFFFFFF
    return f'{h:016x}'


def check_record(rec):
    """Independent oracle on ONE record printed by the implementation:
    canonical form + every observer against the implementation's own unroll.
    Returns None or a description of the failed clause."""
    f = rec.split(' ')
    # display contains spaces: fields 0..10 fixed, last = unroll, middle = display
    stepped, tp, marks, blank, el, er, blocks, cnts, lens, sig, sc = f[:11]
    unroll = f[-1]
    display = ' '.join(f[11:-1])
    scan_s, l_s, r_s = tp.split('/')
    scan = int(scan_s)
    l, r = parse_span(l_s), parse_span(r_s)
    for name, s in (('left', l), ('right', r)):
        if any(n < 1 for _, n in s):
            return f'{name} span has an empty block: {s}'
        if any(s[i][0] == s[i + 1][0] for i in range(len(s) - 1)):
            return f'{name} span has two adjacent blocks of one colour: {s}'
        if s and s[-1][0] == 0:
            return f'{name} span ends in a blank block: {s}'
    if unroll == 'big':
        return None
    if unroll.startswith('BAD-UNROLL'):
        return f'unroll() does not have the scanned cell where the left span ends ({unroll})'
    if unroll.startswith('H'):
        # long tape: the implementation printed length + FNV-1a of its unroll(); it must be the expansion of the blocks
        cl = [c for c, n in l for _ in range(n)]
        cr = [c for c, n in r for _ in range(n)]
        want = f"H{len(cl)}:{core_fnv(','.join(map(str, cl)))}/{len(cr)}:{core_fnv(','.join(map(str, cr)))}"
        if unroll != want:
            return f'unroll() is not the expansion of the blocks: {unroll}, blocks give {want}'
    else:
        ul, ur = unroll.split('/')
        cl = [int(x) for x in ul.split(',')] if ul else []
        cr = [int(x) for x in ur.split(',')] if ur else []
        if cl != [c for c, n in l for _ in range(n)] or cr != [c for c, n in r for _ in range(n)]:
            return f'unroll() is not the expansion of the blocks {tp}: {unroll}'
    def strip(x):
        x = list(x)
        while x and x[-1] == 0:
            x.pop()
        return x
    m = sum(1 for c in cl + [scan] + cr if c != 0)
    if int(marks) != m:
        return f'marks {marks} but {m} non-blank cells'
    isblank = (m == 0)
    if (blank == '1') != isblank:
        return f'blank() = {blank} but cells blank = {isblank}'
    if (el == '1') != (scan == 0 and not strip(cl)):
        return f'at_edge(L) = {el} disagrees with cells'
    if (er == '1') != (scan == 0 and not strip(cr)):
        return f'at_edge(R) = {er} disagrees with cells'
    rl, rr = rle(strip(cl)), rle(strip(cr))
    if int(blocks) != len(rl) + len(rr):
        return f'blocks() = {blocks}, cells have {len(rl) + len(rr)} runs'
    want_c = ','.join(str(n) for _, n in rl) + '/' + ','.join(str(n) for _, n in rr)
    if cnts != want_c:
        return f'counts() = {cnts}, cells give {want_c}'
    def sg(x):
        return ','.join(('J' if n == 1 else 'M') + str(c) for c, n in x)
    want_s = f'{scan}/{sg(rl)}/{sg(rr)}'
    if sig != want_s:
        return f'signature() = {sig}, cells give {want_s}'
    def blk(c, n):
        return str(c) if n == 1 else f'{c}^{n}'
    want_d = ' '.join([blk(c, n) for c, n in reversed(rl)] + [f'[{scan}]'] + [blk(c, n) for c, n in rr])
    if display != want_d:
        return f'Display "{display}", cells give "{want_d}"'
    return None


def sig_compat_expected(prev_rec_or_tape, rec):
    """what sig_compatible(prev signature) must answer, read off the records"""
    def parts(tp):
        sc, l, r = tp.split('/')
        return int(sc), parse_span(l), parse_span(r)
    ps, pl, pr_ = parts(prev_rec_or_tape)
    cs, cl, cr = parts(rec.split(' ')[1])
    return (cs == ps and len(cl) >= len(pl) and len(cr) >= len(pr_)
            and all(cl[i][0] == pl[i][0] for i in range(len(pl)))
            and all(cr[i][0] == pr_[i][0] for i in range(len(pr_))))


def check_eq_answer(ans):
    """oracle for a tapeeq answer: == and Hash-equality hold exactly when the cells are equal"""
    f = ans.split('|')
    if len(f) != 4:
        return None
    eq, heq, a, b = f
    ta, ua = a.split(' ')
    tb, ub = b.split(' ')
    if ua == 'big' or ub == 'big':
        return None
    if ua.startswith('H') or ub.startswith('H'):
        def expand(t):
            sc, l_s, r_s = t.split('/')
            return sc + '/' + '/'.join(','.join(str(c) for c, n in parse_span(x) for _ in range(n)) for x in (l_s, r_s))
        ua, ub = expand(ta).split('/', 1)[1], expand(tb).split('/', 1)[1]
    def strip(x):
        x = [int(v) for v in x.split(',')] if x else []
        while x and x[-1] == 0:
            x.pop()
        return x
    cells_eq = (ta.split('/')[0] == tb.split('/')[0]
                and [strip(v) for v in ua.split('/')] == [strip(v) for v in ub.split('/')])
    if (eq == '1') != cells_eq:
        return f'tapes {ta} and {tb}: == answers {eq} but cells equal = {cells_eq}'
    if eq == '1' and heq != '1':
        return f'tapes {ta} and {tb} are == but hash differently'
    return None


def op_field(ops):
    return ';'.join(f'{int(sh)},{co},{int(sk)}' for sh, co, sk in ops)


def cases(seed, tier):
    rng = core.mkrng(seed, 'C12')
    out = []
    dist = {}
    # 1. exhaustive sequences over 3 colours from the blank tape
    L = 5 if tier == 'quick' else 6
    alphabet = [(sh, co, sk) for sh in (0, 1) for co in (0, 1, 2) for sk in (0, 1)]
    n = 0
    for seq in itertools.product(alphabet, repeat=L):
        out.append((f'x{n}', f'tape|h|0//|{op_field(seq)}'))
        n += 1
    dist['exhaustive_len%d_3colours' % L] = n
    # 2. random long sequences over up to 6 colours
    nlong = 40 if tier == 'quick' else 400
    for i in range(nlong):
        cols = rng.randint(2, 6)
        ln = rng.choice([200, 1000, 2000]) if i % 8 else 10000
        # bias: repeat direction/colour to build long blocks and sweeps
        seq = []
        sh, co = rng.randint(0, 1), rng.randrange(cols)
        for _ in range(ln):
            if rng.random() < 0.35:
                sh = rng.randint(0, 1)
            if rng.random() < 0.5:
                co = rng.randrange(cols)
            seq.append((sh, co, int(rng.random() < 0.5)))
        out.append((f'r{i}', f'tape|h|0//|{op_field(seq)}'))
    dist['random_long'] = nlong
    # 3. random (mostly canonical) start tapes, short sequences, big counts
    nst = 3000 if tier == 'quick' else 30000
    for i in range(nst):
        cols = rng.randint(2, 5)
        canonical = rng.random() < 0.85
        big = rng.random() < 0.2
        mc = (1 << 62) if big else 9
        l = gen.random_span(rng, cols, 4, mc, canonical)
        r = gen.random_span(rng, cols, 4, mc, canonical)
        scan = rng.randrange(cols)
        seq = [(rng.randint(0, 1), rng.randrange(cols), rng.randint(0, 1)) for _ in range(rng.randint(1, 12))]
        out.append((f'{"s" if canonical else "n"}{i}', f'tape|h|{gen.tape_field(scan, l, r)}|{op_field(seq)}'))
    dist['random_start_tapes'] = nst
    # 4. equality: pairs of op sequences from the blank tape (same / different cells)
    neq = 6000 if tier == 'quick' else 60000
    for i in range(neq):
        cols = rng.randint(2, 3)
        la = [(rng.randint(0, 1), rng.randrange(cols), rng.randint(0, 1)) for _ in range(rng.randint(0, 6))]
        r = rng.random()
        if r < 0.3:
            lb = list(la)
        elif r < 0.6:                      # same prefix, small variation: prefix-related tapes
            lb = la[:rng.randint(0, len(la))] + [(rng.randint(0, 1), rng.randrange(cols), rng.randint(0, 1))
                                                 for _ in range(rng.randint(0, 2))]
        else:
            lb = [(rng.randint(0, 1), rng.randrange(cols), rng.randint(0, 1)) for _ in range(rng.randint(0, 6))]
        out.append((f'e{i}', f'tapeeq|0//|{op_field(la)}|0//|{op_field(lb)}'))
    dist['equality_pairs'] = neq
    # 5. same cells, different head position: the head inside a run of the scanned colour, moved by j cells
    #    (after seeded change C12-m7: a hand-written PartialEq comparing scan, span lengths and the cell window)
    nsh = 1500 if tier == 'quick' else 15000
    for i in range(nsh):
        cols = rng.randint(2, 4)
        c = rng.randrange(cols)
        a, b = rng.randint(1, 6), rng.randint(1, 6)
        def rest(avoid):
            sp = gen.random_span(rng, cols, 3, 5, True)
            while sp and sp[0][0] == avoid:
                sp = sp[1:]
            return sp
        rl, rr = rest(c), rest(c)
        j = rng.randint(-(a - 1), b - 1) if rng.random() < 0.8 else 0
        ta = gen.tape_field(c, [(c, a)] + rl, [(c, b)] + rr)
        tb = gen.tape_field(c, [(c, a + j)] + rl, [(c, b - j)] + rr)
        out.append((f'q{i}', f'tapeeq|{ta}||{tb}|'))
    dist['equality_shifted_head_pairs'] = nsh
    # 6. long blocks (hundreds to thousands of cells): observers and unroll() on tapes far beyond the 63-cell explicit form
    #    (after seeded change C12-m6: unroll() capped at 1024 cells per block)
    nbig = 300 if tier == 'quick' else 3000
    for i in range(nbig):
        cols = rng.randint(2, 5)
        def bigspan():
            sp = gen.random_span(rng, cols, 4, 9, True)
            return [(c0, n if rng.random() < 0.5 else rng.choice([64, 100, 1023, 1024, 1025, 2000, 5000])) for c0, n in sp]
        l, r = bigspan(), bigspan()
        scan = rng.randrange(cols)
        seq = [(rng.randint(0, 1), rng.randrange(cols), rng.randint(0, 1)) for _ in range(rng.randint(1, 8))]
        out.append((f's{nst + i}', f'tape|h|{gen.tape_field(scan, l, r)}|{op_field(seq)}'))
    dist['long_block_tapes'] = nbig
    # 7. block lengths ON the integer-width boundaries (2^16, 2^31, 2^32, 2^33, k*2^32 and their neighbours): a step that
    #    pulls one cell from such a block must leave exactly one cell less (after seeded change C12-m8: `count as u32`)
    BOUND = [2 ** 16, 2 ** 16 + 1, 2 ** 31 - 1, 2 ** 31, 2 ** 31 + 1, 2 ** 32 - 1, 2 ** 32, 2 ** 32 + 1, 2 ** 32 + 2,
             2 ** 33, 2 ** 33 + 1, 3 * 2 ** 32, 3 * 2 ** 32 + 1, 2 ** 48, 2 ** 48 + 1, 2 ** 60]     # (sums stay below 2^64: marks() is a u64)
    nbd = 600 if tier == 'quick' else 6000
    for i in range(nbd):
        cols = rng.randint(2, 4)
        def bspan():
            sp = gen.random_span(rng, cols, 3, 5, True)
            if sp and rng.random() < 0.8:
                c0, _n = sp[0]
                sp[0] = (c0, rng.choice(BOUND))
            return sp
        l, r = bspan(), bspan()
        scan = rng.randrange(cols)
        # walk into the long blocks with plain (non-sweep) steps in both directions
        seq = [(rng.randint(0, 1), rng.randrange(cols), 0 if rng.random() < 0.85 else 1) for _ in range(rng.randint(2, 7))]
        out.append((f's{nst + nbig + i}', f'tape|h|{gen.tape_field(scan, l, r)}|{op_field(seq)}'))
    dist['width_boundary_tapes'] = nbd
    return out, dist


def prog_stream_cases(seed, tier):
    """second stage: op streams of real programs (computed by the model)"""
    rng = core.mkrng(seed, 'C12p')
    progs = gen.named_machines()
    nrand = 150 if tier == 'quick' else 1500
    for i in range(nrand):
        S, C = rng.choice([(2, 2), (3, 2), (2, 3), (4, 2), (2, 4), (3, 3), (5, 2), (6, 6)])
        progs.append(gen.prog_text(gen.random_table(rng, S, C, 0.05)))
    if tier == 'quick':
        progs = progs[:400]
    return [(f'o{i}', f'ops|{p}|{1500 if tier == "quick" else 5000}') for i, p in enumerate(progs)], progs


def run(rep, tier, seed):
    cs, dist = cases(seed, tier)
    # op streams of real programs
    ocs, progs = prog_stream_cases(seed, tier)
    om = core.run_bbm([f'{i}|{l}' for i, l in ocs])
    for (i, l) in ocs:
        ops = om.get(i, '')
        if ops and not ops.startswith(('PANIC', 'MODEL')):
            cs.append((f'p{i}', f'tape|h|0//|{ops}'))
    dist['program_streams'] = len(ocs)
    lines = [f'{i}|{l}' for i, l in cs]
    h = core.run_bbh(lines)
    m = core.run_bbm(lines)
    diffs = core.diff_answers(cs, h, m)
    # oracle on the implementation's own final records
    fails = []
    nontrivial = set()
    for cid, line in cs:
        a = h.get(cid, '')
        parts = a.split('|')
        if len(parts) == 3 and ' ' in parts[2]:
            # non-canonical start tapes (ids n*) are outside the property: correspondence only
            why = None if cid.startswith('n') else check_record(parts[2])
            if why:
                fails.append((cid, line, why))
            tp = parts[2].split(' ')[1]
            if tp.count(':') >= 2:
                nontrivial.add(tp)
        elif cid.startswith('e'):
            why = check_eq_answer(a)
            if why:
                fails.append((cid, line, why))
    rep.coverage.update({
        'evaluations': len(cs),
        'distinct_nontrivial': len(nontrivial),
        'rule': 'step sequences (direction, colour, sweep flag): exhaustive over 3 colours from the blank tape, '
                'random long sequences over <= 6 colours, random start tapes incl. counts to 2^62 and '
                'non-canonical ones, and op streams of real programs; every step\'s full observer record is '
                'hashed and compared between /repo (bbh) and the Coq model (bbm); non-trivial = distinct final '
                'tapes with >= 2 blocks',
        'input_distribution': dist,
        'divergences': len(diffs),
        'samples': [cs[0][1][:200], cs[len(cs) // 2][1][:200], cs[-1][1][:200]],
        'exhaustive': False,
    })
    return diffs, fails


def localise(cid, line):
    """re-run a diverging tape case verbosely, find the first differing step"""
    f = line.split('|')
    vline = f'{cid}|tape|v|{f[2]}|{f[3]}'
    h = core.run_bbh([vline]).get(cid, '')
    m = core.run_bbm([vline]).get(cid, '')
    hr, mr = h.split(';'), m.split(';')
    ops = f[3].split(';')
    for k in range(max(len(hr), len(mr))):
        a = hr[k] if k < len(hr) else 'MISSING'
        b = mr[k] if k < len(mr) else 'MISSING'
        if a != b:
            return {'start_tape': f[2], 'ops': ops[:k + 1], 'step': k, 'impl': a, 'model': b,
                    'records_before': hr[max(0, k - 1):k]}
    return {'start_tape': f[2], 'ops': ops, 'impl': h[:300], 'model': m[:300]}


def oracle_step(tp, op):
    """Independent run-length reading of the CELL semantics of one step (written from the property text, not from
    tape.rs): write the colour, move one cell; with the sweep flag keep writing and moving while the cell under the
    head equals the colour scanned at the start.  tp = 'scan/l/r' (nearest block first); op = (shift, colour, skip).
    -> (tape field expected, cells moved)"""
    sc_s, l_s, r_s = tp.split('/')
    s0 = int(sc_s)
    l, r = [list(b) for b in parse_span(l_s)], [list(b) for b in parse_span(r_s)]
    sh, co, sk = op
    pull, push = (r, l) if sh else (l, r)
    n = 1
    if sk and pull and pull[0][0] == s0:
        n += pull[0][1]
        pull.pop(0)
    if pull:
        scan = pull[0][0]
        pull[0][1] -= 1
        if pull[0][1] == 0:
            pull.pop(0)
    else:
        scan = 0
    if push and push[0][0] == co:
        push[0][1] += n
    elif push or co != 0:
        push.insert(0, [co, n])
    return gen.tape_field(scan, [tuple(b) for b in l], [tuple(b) for b in r]), n


def search(rep, diffs, fails):
    """Turn divergences / oracle failures into violations with replays."""
    for cid, line, why in fails[:5]:
        rep.violation({'kind': 'property-failure', 'case': line[:2000], 'why': why}, found=True)
    if fails:
        return
    for cid, line, a, b in diffs[:3]:
        if line.startswith('tapeeq'):
            why = check_eq_answer(a)
            rep.violation({'kind': 'property-failure' if why else 'correspondence', 'case': line, 'impl': a, 'model': b,
                           'why': why, 'correspondence': 'bbh Tape == / Hash = TapeModel.tape_eqb'}, found=bool(why))
            continue
        loc = localise(cid, line)
        # does the property itself fail on the implementation's records?
        why = None
        f = line.split('|')
        vline = f'{cid}|tape|v|{f[2]}|{f[3]}'
        h = core.run_bbh([vline]).get(cid, '')
        prev_tape = f[2]
        oplist = [tuple(int(x) for x in o.split(',')) for o in f[3].split(';')] if f[3] else []
        for k, r in enumerate(h.split(';')):
            try:
                why = check_record(r)
                if not why and k < len(oplist):
                    want_tp, want_n = oracle_step(prev_tape, oplist[k])
                    got_n, got_tp = r.split(' ')[0], r.split(' ')[1]
                    if (got_tp, got_n) != (want_tp, str(want_n)):
                        why = (f'step {oplist[k]} from {prev_tape}: the implementation gives {got_tp} after {got_n} cells, '
                               f'the cell semantics (write, move, sweep while the scanned colour repeats) gives {want_tp} after {want_n}')
                if not why:
                    want = sig_compat_expected(prev_tape, r)
                    got = r.split(' ')[10] == '1'
                    if want != got:
                        why = (f'sig_compatible(signature of the previous tape {prev_tape}) answers {got}, '
                               f'the block colours say {want}')
                prev_tape = r.split(' ')[1]
            except Exception as ex:          # malformed record (e.g. PANIC)
                why = f'unreadable record: {r[:80]}'
            if why:
                loc['failing_step'] = k
                loc['why'] = why
                break
        if why:
            rep.violation(dict(loc, kind='property-failure'), found=True)
        else:
            rep.violation(dict(loc, kind='correspondence',
                               correspondence='bbh Tape::step/observers = TapeModel.step/observers'),
                          found=False)
