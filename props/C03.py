"""C03 — every rule application is a run of real machine steps."""
from lib import core
from props import C02

LEVEL = 'other'
BBH_FEATURES = ['prover', 'oracle', 'py']      # harness command families this check needs (fallback build, lib/core.py build_bbh)


def parse_tape(tp):
    sc, l, r = tp.split('/')
    ps = lambda s: [tuple(int(x) for x in b.split(':')) for b in s.split(',')] if s else []
    return int(sc), ps(l), ps(r)


def cost(before, after, rule):
    """upper estimate of the base steps one application stands for: sum of |count changes| x tape length"""
    _, bl, br = parse_tape(before)
    _, al, ar = parse_tape(after)
    change = sum(abs(a[1] - b[1]) for a, b in zip(al + ar, bl + br))
    size = sum(n for _, n in al + ar + bl + br)
    return change * max(size, 1)


def fmt_tape(sc, l, r):
    return f"{sc}/{','.join(f'{c}:{n}' for c, n in l)}/{','.join(f'{c}:{n}' for c, n in r)}"


def parse_rule(rule):
    """'L0:-3,R0:+5' -> [('L', 0, -3), ('R', 0, 5)] (only additive rules are ever applied by run_prover)"""
    out = []
    for part in rule.split(','):
        k, d = part.split(':')
        out.append((k[0], int(k[1:]), int(d)))
    return out


def tape_at(before, rule, k):
    """the tape after k applications of the additive rule (k may be -1); None if a count would be < 1"""
    sc, l, r = parse_tape(before)
    l, r = [list(b) for b in l], [list(b) for b in r]
    for side, i, d in parse_rule(rule):
        span = l if side == 'L' else r
        if i >= len(span):
            return None
        span[i][1] += k * d
        if span[i][1] < 1:
            return None
    return fmt_tape(sc, l, r)


def boundary_checks(allapps, tier):
    """Single-application replays at the END of every application (whatever its size): the applications number
    times-3, times-2, times-1 (0-based) are replayed one at a time by the verified checker; an application is
    flagged when its predecessor in this chain is a real run of c cycles and it is itself not reached within
    20c + 20000 cycles (or the machine stops first).  This is where the rule's guard `count > |diff|` is tightest
    (finding F14).  -> (flags, stats)"""
    fref = 100_000 if tier == 'quick' else 500_000
    chains = {}
    for app in allapps:
        aid, p, st, before, rule, times, after = app
        times = int(times)
        try:
            ks = list(range(max(0, times - 3), times)) if times >= 2 else [-1, 0]
            tapes = {k: tape_at(before, rule, k) for k in ks + [ks[-1] + 1]}
        except (ValueError, IndexError):
            continue
        if tapes[ks[-1] + 1] != after:          # not an additive application of this rule: part (a)/(b) deal with it
            continue
        ks = [k for k in ks if tapes[k] is not None]
        if len(ks) >= 2:
            chains[aid] = (app, ks, tapes)
    state = {aid: (0, fref) for aid in chains}          # position in the chain, fuel
    cyc = {}
    flags = []
    stats = {'boundary_chains': len(chains), 'boundary_applications_replayed': 0, 'boundary_reference_not_reached': 0,
             'boundary_flagged': 0}
    for rnd in range(3):
        lines = []
        for aid, (pos, fuel) in state.items():
            app, ks, tapes = chains[aid]
            if pos < len(ks):
                k = ks[pos]
                lines.append(f'{aid}|replay|{app[1]}|{app[2]}|{tapes[k]}|{app[2]}|{tapes[k + 1]}|{fuel}')
        if not lines:
            break
        o = core.run_bbm(lines)
        for aid in list(state):
            pos, fuel = state[aid]
            app, ks, tapes = chains[aid]
            if pos >= len(ks):
                continue
            a = o.get(aid, '')
            k = ks[pos]
            if a.startswith('reached'):
                c = int(a.split(':')[1])
                cyc[(aid, k)] = c
                stats['boundary_applications_replayed'] += 1
                state[aid] = (pos + 1, 20 * c + 20000)
            elif pos == 0:
                stats['boundary_reference_not_reached'] += 1
                state[aid] = (len(ks), 0)
            else:
                cprev = cyc[(aid, ks[pos - 1])]
                what = (f'the real machine halts or spins out after {a.split(":")[1]} cycles' if a.startswith('stopped')
                        else f'not reached within {fuel} cycles')
                flags.append((aid, app, k, tapes[k], tapes[k + 1], cprev, what, a.startswith('stopped')))
                stats['boundary_flagged'] += 1
                state[aid] = (len(ks), 0)
    return flags, stats


def tape_sig(field):
    sc, l, r = field.split('/')
    sp = lambda x: tuple((b.split(':')[0], b.split(':')[1] == '1') for b in x.split(',')) if x else ()
    return (sc, sp(l), sp(r))


def certify(allapps, tier):
    """The Coq-verified symbolic rule checker (Model/SymRule.v, theorem C03_cover_sig_apply_sound): one certificate per
    distinct (program, state, signature of the tape, rule); `complete` = every application of this rule by apply_rule on
    every canonical tape with this signature is a run of the real machine (for ALL counts, whatever the size).
    -> ({aid: 'complete' | 'above' | 'nocert:<why>'}, stats)"""
    cycles = 500 if tier == 'quick' else 2000
    keys = {}
    for app in allapps:
        aid, p, st, before, rule, times, after = app
        keys.setdefault((p, st, tape_sig(before), rule), app)
    kl = list(keys)
    o = core.run_bbm([f'c{i}|symcert|{k[0]}|{k[1]}|{keys[k][3]}|{k[3]}|{cycles}' for i, k in enumerate(kl)])
    cls = {}
    for i, k in enumerate(kl):
        f = o.get(f'c{i}', 'nocert|missing').split('|')
        cls[k] = f[-1] if f[0] == 'cert' else f'nocert:{f[1]}'
    out = {}
    stats = {'rules_distinct': len(kl), 'rules_certified_all_counts': sum(1 for v in cls.values() if v == 'complete'),
             'rules_certified_above_threshold_only': sum(1 for v in cls.values() if v == 'above'),
             'rules_not_certified': {}}
    for v in cls.values():
        if v.startswith('nocert'):
            stats['rules_not_certified'][v[7:]] = stats['rules_not_certified'].get(v[7:], 0) + 1
    for app in allapps:
        out[app[0]] = cls[(app[1], app[2], tape_sig(app[3]), app[4])]
    return out, stats


def collect_apps(cs, h, budget):
    """distinct applications of the traces: (replayable within the budget, all)"""
    apps, allapps = [], []
    seen = set()
    for cid, p, lim in cs:
        r = C02.parse_answer(h.get(cid, ''))
        if not r:
            continue
        for j, a in enumerate(r['apps']):
            f = a.split(' ')
            if len(f) != 6:
                continue
            cyc, st, before, rule, times, after = f
            key = (p, st, before, after)
            if key in seen:
                continue
            seen.add(key)
            app = (f'{cid}.{j}', p, st, before, rule, times, after)
            allapps.append(app)
            if cost(before, after, rule) <= budget:
                apps.append(app)
    return apps, allapps


def f16_check(cands):
    """F16 (EnumTape records nothing when a zero is pushed onto an EMPTY span, so the rule's minimal signature on that side
    is empty and not edge-exact): an application (aid, p, st, before, rule, times, after) is in the class iff the rule has
    no entry on a side X, `before` has a non-empty span on side X, and the real machine DOES reach (verified replay) the
    tape `after` with a block of k zeros inserted next to the head on side X, for some k <= 64.  -> {aid: (side, k, cycles)}"""
    lines, meta = [], {}
    for app in cands:
        aid, p, st, before, rule, times, after = app
        try:
            sides = {e[0] for e in parse_rule(rule)}
            sb, bl, br = parse_tape(before)
            sa, al, ar = parse_tape(after)
        except (ValueError, IndexError):
            continue
        for X in ('L', 'R'):
            if X in sides or not (bl if X == 'L' else br):
                continue
            if (al if X == 'L' else ar) and (al if X == 'L' else ar)[0][0] == 0:
                continue
            for k in range(1, 65):
                l2 = ([(0, k)] + al) if X == 'L' else al
                r2 = ([(0, k)] + ar) if X == 'R' else ar
                cid = f'{aid}~{X}{k}'
                lines.append(f'{cid}|replay|{p}|{st}|{before}|{st}|{fmt_tape(sa, l2, r2)}|20000')
                meta[cid] = (aid, X, k)
    if not lines:
        return {}
    o = core.run_bbm(lines)
    out = {}
    for cid, a in o.items():
        if a.startswith('reached') and cid in meta:
            aid, X, k = meta[cid]
            out.setdefault(aid, (X, k, int(a.split(':')[1])))
    return out


def f16_text(app, hit):
    aid, p, st, before, rule, times, after = app
    X, k, c = hit
    side = 'left' if X == 'L' else 'right'
    return (f'F16 class: "{p}" state {st}: application {before} --{rule} x{times}--> {after} is not a run of the machine: the rule '
            f'has no entry on the {side} and was applied where the {side} span is not empty; the real machine reaches (verified '
            f'replay, {c} cycles) the same tape with a block of {k} zeros next to the head on the {side}')


def f14_text(flag):
    aid, app, k, tk, tk1, cprev, what, decisive = flag
    return (f'F14 class: "{app[1]}" state {app[2]}: application {app[3]} --{app[4]} x{app[5]}--> {app[6]}: its application no. {k + 1} '
            f'({tk} -> {tk1}) is {what}, while the application before it is a real run of {cprev} cycles')


def run(rep, tier, seed):
    cs, dist = C02.corpus(seed, tier)
    h, m, diffs = C02.run_traces(cs)
    budget = 3_000_000 if tier == 'quick' else 200_000_000       # estimated base-step cost per application
    fuel = 200_000 if tier == 'quick' else 5_000_000             # cycles of the verified replay
    apps, allapps = collect_apps(cs, h, budget)
    unreplayed = len(allapps) - len(apps)
    fails = []
    # (a) no block driven to zero or below; shape preserved
    for aid, p, st, before, rule, times, after in allapps:
        sb, bl, br = parse_tape(before)
        sa, al, ar = parse_tape(after)
        if any(n < 1 for _, n in al + ar):
            fails.append((aid, p, f'application leaves a block with count < 1: {before} --{rule} x{times}--> {after}'))
        elif sa != sb or [c for c, _ in al] != [c for c, _ in bl] or [c for c, _ in ar] != [c for c, _ in br]:
            fails.append((aid, p, f'application changes colours/scan: {before} --{rule} x{times}--> {after}'))
    # (b) the verified replay checker: the configuration after is reached from the one before by real steps
    o = core.run_bbm([f'{aid}|replay|{p}|{st}|{before}|{st}|{after}|{fuel}' for aid, p, st, before, rule, times, after in apps])
    reached = stopped = nofuel = 0
    for aid, p, st, before, rule, times, after in apps:
        a = o.get(aid, '')
        if a.startswith('reached'):
            reached += 1
        elif a.startswith('stopped'):
            stopped += 1
            fails.append((aid, p, f'state {st}: {before} --{rule} x{times}--> {after} is NOT reached: the real machine '
                                  f'halts or spins out after {a.split(":")[1]} cycles (verified replay)'))
        else:
            nofuel += 1
    # (b') the prover's STORED rules with their minimal signatures and edge flags (second hook), code vs model:
    # MinSig / EnumTape offsets and edges are the state the property is anchored in; a deviation there usually
    # does not change any application in the same run (added after the self-test sweep: a mutant of get_min_sig survived)
    rr = [(cid, p, lim) for cid, p, lim in cs if (C02.parse_answer(h.get(cid, '')) or {'napps': 0})['napps'] > 0]
    rl = [f'{cid}R|proverrules|{p}|{lim}' for cid, p, lim in rr]
    hr, mr = core.run_bbh(rl), core.run_bbm(rl)
    nrules = 0
    for cid, p, lim in rr:
        a, b = hr.get(cid + 'R', 'MISSING-H'), mr.get(cid + 'R', 'MISSING-M')
        if a != b:
            diffs.append((cid, f'proverrules|{p}|{lim}', a[:300], b[:300]))
        elif '|' in a:
            nrules += int(a.split('|')[0])
    rep.coverage['stored_rules_compared'] = {'runs': len(rr), 'rules': nrules}
    # (c) the last applications of EVERY application (also those over the budget), one at a time
    flags, bstats = boundary_checks(allapps, tier)
    diverging = {d[0] for d in diffs}
    nf14 = 0
    for fl in flags:
        aid, app = fl[0], fl[1]
        if aid.split('.')[0] in diverging:      # the code does not do what the pinned code (= the model) does here
            fails.append((aid, app[1], f14_text(fl).replace('F14 class: ', '')))
        else:
            nf14 += 1
            if nf14 <= 4:
                rep.known_finding(f14_text(fl))
    # F16: applications refuted by the whole replay (or flagged above) that are explained by zeros written next to the head
    byaid = {a[0]: a for a in allapps}
    suspects = [byaid[f[0]] for f in fails if f[0] in byaid] + [fl[1] for fl in flags]
    hits16 = {aid: h16 for aid, h16 in f16_check(suspects).items() if aid.split('.')[0] not in diverging}
    for k16, (aid, h16) in enumerate(sorted(hits16.items())):
        if k16 < 3:
            rep.known_finding(f16_text(byaid[aid], h16))
    if hits16:
        kf16 = [f for f in core.known_findings()['open'] if f['id'] == 'F16'][0]
        rep.known_finding(f'F16 class ({kf16["site"]}): {len(hits16)} rule applications in this run; the faithful model applies them identically')
    rep.coverage['known_F16_applications'] = len(hits16)
    fails = [f for f in fails if f[0] not in hits16]
    flags = [fl for fl in flags if fl[0] not in hits16]
    f14_aids = {fl[0] for fl in flags if fl[0].split('.')[0] not in diverging}
    # the whole-application replay of such an application fails too (part b): same finding, reported once
    fails = [f for f in fails if f[0] not in f14_aids]
    if nf14:
        kf = [f for f in core.known_findings()['open'] if f['id'] == 'F14'][0]
        rep.known_finding(f'F14 class ({kf["site"]}): {nf14} rule applications in this run whose final application is not a run of '
                          f'the real machine although the one before it is; the faithful model applies them identically')
    rep.coverage.update(bstats)
    rep.coverage['boundary_known_F14'] = nf14
    # (d) the verified symbolic checker: applications proved real for all counts
    cert, cstats = certify(allapps, tier)
    flagged = {fl[0] for fl in flags}
    proved = sum(1 for a in allapps if cert[a[0]] == 'complete')
    replayed_ok = {aid for aid, *_ in apps if o.get(aid, '').startswith('reached')}
    decided = sum(1 for a in allapps if cert[a[0]] == 'complete' or a[0] in replayed_ok or a[0] in flagged)
    for a in allapps:                       # a certificate and a refuting replay cannot both be right
        if cert[a[0]] == 'complete' and (a[0] in flagged or o.get(a[0], '').startswith('stopped')):
            fails.append((a[0], a[1], f'state {a[2]}: {a[3]} --{a[4]} x{a[5]}--> {a[6]}: certified by the symbolic checker for this '
                                      f'signature but the concrete replay does not reach it (the recorded application is not apply_rule)'))
    rep.coverage.update(cstats)
    rep.coverage.update({'applications_proved_real_by_certificate': proved, 'applications_decided': decided,
                         'applications_undecided': len(allapps) - decided})
    rep.coverage.update({
        'evaluations': len(apps) + unreplayed,
        'distinct_nontrivial': reached,
        'rule': 'every distinct rule application (state, tape before, rule, times, tape after) reported by the bb_verif hook in the '
                'C02 corpus runs; each one whose estimated cost fits the budget is re-validated by the Coq-verified replay checker '
                '(ReplayModel.replay3, soundness ReplaySound.replay_sound): the compressed simulator proved correct in C01 runs from '
                'the configuration before until it meets the configuration after, with no halt and no spin-out on the way; also no block '
                'count < 1 and colours unchanged; every distinct (program, state, tape signature, rule) is submitted to the Coq-verified symbolic rule '
                'checker (C03_cover_sig_apply_sound: a certificate proves all applications of the rule on tapes of that signature real, for all '
                'counts, so also those over the replay budget); in addition the LAST three single applications of every application, whatever its size, are '
                'replayed one at a time (the rule guard count > |diff| is tightest there: finding F14); non-trivial = applications '
                'confirmed as real runs',
        'input_distribution': dist, 'applications_distinct': len(apps) + unreplayed, 'replayed_reached': reached,
        'replay_stopped': stopped, 'replay_out_of_fuel': nofuel, 'unreplayed_over_budget': unreplayed,
        'divergences': len(diffs),
        'samples': [' '.join(a[2:]) for a in apps[:3]],
        'explanation': 'conditional theorem (apply_sound given RuleValid) + per-application verified replay; see MANIFEST',
    })
    return diffs, [(aid, f'app|{p}', why) for aid, p, why in fails]


def search(rep, diffs, fails):
    for aid, line, why in fails[:3]:
        rep.violation({'kind': 'property-failure', 'program': line.split('|')[1], 'application': aid, 'why': why}, found=True)
    if fails:
        return
    # divergence only: look for an application of the IMPLEMENTATION on the diverging programs (also at larger limits)
    # that is not a run of the real machine
    progs = []
    for cid, line, a, b in diffs[:40]:
        f = line.split('|')
        if len(f) >= 3 and f[1] not in progs:
            progs.append(f[1])
    extra = [(f'x{i}_{lim}', p, lim) for i, p in enumerate(progs) for lim in (300, 1000, 3000)]
    if extra:
        hx = core.run_bbh([f'{cid}|provertrace|{p}|{lim}' for cid, p, lim in extra])
        _, allx = collect_apps(extra, hx, 0)
        allx = [a for a in allx if cost(a[3], a[6], a[4]) <= 30_000_000][:4000]
        ox = core.run_bbm([f'{aid}|replay|{p}|{st}|{before}|{st}|{after}|300000' for aid, p, st, before, rule, times, after in allx])
        bad = [(a, ox.get(a[0], '')) for a in allx if ox.get(a[0], '').startswith('stopped')]
        flx, _ = boundary_checks(allx, 'quick')
        model = core.run_bbm([f'{cid}|provertrace|{p}|{lim}' for cid, p, lim in extra])
        same = {cid for cid, p, lim in extra if model.get(cid) == hx.get(cid)}
        for a, res in bad[:2]:
            if a[0].split('.')[0] not in same:
                rep.violation({'kind': 'property-failure', 'program': a[1], 'application': ' '.join(a[2:]),
                               'why': f'state {a[2]}: {a[3]} --{a[4]} x{a[5]}--> {a[6]} is NOT reached: the real machine halts or spins '
                                      f'out after {res.split(":")[1]} cycles (verified replay); the faithful model does not make this application'},
                              found=True)
                return
        for fl in flx[:2]:
            if fl[0].split('.')[0] not in same:
                rep.violation({'kind': 'property-failure', 'program': fl[1][1], 'why': f14_text(fl).replace('F14 class: ', '')
                               + '; the faithful model does not make this application'}, found=True)
                return
    cid, line, a, b = diffs[0]
    rep.violation({'kind': 'correspondence', 'case': line, 'impl': a, 'model': b, 'divergences': len(diffs),
                   'correspondence': 'bbh run_prover application trace = ProverModel.run_prover_trace'}, found=False)
