"""C03 — every rule application is a run of real machine steps."""
from lib import core
from props import C02

LEVEL = 'other'


def parse_tape(tp):
    sc, l, r = tp.split('/')
    ps = lambda s: [tuple(int(x) for x in b.split(':')) for b in s.split(',')] if s else []
    return int(sc), ps(l), ps(r)


def cost(before, after, rule):
    """upper estimate of the base steps one application stands for: sum of |count changes| x tape length"""
    _, bl, br = parse_tape(before)
    _, al, ar = parse_tape(after)
    change = sum(abs(a[1] - b[1]) for a, b in zip(al + ar, bl + br))
    size = sum(n for _, n in al + ar + bl + br)
    return change * max(size, 1)


def run(rep, tier, seed):
    cs, dist = C02.corpus(seed, tier)
    h, m, diffs = C02.run_traces(cs)
    budget = 3_000_000 if tier == 'quick' else 200_000_000       # estimated base-step cost per application
    fuel = 200_000 if tier == 'quick' else 5_000_000             # cycles of the verified replay
    apps = []
    unreplayed = 0
    seen = set()
    for cid, p, lim in cs:
        r = C02.parse_answer(h.get(cid, ''))
        if not r:
            continue
        for j, a in enumerate(r['apps']):
            f = a.split(' ')
            if len(f) != 6:
                continue
            cyc, st, before, rule, times, after = f
            key = (p, st, before, after)
            if key in seen:
                continue
            seen.add(key)
            if cost(before, after, rule) > budget:
                unreplayed += 1
                continue
            apps.append((f'{cid}.{j}', p, st, before, rule, times, after))
    fails = []
    # (a) no block driven to zero or below; shape preserved
    for aid, p, st, before, rule, times, after in apps:
        sb, bl, br = parse_tape(before)
        sa, al, ar = parse_tape(after)
        if any(n < 1 for _, n in al + ar):
            fails.append((aid, p, f'application leaves a block with count < 1: {before} --{rule} x{times}--> {after}'))
        elif sa != sb or [c for c, _ in al] != [c for c, _ in bl] or [c for c, _ in ar] != [c for c, _ in br]:
            fails.append((aid, p, f'application changes colours/scan: {before} --{rule} x{times}--> {after}'))
    # (b) the verified replay checker: the configuration after is reached from the one before by real steps
    o = core.run_bbm([f'{aid}|replay|{p}|{st}|{before}|{st}|{after}|{fuel}' for aid, p, st, before, rule, times, after in apps])
    reached = stopped = nofuel = 0
    for aid, p, st, before, rule, times, after in apps:
        a = o.get(aid, '')
        if a.startswith('reached'):
            reached += 1
        elif a.startswith('stopped'):
            stopped += 1
            fails.append((aid, p, f'state {st}: {before} --{rule} x{times}--> {after} is NOT reached: the real machine '
                                  f'halts or spins out after {a.split(":")[1]} cycles (verified replay)'))
        else:
            nofuel += 1
    rep.coverage.update({
        'evaluations': len(apps) + unreplayed,
        'distinct_nontrivial': reached,
        'rule': 'every distinct rule application (state, tape before, rule, times, tape after) reported by the bb_verif hook in the '
                'C02 corpus runs; each one whose estimated cost fits the budget is re-validated by the Coq-verified replay checker '
                '(ReplayModel.replay3, soundness ReplaySound.replay_sound): the compressed simulator proved correct in C01 runs from '
                'the configuration before until it meets the configuration after, with no halt and no spin-out on the way; also no block '
                'count < 1 and colours unchanged; non-trivial = applications confirmed as real runs',
        'input_distribution': dist, 'applications_distinct': len(apps) + unreplayed, 'replayed_reached': reached,
        'replay_stopped': stopped, 'replay_out_of_fuel': nofuel, 'unreplayed_over_budget': unreplayed,
        'divergences': len(diffs),
        'samples': [' '.join(a[2:]) for a in apps[:3]],
        'explanation': 'conditional theorem (apply_sound given RuleValid) + per-application verified replay; see MANIFEST',
    })
    return diffs, [(aid, f'app|{p}', why) for aid, p, why in fails]


def search(rep, diffs, fails):
    for aid, line, why in fails[:3]:
        rep.violation({'kind': 'property-failure', 'program': line.split('|')[1], 'application': aid, 'why': why}, found=True)
    if fails:
        return
    cid, line, a, b = diffs[0]
    rep.violation({'kind': 'correspondence', 'case': line, 'impl': a, 'model': b, 'divergences': len(diffs),
                   'correspondence': 'bbh run_prover application trace = ProverModel.run_prover_trace'}, found=False)
