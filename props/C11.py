"""C11 — rule arithmetic is exact (make_rule / count_apps / apply_rule of rules.rs)."""
import glob
import itertools
import os

from lib import core

LEVEL = 'proof'
BBH_FEATURES = []      # harness command families this check needs (fallback build, lib/core.py build_bbh)
ASSUMPTIONS = [
    'theorems speak about answers (model returns Ok); a Rust panic (unimplemented!() on Mult, index beyond the '
    'span, overflowing + under overflow-checks) is "no answer" and is tied by correspondence only',
    'C11_diff_exact / C11_make_rule_exact: the three true successive differences are < 2^31 in absolute value '
    '(sharp: C11_diff_boundary, finding F6)',
    'C11_apply_exact: rule keys pairwise distinct (a BTreeMap in the code)',
]
CORRESPONDENCE = ('bbh rules::make_rule / ApplyRule::count_apps / ApplyRule::apply_rule (on BasicTape) = '
                  'RulesModel.make_rule / count_apps / apply_rule')

U64 = (1 << 64) - 1
B31 = 1 << 31
CORPUS = os.path.join(core.VERIF, 'corpus', 'C11')


# ---------------------------------------------------------------- text <-> values

def parse_span(s):
    return [tuple(int(x) for x in b.split(':')) for b in s.split(',')] if s else []


def parse_tape(f):
    sc, l, r = f.split('/')
    return int(sc), parse_span(l), parse_span(r)


def span_field(s):
    return ','.join(f'{c}:{n}' for c, n in s)


def tape_field(sc, l, r):
    return f'{sc}/{span_field(l)}/{span_field(r)}'


def parse_rule(f):
    """[( (side, pos), ('+', d) | ('*', q, r) )] in textual order; side True = right"""
    out = []
    if not f:
        return out
    for e in f.split(','):
        ix, o = e.split(':')
        key = (ix[0] == 'R', int(ix[1:]))
        if o[0] == '*':
            q, r = o[1:].split('_')
            out.append((key, ('*', int(q), int(r))))
        else:
            out.append((key, ('+', int(o))))
    return out


def rule_field(entries):
    """entries: {(side, pos): d} or list of ((side, pos), d | ('*', q, r)); emitted in key order"""
    items = sorted(entries.items() if isinstance(entries, dict) else entries, key=lambda e: e[0])
    parts = []
    for (side, pos), o in items:
        name = f'{"R" if side else "L"}{pos}'
        if isinstance(o, tuple):
            parts.append(f'{name}:*{o[1]}_{o[2]}')
        else:
            parts.append(f'{name}:{o:+d}')
    return ','.join(parts)


def parse_counts(f):
    l, r = f.split('/')
    return ([int(x) for x in l.split(',')] if l else []), ([int(x) for x in r.split(',')] if r else [])


def counts_field(l, r):
    return ','.join(map(str, l)) + '/' + ','.join(map(str, r))


# ---------------------------------------------------------------- the oracle (Python integers only)

def in_scope_rule(tape, rule):
    """all ops additive, keys distinct, every index inside its span"""
    sc, l, r = tape
    seen = set()
    for key, o in rule:
        if o[0] != '+' or key in seen:
            return False
        seen.add(key)
        if key[1] >= len(r if key[0] else l):
            return False
    return True


def max_apps(tape, rule):
    """(k, first limiting key, what is left there): the largest k with every decreasing block >= 1
    after k applications; k = 0 when nothing decreases"""
    sc, l, r = tape
    best = None
    for key, o in rule:
        d = o[1]
        if d >= 0:
            continue
        c = (r if key[0] else l)[key[1]][1]
        k = (c - 1) // (-d) if c >= 1 else -1
        if best is None or k < best[0]:
            best = (k, key, c + d * k)
    return best if best is not None else (0, None, None)


def exact_apply(tape, rule):
    """('none',) | ('some', k, tape') | ('unrepresentable', k): what exactness demands"""
    k, _, _ = max_apps(tape, rule)
    if k < 1:
        return ('none',)
    sc, l, r = tape
    nl, nr = list(l), list(r)
    big = False
    for key, o in rule:
        sp = nr if key[0] else nl
        c = sp[key[1]][1] + o[1] * k
        big = big or c > U64
        sp[key[1]] = (sp[key[1]][0], c)
    if big:
        return ('unrepresentable', k)
    return ('some', k, (sc, nl, nr))


def check_apply(tape_f, rule_f, ans):
    """None | (why, expected) for one implementation answer; None also when out of scope"""
    tape, rule = parse_tape(tape_f), parse_rule(rule_f)
    if not in_scope_rule(tape, rule):
        return None
    want = exact_apply(tape, rule)
    if ans == 'PANIC':
        if want[0] == 'unrepresentable':
            return None
        return ('panic although the exact result is representable', show_want(want, tape_f))
    head, _, after = ans.partition('|')
    if head == 'none':
        if after != tape_f:
            return (f'answer "not applied" but the tape changed: {tape_f} -> {after}', show_want(want, tape_f))
        if want[0] == 'some':
            return (f'answer "not applied" but the rule applies {want[1]} times', show_want(want, tape_f))
        return None
    if not head.startswith('some:'):
        return (f'unreadable answer {ans[:80]}', show_want(want, tape_f))
    times = int(head[5:])
    if want[0] == 'none':
        return (f'applied {times} times but no application leaves every decreasing block >= 1',
                show_want(want, tape_f))
    if times != want[1]:
        return (f'times = {times}, the largest admissible number of applications is {want[1]}',
                show_want(want, tape_f))
    if want[0] == 'unrepresentable':
        return (f'an answer was given although block count + difference x {times} exceeds u64',
                show_want(want, tape_f))
    got = parse_tape(after)
    exp = want[2]
    if got[0] != exp[0]:
        return (f'scanned colour changed {exp[0]} -> {got[0]}', show_want(want, tape_f))
    for name, g, e, o in (('L', got[1], exp[1], tape[1]), ('R', got[2], exp[2], tape[2])):
        if len(g) != len(e):
            return (f'{name} span changed length {len(e)} -> {len(g)}', show_want(want, tape_f))
        for i, (gb, eb, ob) in enumerate(zip(g, e, o)):
            if gb[0] != eb[0]:
                return (f'colour of block {name}{i} changed {eb[0]} -> {gb[0]}', show_want(want, tape_f))
            if gb[1] != eb[1]:
                d = dict((k, v[1]) for k, v in rule).get((name == 'R', i), 0)
                return (f'block {name}{i}: {ob[1]} {d:+d} x {times} = {eb[1]}, implementation wrote {gb[1]}',
                        show_want(want, tape_f))
    return None


def show_want(want, tape_f):
    if want[0] == 'none':
        return f'none|{tape_f}'
    if want[0] == 'some':
        return f'some:{want[1]}|{tape_field(*want[2])}'
    return f'PANIC or none|{tape_f} (times would be {want[1]}, a result exceeds u64)'


def check_capps(tape_f, rule_f, ans):
    tape, rule = parse_tape(tape_f), parse_rule(rule_f)
    if not in_scope_rule(tape, rule) or ans == 'PANIC':
        return None
    k, key, left = max_apps(tape, rule)
    want = 'none' if k < 1 else f'{k} {"R" if key[0] else "L"}{key[1]} {left}'
    if ans != want:
        return (f'count_apps = {ans}; largest admissible number of applications, first limiting block and '
                f'what is left of it: {want}', want)
    return None


def mk_scope(vecs):
    """indices (per side) whose three true successive differences are < 2^31"""
    n = min(len(v) for v in vecs)
    return [i for i in range(n)
            if all(abs(vecs[j + 1][i] - vecs[j][i]) < B31 for j in range(3))], n


def check_mkrule(fields, ans):
    cs = [parse_counts(f) for f in fields]
    if ans == 'PANIC':
        return None
    if ans == 'none':
        # completeness on the plain range: four arithmetic progressions below 2^31 do give a rule
        if all(x < B31 for c in cs for s in c for x in s):
            ok = True
            for side in (0, 1):
                vecs = [c[side] for c in cs]
                n = min(len(v) for v in vecs)
                for i in range(n):
                    a, b, c, d = (v[i] for v in vecs)
                    ok = ok and (b - a == c - b == d - c)
            if ok:
                return ('no rule although every block is an arithmetic progression below 2^31', 'a rule')
        return None
    rule = dict(parse_rule(ans[5:]))
    for side in (0, 1):
        vecs = [c[side] for c in cs]
        scope, n = mk_scope(vecs)
        for key in rule:
            if key[0] == bool(side) and key[1] >= n:
                return (f'rule entry {key} beyond the {n} blocks of that side', 'no such entry')
        for i in scope:
            o = rule.get((bool(side), i), ('+', 0))
            if o[0] != '+':
                continue
            a, b, c, d = (v[i] for v in vecs)
            x = o[1]
            if not (b == a + x and c == b + x and d == c + x):
                return (f'{"R" if side else "L"}{i}: difference {x:+d} does not reproduce {a}, {b}, {c}, {d}',
                        f'differences {b - a}, {c - b}, {d - c}')
    return None


def check_case(line, ans):
    f = line.split('|')
    if f[0] in ('apply', 'apply_f4', 'apply_f7'):
        return check_apply(f[1], f[2], ans)
    if f[0] == 'capps':
        return check_capps(f[1], f[2], ans)
    if f[0] == 'mkrule':
        return check_mkrule(f[1:5], ans)
    return None


# ---------------------------------------------------------------- generators

SHAPES_22 = [(1, 0), (0, 1), (2, 0), (0, 2), (1, 1), (2, 1), (1, 2), (2, 2)]
LCOL = [1, 2, 1, 3]
RCOL = [2, 3, 1, 2]


def exhaustive_bound(n, budget):
    """largest M <= 60 with (13 * M)^n <= budget"""
    m = 60
    while m > 0 and (13 * m) ** n > budget:
        m -= 1
    return m


def exhaustive_cases(tier, dist):
    budget = 300000 if tier == 'quick' else 2000000
    out = []
    k = 0
    for nl, nr in SHAPES_22:
        n = nl + nr
        m = exhaustive_bound(n, budget)
        if m < 8:
            dist[f'exhaustive_{nl}+{nr}'] = 'sampled (space too large)'
            continue
        keys = [(False, i) for i in range(nl)] + [(True, i) for i in range(nr)]
        names = [f'{"R" if s else "L"}{i}' for s, i in keys]
        rules = []
        for ds in itertools.product(range(-6, 7), repeat=n):
            rules.append(','.join(f'{nm}:{d:+d}' for nm, d in zip(names, ds) if d))
        for cs in itertools.product(range(1, m + 1), repeat=n):
            tf = tape_field(0, [(LCOL[i], cs[i]) for i in range(nl)],
                            [(RCOL[i], cs[nl + i]) for i in range(nr)])
            for rf in rules:
                out.append((f'x{k}', f'apply|{tf}|{rf}'))
                k += 1
        dist[f'exhaustive_{nl}+{nr}'] = f'all rules (diffs -6..6, 0 = no entry) x all counts 1..{m}: {(13 * m) ** n}'
    return out


def rand_cols(rng, n):
    out = []
    prev = None
    for _ in range(n):
        c = rng.randrange(1, 5)
        while c == prev:
            c = rng.randrange(1, 5)
        out.append(c)
        prev = c
    return out


def sampled_small(rng, count, dist):
    out = []
    for i in range(count):
        nl, nr = rng.randint(0, 4), rng.randint(0, 4)
        if nl + nr == 0:
            nr = 1
        l = [(c, rng.randint(1, 60)) for c in rand_cols(rng, nl)]
        r = [(c, rng.randint(1, 60)) for c in rand_cols(rng, nr)]
        keys = [(False, j) for j in range(nl)] + [(True, j) for j in range(nr)]
        rule = {}
        for key in keys:
            if rng.random() < 0.6:
                rule[key] = rng.randint(-6, 6)           # 0 stays as an explicit +0 entry sometimes
                if rule[key] == 0 and rng.random() < 0.7:
                    del rule[key]
        tf, rf = tape_field(rng.randrange(4), l, r), rule_field(rule)
        out.append((f's{i}', f'apply|{tf}|{rf}'))
        out.append((f's{i}c', f'capps|{tf}|{rf}'))
    dist['sampled_up_to_4+4_small'] = count
    return out


SPECIAL_COUNTS = [1, 2, 3, B31 - 1, B31, B31 + 1, (1 << 32) - 1, 1 << 32, (1 << 32) + 1,
                  (1 << 62) - 1, 1 << 62, (1 << 62) + 1, (1 << 63), U64 - 1, U64]


def big_count(rng):
    x = rng.random()
    if x < 0.30:
        return rng.choice(SPECIAL_COUNTS)
    if x < 0.55:
        return rng.randint(1, 1 << rng.randint(1, 62))
    if x < 0.70:
        return max(1, rng.choice([B31, 1 << 32, 1 << 62, U64]) - rng.randint(0, 5))
    return rng.randint(1, 1 << 62)


def big_diff(rng, sign=0):
    m = rng.choice([1, 2, 3, 7, 1 << 10, (1 << 20) - 1, 1 << 20, rng.randint(1, 1 << 20),
                    rng.randint(1, 1 << 20), rng.randint(1, 50)])
    if sign == 0:
        sign = rng.choice([-1, 1])
    return sign * m


def big_cases(rng, count, dist):
    """random counts up to 2^62 (and the u64 edge), differences up to 2^20, with the overflow / tie /
    order / panic classes forced"""
    out = []
    classes = ['random', 'overflow_mul', 'overflow_add', 'tie', 'min_first', 'min_last', 'mult_op',
               'bad_index', 'none_boundary', 'near_2_31', 'i32_edge_diff']
    tally = {c: 0 for c in classes}
    for i in range(count):
        cl = classes[i % len(classes)] if i % 3 else 'random'
        tally[cl] += 1
        nl, nr = rng.randint(0, 4), rng.randint(0, 4)
        if nl + nr < 2:
            nl, nr = 1, 1
        l = [(c, big_count(rng)) for c in rand_cols(rng, nl)]
        r = [(c, big_count(rng)) for c in rand_cols(rng, nr)]
        keys = [(False, j) for j in range(nl)] + [(True, j) for j in range(nr)]
        rule = {key: big_diff(rng) for key in keys if rng.random() < 0.7}

        def cnt(key):
            return (r if key[0] else l)[key[1]][1]

        def setc(key, v):
            sp = r if key[0] else l
            sp[key[1]] = (sp[key[1]][0], min(v, U64))
        if cl == 'overflow_mul':
            # one slowly decreasing huge block, one quickly growing block: |d| x times > u64
            a, b = rng.sample(keys, 2)
            rule = {a: -rng.randint(1, 3), b: rng.choice([8, 1 << 10, 1 << 20, rng.randint(5, 1 << 20)])}
            setc(a, rng.choice([1 << 62, (1 << 62) - 1, U64, rng.randint(1 << 60, 1 << 62)]))
        elif cl == 'overflow_add':
            # |d| x times fits, count + |d| x times does not
            a, b = rng.sample(keys, 2)
            rule = {a: -1, b: rng.choice([1, 2, 3, 4])}
            setc(a, rng.choice([1 << 62, U64 // rule[b] + 1, U64 // rule[b] + 2, U64]))
            setc(b, rng.choice([1, 5, U64 // 2, U64 - 3, rng.randint(1, 1 << 62)]))
        elif cl == 'tie' and len(keys) >= 2:
            a, b = sorted(rng.sample(keys, 2))
            da, db = -rng.randint(1, 9), -rng.randint(1, 9)
            k = rng.choice([1, 2, 3, rng.randint(1, 1 << 40)])
            rule.update({a: da, b: db})
            setc(a, -da * k + rng.randint(1, -da))
            setc(b, -db * k + rng.randint(1, -db))
        elif cl in ('min_first', 'min_last'):
            decs = sorted(keys)
            m = decs[0] if cl == 'min_first' else decs[-1]
            for key in decs:
                rule[key] = -rng.randint(1, 4) if key == m or rng.random() < 0.5 else big_diff(rng, 1)
                setc(key, rng.randint(2, 9) if key == m else rng.randint(1 << 20, 1 << 62))
        elif cl == 'mult_op':
            key = rng.choice(keys)
            rule[key] = ('*', rng.randint(-3, 5), rng.randint(-3, 5))
        elif cl == 'bad_index':
            side = rng.random() < 0.5
            rule[(side, (nr if side else nl) + rng.randint(0, 2))] = big_diff(rng)
        elif cl == 'none_boundary':
            key = rng.choice(keys)
            d = -rng.randint(1, 1 << 20)
            rule[key] = d
            setc(key, max(1, -d + rng.choice([-1, 0, 1, 2])))
        elif cl == 'near_2_31':
            for key in keys:
                setc(key, max(1, rng.choice([B31, 1 << 32]) + rng.randint(-3, 3)))
        elif cl == 'i32_edge_diff':
            key = rng.choice(keys)
            rule[key] = rng.choice([-B31, -B31 + 1, B31 - 1, -(1 << 20), 1 << 20])
        tf, rf = tape_field(rng.randrange(4), l, r), rule_field(rule)
        out.append((f'b{i}', f'apply|{tf}|{rf}'))
        if i % 2 == 0:
            out.append((f'b{i}c', f'capps|{tf}|{rf}'))
    dist['big_counts_and_diffs'] = tally
    return out


def mkrule_cases(rng, count, dist):
    out = []
    k = 0
    # exhaustive: one block, four counts 0..9
    for q in itertools.product(range(10), repeat=4):
        side = k % 2
        f = [(f'/{x}' if side else f'{x}/') for x in q]
        out.append((f'm{k}', 'mkrule|' + '|'.join(f)))
        k += 1
    dist['mkrule_exhaustive_one_block_0..9'] = 10 ** 4
    # fixed edge cases: F6 congruences, i32 boundaries, the panicking divisions / subtractions
    T = 1 << 32
    edge = [
        (1, 1 + T, 1 + 2 * T, 1 + 3 * T),                      # F6: Plus(0)
        (5, 5 + T + 3, 5 + 2 * T + 6, 5 + 3 * T + 9),          # F6: Plus(3)
        (B31 - 3, B31 - 2, B31 - 1, B31),                      # d - c overflows i32 (panic under checks)
        (B31 - 1, B31, B31 + 1, B31 + 2),                      # checked_sub fails: Unknown
        (0, B31 - 1, 2 * (B31 - 1), 3 * (B31 - 1)),            # largest in-scope difference
        (3 * (B31 - 1), 2 * (B31 - 1), B31 - 1, 0),
        (0, B31, 2 * B31, 3 * B31),                            # first out-of-scope difference
        (T - 1, B31, B31 + 5, B31 + 9),                        # MIN / -1
        (T - (1 << 30), 0, 1 << 30, B31),                      # AP then d - c overflow
        (U64, U64 - 1, U64 - 2, U64 - 3), (U64 - 3, U64 - 2, U64 - 1, U64),
        (1 << 62, (1 << 62) + (1 << 20), (1 << 62) + (2 << 20), (1 << 62) + (3 << 20)),
        (0, 0, 0, 1), (0, 1, 2, 3), (1, 0, 0, 0), (2, 4, 8, 16), (1, 3, 7, 15), (3, 7, 15, 31),
        (16, 8, 4, 2), (5, 5, 5, 5), (7, 7, 7, 8),
    ]
    for q in edge:
        for side in (0, 1):
            f = [(f'2/{x}' if side else f'{x}/2') for x in q]
            out.append((f'm{k}', 'mkrule|' + '|'.join(f)))
            k += 1
    dist['mkrule_edge'] = 2 * len(edge)
    tally = {'arithmetic': 0, 'geometric': 0, 'noise': 0, 'length_mismatch': 0, 'mixed': 0, 'mod_2_32': 0}
    for i in range(count):
        kind = ['arithmetic', 'geometric', 'noise', 'length_mismatch', 'mixed', 'mod_2_32'][i % 6]
        tally[kind] += 1
        nl, nr = rng.randint(0, 4), rng.randint(0, 4)
        vec = [[[], []] for _ in range(4)]
        for side, n in ((0, nl), (1, nr)):
            for _ in range(n):
                big = rng.random() < 0.3
                base = big_count(rng) if big else rng.randint(1, 60)
                kk = kind if kind not in ('mixed', 'length_mismatch') else rng.choice(
                    ['arithmetic', 'arithmetic', 'geometric', 'const'])
                if kk == 'arithmetic':
                    d = big_diff(rng) if big else rng.randint(-6, 6)
                    if base + 3 * d < 0:
                        d = -d
                    q = [base + j * d for j in range(4)]
                elif kk == 'geometric':
                    m, a = rng.randint(2, 4), rng.randint(0, 3)
                    base = rng.randint(1, 50)
                    q = [base]
                    for _ in range(3):
                        q.append(q[-1] * m + a)
                elif kk == 'const':
                    q = [base] * 4
                elif kk == 'mod_2_32':
                    d = rng.randint(-6, 6)
                    base = rng.randint(20, 60)
                    q = [base + j * d + rng.randint(0, 3) * (1 << 32) for j in range(4)]
                else:
                    q = [rng.randint(0, 12) for _ in range(4)]
                q = [min(max(x, 0), U64) for x in q]
                for j in range(4):
                    vec[j][side].append(q[j])
        if kind == 'length_mismatch':
            j, side = rng.randrange(4), rng.randrange(2)
            if vec[j][side] and rng.random() < 0.5:
                vec[j][side].pop()
            else:
                vec[j][side].append(rng.randint(1, 9))
        out.append((f'm{k}', 'mkrule|' + '|'.join(counts_field(*v) for v in vec)))
        k += 1
    dist['mkrule_random'] = tally
    return out


def corpus_cases():
    out = []
    for p in sorted(glob.glob(os.path.join(CORPUS, '*.case'))):
        line = open(p).read().strip()
        cid, _, rest = line.partition('|')
        out.append((cid, rest))
    return out


def cases(seed, tier):
    rng = core.mkrng(seed, 'C11')
    dist = {}
    quick = tier == 'quick'
    cs = corpus_cases()
    dist['corpus'] = len(cs)
    cs += exhaustive_cases(tier, dist)
    cs += sampled_small(rng, 40000 if quick else 400000, dist)
    cs += big_cases(rng, 60000 if quick else 600000, dist)
    cs += mkrule_cases(rng, 30000 if quick else 300000, dist)
    return cs, dist


# ---------------------------------------------------------------- self-test of the oracle

def selftest(sample):
    """the oracle must flag the two historical defects when it is fed the answers of the pre-fix
    definitions (bbm commands apply_f4 = F4 and F7 present, apply_f7 = F7 present, F4 fixed)"""
    res = {}
    corp = dict(corpus_cases())
    probes = [(cid, line) for cid, line in corp.items() if line.startswith('apply|')]
    probes += [(cid, line) for cid, line in sample if line.startswith('apply|')]
    for variant in ('apply_f4', 'apply_f7'):
        lines = [f'{cid}|{variant}|{line.split("|", 1)[1]}' for cid, line in probes]
        ans = core.run_bbm(lines)
        flagged = []
        for cid, line in probes:
            a = ans.get(cid, '')
            if a.startswith('MODEL') or not a:
                continue
            if check_apply(*line.split('|')[1:3], a):
                flagged.append(cid)
        res[variant] = {'probes': len(probes), 'flagged': len(flagged),
                        'F4_witness_flagged': 'F4' in flagged, 'F7_witness_flagged': 'F7' in flagged}
    ok = (res['apply_f4']['F4_witness_flagged'] and res['apply_f4']['F7_witness_flagged']
          and res['apply_f7']['F7_witness_flagged'] and not res['apply_f7']['F4_witness_flagged'])
    return ok, res


# ---------------------------------------------------------------- run / search

def classify(line, ans):
    f = line.split('|')
    if ans == 'PANIC':
        return f[0] + ':panic'
    if f[0] == 'apply':
        return 'apply:' + ans.split('|')[0].split(':')[0]
    if f[0] == 'capps':
        return 'capps:' + ('none' if ans == 'none' else 'some')
    if f[0] == 'mkrule':
        return 'mkrule:' + ('none' if ans == 'none' else ('mult' if '*' in ans else 'plus'))
    return f[0]


def run(rep, tier, seed):
    cs, dist = cases(seed, tier)
    ncorp = dist['corpus']
    lines = [f'{i}|{l}' for i, l in cs]
    # corpus first: a regression of F4 / F7 is reported even if a later stage breaks
    h = core.run_bbh(lines[:ncorp])
    m = core.run_bbm(lines[:ncorp])
    h.update(core.run_bbh(lines[ncorp:]))
    m.update(core.run_bbm(lines[ncorp:]))
    diffs = core.diff_answers(cs, h, m)
    fails = []
    checked = 0
    answers = {}
    nontrivial = set()
    for cid, line in cs:
        a = h.get(cid, '')
        cl = classify(line, a)
        answers[cl] = answers.get(cl, 0) + 1
        why = check_case(line, a)
        checked += 1
        if why:
            fails.append((cid, line, f'{why[0]} [implementation: {a}; exactness demands: {why[1]}]'))
        if cl == 'apply:some' and cid[0] != 'x':
            nontrivial.add(line)
    nx = sum(1 for cid, line in cs if cid[0] == 'x' and h.get(cid, '').startswith('some:'))
    ok, st = selftest([c for c in cs if c[0][0] == 's'][:10000] + [c for c in cs if c[0][0] == 'b'][:30000])
    if not ok:
        rep.violation({'kind': 'oracle-selftest', 'detail': st,
                       'why': 'the property oracle does not flag the pre-fix definitions on the F4/F7 witnesses',
                       'correspondence': 'props/C11.py oracle vs bbm apply_f4 / apply_f7'}, found=False)
    rep.coverage.update({
        'evaluations': len(cs),
        'distinct_nontrivial': len(nontrivial) + nx,
        'oracle_checked': checked,
        'rule': 'make_rule on four count vectors, count_apps and apply_rule on (tape, rule): every answer of '
                '/repo (bbh) is compared with the extracted Coq model (bbm) and, independently, decided with '
                'Python integers: the inferred differences reproduce the four vectors; times is the largest '
                'number of applications leaving every decreasing block >= 1, every block changes by exactly '
                'difference x times, nothing else changes, "not applied" leaves the tape untouched; '
                'non-trivial = (tape, rule) pairs that were applied at least once',
        'input_distribution': dist,
        'answer_classes': answers,
        'oracle_selftest': st,
        'divergences': len(diffs),
        'samples': [cs[0][1], cs[len(cs) // 2][1], cs[-1][1]],
        'exhaustive': 'rules over <= 2+2 blocks, diffs -6..6, counts 1..M (see input_distribution)',
    })
    if tier != 'quick':
        wrap_profile(rep, [c for c in cs if c[0][0] in 'FWbm'])
    return diffs, fails


def wrap_profile(rep, cs):
    """same cases on the harness built WITHOUT overflow checks (= cargo --release of /repo): only the
    property oracle applies (the model mirrors the checked profile)"""
    try:
        core.build_bbh('wrap', features=BBH_FEATURES)
        h = core.run_bbh([f'{i}|{l}' for i, l in cs], profile='wrap')
    except (core.BuildError, OSError) as ex:
        rep.notes.append(f'wrap profile not run: {ex}')
        return
    bad = []
    for cid, line in cs:
        why = check_case(line, h.get(cid, ''))
        if why:
            bad.append((line, h.get(cid, ''), why))
    rep.coverage['wrap_profile'] = {'cases': len(cs), 'oracle_failures': len(bad),
                                    'first': [f'{l} -> {a}: {w[0]}' for l, a, w in bad[:3]]}
    if bad:
        def outside(line):             # outside the property's quantifier (counts <= 2^62, |d| <= 2^20)?
            f = line.split('|')
            if f[0] == 'mkrule':
                return True
            _, lsp, rsp = parse_tape(f[1])
            return (any(n > 1 << 62 for _, n in lsp + rsp)
                    or any(o[0] != '+' or abs(o[1]) > 1 << 20 for _, o in parse_rule(f[2])))
        inside = [b for b in bad if not outside(b[0])]
        rep.coverage['wrap_profile']['inside_quantifier'] = len(inside)
        if inside:
            # F8 (unchecked `count + mult`) was repaired by fix b6eaeed: any in-quantifier
            # failure of the release profile is a violation again
            l, a, w = min(inside, key=lambda b: len(b[0]))
            rp = replay_of(l, a, w)
            rp['profile'] = 'release (overflow-checks off), what the Python extension runs'
            rep.violation(rp, found=True)
        else:
            rep.notes.append(f'wrap profile: {len(bad)} oracle failures, all outside the property quantifier '
                             f'(counts > 2^62 or |d| > 2^20), e.g. {bad[0][0]} -> {bad[0][1]}')


def replay_of(line, ans, why):
    f = line.split('|')
    rp = {'kind': 'property-failure', 'command': f[0], 'why': why, 'impl': ans,
          'model': core.run_bbm([f'z|{line}']).get('z'), 'case': line}
    if f[0] == 'mkrule':
        rp['count_vectors'] = f[1:5]
    else:
        rp['tape'], rp['rule'] = f[1], f[2]
    w = check_case(line, ans)
    if w:
        rp['expected'] = w[1]
    return rp


def search(rep, diffs, fails):
    fails = sorted(fails, key=lambda x: (not x[0].startswith('F'), len(x[1])))
    seen = set()
    for cid, line, why in fails:
        key = (line.split('|')[0], why.split(':')[0][:30])
        if key in seen:
            continue
        seen.add(key)
        ans = core.run_bbh([f'z|{line}']).get('z', '')
        rep.violation(replay_of(line, ans, why), found=True)
        if len(seen) >= 5:
            break
    if fails:
        return
    for cid, line, a, b in sorted(diffs, key=lambda x: len(x[1]))[:3]:
        rep.violation({'kind': 'correspondence', 'case': line, 'impl': a, 'model': b,
                       'correspondence': CORRESPONDENCE}, found=False)


def replay(r):
    line = r.get('case')
    if not line:
        return r
    a = core.run_bbh([f'z|{line}']).get('z', '')
    b = core.run_bbm([f'z|{line}']).get('z', '')
    w = check_case(line, a)
    return dict(r, impl_now=a, model_now=b, oracle_now=(w[0] if w else 'ok'),
                expected_now=(w[1] if w else None))
