"""C16 — lazily compiled macros are history independent (known finding F3 open)."""
from lib import core, macro_check as mc

LEVEL = 'other'
BBH_FEATURES = ['macro']      # harness command families this check needs (fallback build, lib/core.py build_bbh)
PROP = 'C16'
CORR = 'bbh MacroProg::get_instr (memo + colour caches) = MacrosModel.macro_get_instr / stack_queries / stack_queries2'
SIZES = [(2, 2), (3, 2), (2, 3), (3, 3)]


def pool(C):
    out = [(f'block:{k}', False, True) for k in range(1, 5)]
    out += [(f'back:{k}', False, True) for k in range(1, 5)]
    # macro of macro, each layer built with the params() of the one below
    out += [(s, True, True) for s in ('block:2+back:1', 'block:3+back:2', 'block:2+block:2', 'back:1+block:2',
                                      'back:2+back:1', 'block:2+back:1+block:2', 'block:4+back:1', 'back:1+block:3')]
    # every layer built with the BASE params (src/machine.rs test_macro_loop): correspondence only
    out += [('block:2+block:2', False, False), ('block:2+back:1', False, False), ('back:1+back:1', False, False)]
    return out


def witnesses():
    out = []
    for f in core.known_findings()['open']:
        if f['id'] == 'F3':
            for w in f['witnesses']:
                if 'history_a' in w:
                    S, C = (int(x) for x in w['params'].split(','))
                    out.append({'prog': w['program'], 'S': S, 'C': C, 'cls': 'known-finding witness',
                                'spec': w['spec'], 'chain': False, 'oracle': True, 'n': 10,
                                'witness': f'"{w["program"]}" {w["spec"]}: histories {w["history_a"]} / '
                                           f'{w["history_b"]}: {w["answers"]}',
                                'cases': [{'kind': 'macro', 'slots': mc.mo.parse_slots(w['history_a'])},
                                          {'kind': 'macro', 'slots': mc.mo.parse_slots(w['history_b'])}]})
    return out


def run(rep, tier, seed):
    rng = core.mkrng(seed, PROP)
    q = tier == 'quick'
    scope = set(SIZES)
    progs = mc.programs(rng, 600 if q else 3000, 2400 if q else 15000, 417, sizes=SIZES[1:], scope=scope)
    combos = witnesses() + mc.make_combos(rng, progs, pool, 5 if q else 9, [100, 1000, 10000])
    for i, cb in enumerate(combos):
        cb['id'] = i
        for j, c in enumerate(cb['cases']):
            c['cid'] = f'W{j}_{i}'
    lim = {'steps': 0, 'base_steps': 0}
    diffs, fails = mc.run_check(rep, PROP, 'hist', combos, rng, lim, 60 if q else 150, 'F3', CORR)
    rep.coverage.update({
        'rule': 'programs (2x2 sampled, random and named to 3x3) x block/backsymbol sizes 1..4 and macro-of-macro; per '
                'pair the slots reachable in a run and in the colour closure are queried in 6-8 different histories '
                '(discovery order, reversed, random permutations, repetitions, prefix+shuffle, fresh-object single '
                'queries) and on two interleaved objects; real code vs extracted model byte for byte; on the real '
                'code\'s answers: every slot gets one answer in all histories in which it gets one (PANIC for a colour '
                'not yet handed out = no answer), the memo is exactly the set of instructions handed out, and every '
                'cached colour decodes to its positional cell contents; failures are attributed to the known finding '
                'F3 by the backfix counterfactual as in C09; non-trivial = distinct pairs with at least one compiled '
                'instruction',
        'explanation': 'proof for block macros and for backsymbol macros outside class F3 + refuted inside it + '
                       'oracle exploration; see MANIFEST level text',
    })
    return diffs, fails


def search(rep, diffs, fails):
    mc.search(rep, diffs, fails, pool, PROP)


replay = mc.replay
