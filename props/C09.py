"""C09 — the backsymbol macro simulates the base machine (known finding F3 open)."""
from lib import core, macro_check as mc

LEVEL = 'other'
BBH_FEATURES = ['macro']      # harness command families this check needs (fallback build, lib/core.py build_bbh)
PROP = 'C09'
CORR = 'bbh MacroProg<_, BacksymbolLogic>::get_instr = MacrosModel.macro_get_instr (stack_get), run_for_infrul loop = macro_run'


def pool(C):
    out = [(f'back:{k}', False, True) for k in range(1, 4)]
    # backsymbol macros of block macros, outer layer built with the block macro's params()
    out += [(f'block:{k}+back:{j}', True, True) for k in range(1, 5) for j in range(1, 4)]
    # the way src/machine.rs test_macro_loop nests (outer layer gets the BASE params): correspondence only
    out += [('block:2+back:1', False, False), ('block:3+back:1', False, False), ('back:1+back:1', False, False)]
    return out


def witnesses():
    out = []
    for f in core.known_findings()['open']:
        if f['id'] == 'F3':
            for w in f['witnesses']:
                if 'queries' in w:
                    S, C = (int(x) for x in w['params'].split(','))
                    out.append({'prog': w['program'], 'S': S, 'C': C, 'cls': 'known-finding witness',
                                'spec': w['spec'], 'chain': False, 'oracle': True, 'n': 10,
                                'witness': f'"{w["program"]}" {w["spec"]}: get_instr after queries {w["queries"]}: {w["answers"]}',
                                'cases': [{'cid': 'W', 'kind': 'macro',
                                           'slots': mc.mo.parse_slots(w['queries'])}]})
    return out


def run(rep, tier, seed):
    rng = core.mkrng(seed, PROP)
    q = tier == 'quick'
    progs = mc.programs(rng, 300 if q else 1500, 1300 if q else 9000, 900 if q else 1113)
    combos = witnesses() + mc.corpus_combos(PROP) + mc.make_combos(rng, progs, pool, 5 if q else 9, [300, 2000, 10000])
    for i, cb in enumerate(combos):
        cb['id'] = i
        for c in cb['cases']:
            c['cid'] = f'W{i}'
    lim = {'steps': 10000, 'base_steps': 300000 if q else 2000000}
    diffs, fails = mc.run_check(rep, PROP, 'sim', combos, rng, lim, 60 if q else 150, 'F3', CORR)
    rep.coverage.update({
        'rule': 'programs (2x2 sampled, random to 4x2/2x4/3x3, named machines of those sizes) x 1..3 remembered cells, '
                'also over block macros (1..4 cells) of them; cases and comparisons as in C08 with the mirrored decoding '
                '(remembered cells re-inserted next to the head); an oracle failure of the real code is attributed to '
                'the known finding F3 iff the faithful model answers like the code on that pair and the pair re-run on '
                'the model with split_at(self.cells) (backfix) shows no failure; anything else is a violation; '
                'non-trivial = distinct pairs with at least one compiled instruction',
        'explanation': 'refuted for the faithful model (F3) + theorems for the repaired model + oracle exploration; '
                       'see MANIFEST level text',
    })
    return diffs, fails


def search(rep, diffs, fails):
    mc.search(rep, diffs, fails, pool, PROP)


replay = mc.replay
