"""C13 — program text round trip (src/instrs.rs: from_str, show, read_*/show_*).

Tie: every case is answered by /repo's code (bbh) and by the Coq model (bbm)
and the answers must be byte-identical (value vs PANIC included).
Oracle: written here in Python from the text grammar alone, evaluated on the
IMPLEMENTATION's answers only (never on the model's):
  * tokens:  read(tok) is the value the grammar says, show(read(tok)) == tok,
             show(v) is the token the grammar says, read(show(v)) == v;
  * tables:  parse(text(T)) == T with every instruction at (row, column),
             show(parse(text(T)), (S,C)) == text(T),
             show(T,(S,C)) == text(T), parse(show(T,(S,C))) == T,
             show(T, larger) == text(T padded), parse of it == T,
             show(T, None) == text(T at the inferred size), parse of it == T.
"""
import sys

from lib import core, gen

LEVEL = 'proof'
BBH_FEATURES = []      # harness command families this check needs (fallback build, lib/core.py build_bbh)
STATES = gen.STATES
CORRESPONDENCE = ('bbh CompProg::from_str/show, read_instr/read_slot/read_state, show_instr/show_slot/show_state '
                  '= InstrsModel.from_str/show/read_*/show_*')

# characters put in place of one character of a token (space excluded: it is the separator)
ODD_CHARS = [46, 97, 122, 64, 91, 58, 47, 96, 48, 53, 57, 65, 76, 82, 90, 9, 233, 321, 0x10041]
# white space according to Rust (White_Space), and look-alikes that are NOT white space for Rust
WS = [32, 9, 10, 11, 12, 13, 133, 160, 5760, 8192, 8202, 8232, 8233, 8239, 8287, 12288]
NOT_WS = [28, 29, 30, 31, 6158, 8203, 8204, 8288, 65279]


# ------------------------------------------------------------------ grammar (independent spec)

def tok_text(i):
    if i is None:
        return '...'
    co, sh, tr = i
    return f'{co}{"R" if sh else "L"}{STATES[tr]}'


def table_text(M):
    return '  '.join(' '.join(tok_text(i) for i in row) for row in M)


def cps(text):
    return ','.join(str(ord(ch)) for ch in text)


def uncps(field):
    return ''.join(chr(int(x)) for x in field.split(',')) if field else ''


def instr_field(i):
    return '-' if i is None else f'{i[0]},{int(i[1])},{i[2]}'


def entries_of(M):
    return {(r, c): i for r, row in enumerate(M) for c, i in enumerate(row) if i is not None}


def entries_field(E):
    return ';'.join(f'{s},{c}={i[0]},{int(i[1])},{i[2]}' for (s, c), i in sorted(E.items()))


def matrix_at(E, S, C):
    return [[E.get((r, c)) for c in range(C)] for r in range(S)]


def inferred_dims(E):
    ms = mc = 1
    for (s, c), (co, _, tr) in E.items():
        ms = max(ms, s, tr)
        mc = max(mc, c, co)
    return 1 + ms, 1 + mc


# ------------------------------------------------------------------ generators

def random_matrix(rng, S, C):
    p = rng.choice([0.0, 0.05, 0.15, 0.15, 0.3, 0.5, 0.8, 0.95, 1.0])
    wide = rng.random() < 0.3          # any digit / any letter, not only those below the size
    M = []
    for r in range(S):
        row = []
        for c in range(C):
            if rng.random() < p:
                row.append(None)
            else:
                row.append((rng.randrange(10 if wide else C), rng.random() < 0.5,
                            rng.randrange(26 if wide else S)))
        M.append(row)
    return M


def token_cases():
    """exhaustive token sets; kind, payload, line"""
    cs = []
    instrs = [None] + [(co, sh, tr) for co in range(10) for sh in (False, True) for tr in range(26)]
    for k, i in enumerate(instrs):
        cs.append({'id': f'ti{k}', 'kind': 'tok', 'what': 'instr', 'tok': tok_text(i), 'val': instr_field(i),
                   'line': f'tok|instr|{cps(tok_text(i))}'})
        cs.append({'id': f'si{k}', 'kind': 'showtok', 'what': 'instr', 'tok': tok_text(i), 'val': instr_field(i),
                   'line': f'showtok|instr|{instr_field(i)}'})
    k = 0
    for s in range(26):
        for c in range(10):
            t = f'{STATES[s]}{c}'
            cs.append({'id': f'tl{k}', 'kind': 'tok', 'what': 'slot', 'tok': t, 'val': f'{s},{c}',
                       'line': f'tok|slot|{cps(t)}'})
            cs.append({'id': f'sl{k}', 'kind': 'showtok', 'what': 'slot', 'tok': t, 'val': f'{s},{c}',
                       'line': f'showtok|slot|{s},{c}'})
            k += 1
    for s in range(26):
        cs.append({'id': f'ts{s}', 'kind': 'tok', 'what': 'state', 'tok': STATES[s], 'val': str(s),
                   'line': f'tok|state|{ord(STATES[s])}'})
        cs.append({'id': f'ss{s}', 'kind': 'showtok', 'what': 'state', 'tok': STATES[s], 'val': str(s),
                   'line': f'showtok|state|{s}'})
    return cs


def odd_token_cases(tier):
    """tokens with one character replaced / dropped / added, values outside the
    printable range: correspondence only (value vs PANIC)"""
    cs = []
    n = 0
    instr_toks = ['...'] + [f'{d}{sh}{st}' for d in '0123456789' for sh in 'LR' for st in STATES]
    if tier == 'quick':
        instr_toks = instr_toks[::3]
    for t in instr_toks:
        for pos in range(3):
            for ch in ODD_CHARS:
                m = t[:pos] + chr(ch) + t[pos + 1:]
                cs.append({'id': f'mi{n}', 'kind': 'odd', 'line': f'tok|instr|{cps(m)}'})
                n += 1
    for t in ['', '1', '1R', 'R', '.', '..', '1.', '1RBB', '1RB.', '.1RB', '1RBxyz', '10RB', '1R ', ' 1RB', '12',
              '1RB 1LA', 'ABC', '999', 'LLL', '1\u0141A', '\u00e9RA', '1R\u0141', '1R\u00e9']:
        cs.append({'id': f'mi{n}', 'kind': 'odd', 'line': f'tok|instr|{cps(t)}'})
        n += 1
    for s in STATES:
        for c in '0123456789':
            t = s + c
            for pos in range(2):
                for ch in ODD_CHARS:
                    m = t[:pos] + chr(ch) + t[pos + 1:]
                    cs.append({'id': f'ml{n}', 'kind': 'odd', 'line': f'tok|slot|{cps(m)}'})
                    n += 1
    for t in ['', 'A', '0', 'A0x', 'A10', 'AA', '00', '0A', '.0', 'A.', 'a0']:
        cs.append({'id': f'ml{n}', 'kind': 'odd', 'line': f'tok|slot|{cps(t)}'})
        n += 1
    for cp in list(range(0, 400)) + [8232, 0xFFFF, 0x10041, 0x10FFFF]:
        cs.append({'id': f'ms{n}', 'kind': 'odd', 'line': f'tok|state|{cp}'})
        n += 1
    big = [26, 27, 100, 189, 190, 191, 192, 255, 256, 257, 321, 446, 447, 1 << 32, (1 << 64) - 1]
    for s in list(range(26, 60)) + big:
        cs.append({'id': f'os{n}', 'kind': 'odd', 'line': f'showtok|state|{s}'})
        cs.append({'id': f'ol{n}', 'kind': 'odd', 'line': f'showtok|slot|{s},3'})
        cs.append({'id': f'oi{n}', 'kind': 'odd', 'line': f'showtok|instr|2,1,{s}'})
        n += 1
    for c in [10, 11, 19, 99, 100, 12345, 1 << 32, (1 << 64) - 1]:
        cs.append({'id': f'oc{n}', 'kind': 'odd', 'line': f'showtok|slot|3,{c}'})
        cs.append({'id': f'od{n}', 'kind': 'odd', 'line': f'showtok|instr|{c},0,1'})
        n += 1
    return cs


def table_cases(rng, ntab):
    cs = []
    sizes = [(s, c) for s in range(1, 27) for c in range(1, 11)]
    for k in range(ntab):
        S, C = sizes[k] if k < len(sizes) else (rng.randint(1, 26), rng.randint(1, 10))
        M = random_matrix(rng, S, C)
        ds, dc = rng.choice([(0, 1), (1, 0), (1, 1), (2, 3), (3, 0), (0, 2)])
        cs.append({'id': f'T{k}', 'kind': 'table', 'S': S, 'C': C, 'M': M, 'big': (S + ds, C + dc)})
    return cs


def table_lines(tc):
    """stage-1 lines of one table case"""
    E = entries_of(tc['M'])
    f = entries_field(E)
    S, C = tc['S'], tc['C']
    S2, C2 = tc['big']
    i = tc['id']
    return [(f'{i}p', f'parse|{cps(table_text(tc["M"]))}'),
            (f'{i}a', f'show|{f}|{S},{C}'),
            (f'{i}b', f'show|{f}|{S2},{C2}'),
            (f'{i}n', f'show|{f}|-')]


def malformed_cases(rng, n):
    """texts outside the grammar: the model and the code must agree on PANIC vs value"""
    texts = ['', ' ', '  ', '   ', '\t', '\n', '1RB', ' 1RB', '1RB ', '\t1RB\n', '\n1RB 1LA  1LB 1RA\r\n',
             '1RB   1LA', '1RB 1LA   1LB 1RA', '1RB 1LA    1LB 1RA', '1RB  1LA  ', '1RB\t1LA', '1RB\n1LA',
             '1RB 1LA\n1LB 1RA', '1RB 1L  1LB 1RA', '1RB 1  1LB', '1RB   ', '1RBB 1LA', '10RB 1LA', '1rb 1la',
             '1Rb ...', ':RB ...', '/RB ...', '1RB ...  1LA', '1RB  1LA ... ...', '1RB ...  1LA ...  ... ... ...',
             '.', '..', '....', '. .  . .', '1.B 1LA', '1RB. 1LA', '1R@', '1R[', '1R\u00e9', '1R\u0141', '1R\U00010041',
             'ARB', '1XB', '1 B', '1R', '1', 'R', '... ...', '...  ...', '...', '1RA', '1RZ 9LZ',
             '\u00a01RB\u00a0', '\u30001RB 1LA\u0085', '\u200b1RB', '1RB\u200b', '\x1c1RB', '1RB\x1f',
             '\ufeff1RB', '\u180e1RB', '1RB\u00a01LA  1LB 1RA', '1RB\u20031LA', '1RB \u00a0 1LA',
             '\u2028\u20291RB 1LA\u205f\u1680']
    cs = [{'id': f'F{k}', 'kind': 'odd', 'line': f'parse|{cps(t)}'} for k, t in enumerate(texts)]
    odd = ODD_CHARS + [32, 32, 32, 32] + WS + NOT_WS
    k = len(cs)
    while k < n:
        S, C = rng.randint(1, 5), rng.randint(1, 4)
        t = list(table_text(random_matrix(rng, S, C)))
        for _ in range(rng.choice([1, 1, 1, 2, 3])):
            op = rng.random()
            pos = rng.randrange(len(t) + 1)
            if rng.random() < 0.35:            # aim at an edge or a separator
                seps = [j for j, ch in enumerate(t) if ch == ' '] + [0, len(t)]
                pos = rng.choice(seps)
            if op < 0.4 and pos < len(t):
                t[pos] = chr(rng.choice(odd))
            elif op < 0.75:
                t.insert(pos, chr(rng.choice(odd)))
            elif pos < len(t):
                del t[pos]
        cs.append({'id': f'F{k}', 'kind': 'odd', 'line': f'parse|{cps("".join(t))}'})
        k += 1
    return cs


def odd_show_cases(rng, n):
    """show of tables outside the printable range (colour >= 10, state >= 26, keys outside the size)"""
    cs = []
    vals = [0, 1, 9, 10, 25, 26, 68, 95, 99, 190, 191, 255, 256, 1000, (1 << 64) - 1]
    for k in range(n):
        E = {}
        for _ in range(rng.randint(1, 4)):
            E[(rng.randrange(4), rng.randrange(4))] = (rng.choice(vals), rng.random() < 0.5, rng.choice(vals))
        p = rng.choice(['-', '2,2', '3,3', '4,4', '1,1', '0,0', '0,3', '3,0'])
        if p == '-' and max(max(i[0], i[2]) for i in E.values()) > 99:
            p = '4,4'          # keep the inferred size <= 100 x 100 (the OCaml runner's stack; 2^64 rows test nothing)
        cs.append({'id': f'O{k}', 'kind': 'odd', 'line': f'show|{entries_field(E)}|{p}'})
    return cs


def all_cases(seed, tier):
    rng = core.mkrng(seed, 'C13')
    ntab = 3000 if tier == 'quick' else 200000
    nmal = 3000 if tier == 'quick' else 200000
    toks = token_cases()
    odd = odd_token_cases(tier)
    tabs = table_cases(rng, ntab)
    mal = malformed_cases(rng, nmal)
    osh = odd_show_cases(rng, 400 if tier == 'quick' else 4000)
    dist = {'tokens_exhaustive(instr 521, slot 260, state 26; both directions)': len(toks),
            'tokens_one_char_off_or_out_of_range': len(odd),
            'random_tables_1..26x1..10': ntab,
            'malformed_texts': len(mal),
            'show_outside_printable_range': len(osh)}
    return toks, odd, tabs, mal, osh, dist


# ------------------------------------------------------------------ two-stage evaluation

def stage1_lines(toks, odd, tabs, mal, osh):
    out = [(c['id'], c['line']) for c in toks + odd + mal + osh]
    for tc in tabs:
        out += table_lines(tc)
    return out


def is_value(a):
    return a is not None and a != 'PANIC' and not a.startswith(('MODEL', 'MISSING'))


def stage2_lines(toks, tabs, h):
    """follow-up cases built from the implementation's own stage-1 answers"""
    out = []
    for c in toks:
        a = h.get(c['id'])
        if not is_value(a):
            continue
        if c['kind'] == 'tok':
            out.append((c['id'] + '+', f'showtok|{c["what"]}|{a}'))
        else:
            out.append((c['id'] + '+', f'tok|{c["what"]}|{a}'))
    for tc in tabs:
        i = tc['id']
        a = h.get(f'{i}p')
        if is_value(a):
            out.append((f'{i}p+', f'show|{a}|{tc["S"]},{tc["C"]}'))
        for suffix in 'abn':
            a = h.get(f'{i}{suffix}')
            if is_value(a):
                out.append((f'{i}{suffix}+', f'parse|{a}'))
    return out


def oracle_token(c, h):
    """None or (why) for one exhaustive-token case, on the implementation's answers"""
    a = h.get(c['id'], 'MISSING')
    b = h.get(c['id'] + '+', 'MISSING')
    tokf = cps(c['tok']) if c['what'] != 'state' else str(ord(c['tok']))
    if c['kind'] == 'tok':
        if a != c['val']:
            return f'read_{c["what"]}("{c["tok"]}") = {a}, the grammar says {c["val"]}'
        if b != tokf:
            return (f'show_{c["what"]}(read_{c["what"]}("{c["tok"]}")) = "{show_cps(b, c["what"])}", '
                    f'not the token itself')
    else:
        if a != tokf:
            return f'show_{c["what"]}({c["val"]}) = "{show_cps(a, c["what"])}", the grammar says "{c["tok"]}"'
        if b != c['val']:
            return f'read_{c["what"]}(show_{c["what"]}({c["val"]})) = {b}, not the value itself'
    return None


def show_cps(a, what='instr'):
    try:
        return uncps(a) if what != 'state' else chr(int(a))
    except Exception:
        return a


def oracle_table(tc, h):
    """None or (why, detail) for one table, on the implementation's answers"""
    i, S, C, M = tc['id'], tc['S'], tc['C'], tc['M']
    E = entries_of(M)
    want_tbl = entries_field(E)
    want_txt = table_text(M)
    g = lambda k: h.get(k, 'MISSING')
    # text -> table (placement) -> text
    p = g(f'{i}p')
    if p != want_tbl:
        return ('from_str does not put each instruction at (row, column)', _first_place_diff(p, E))
    pp = g(f'{i}p+')
    if pp != cps(want_txt):
        return (f'show(from_str(text), ({S},{C})) is not the text', f'got "{show_cps(pp)}"')
    # table -> text -> table
    a = g(f'{i}a')
    if a != cps(want_txt):
        return (f'show(table, ({S},{C})) is not the text of the grammar', f'got "{show_cps(a)}"')
    ap = g(f'{i}a+')
    if ap != want_tbl:
        return (f'from_str(show(table, ({S},{C}))) is not the table', _first_place_diff(ap, E))
    # larger size: padding with ...
    S2, C2 = tc['big']
    b = g(f'{i}b')
    if b != cps(table_text(matrix_at(E, S2, C2))):
        return (f'show(table, ({S2},{C2})) is not the table padded with "..."', f'got "{show_cps(b)}"')
    if g(f'{i}b+') != want_tbl:
        return (f'from_str(show(table, ({S2},{C2}))) is not the table', _first_place_diff(g(f'{i}b+'), E))
    # no size: inferred
    Sn, Cn = inferred_dims(E)
    n = g(f'{i}n')
    if n != cps(table_text(matrix_at(E, Sn, Cn))):
        return (f'show(table, None) is not the table at the inferred size ({Sn},{Cn})', f'got "{show_cps(n)}"')
    if g(f'{i}n+') != want_tbl:
        return ('from_str(show(table, None)) is not the table', _first_place_diff(g(f'{i}n+'), E))
    return None


def _first_place_diff(ans, E):
    if not is_value(ans):
        return f'answer: {ans}'
    got = {}
    try:
        for e in ans.split(';') if ans else []:
            k, v = e.split('=')
            s, c = k.split(',')
            co, sh, tr = v.split(',')
            got[(int(s), int(c))] = (int(co), sh == '1', int(tr))
    except Exception:
        return f'unreadable answer: {ans[:120]}'
    for k in sorted(set(got) | set(E)):
        if got.get(k) != E.get(k):
            return (f'slot {STATES[k[0]] if k[0] < 26 else k[0]}{k[1]} (row {k[0]}, column {k[1]}): '
                    f'expected {tok_text(E.get(k))}, found '
                    f'{instr_field(got.get(k)) if got.get(k) is not None else "nothing"}')
    return 'same entries, different order'


def evaluate(impl, model, seed, tier):
    """impl/model: functions lines -> {id: answer}; model may be None (self-test)"""
    toks, odd, tabs, mal, osh, dist = all_cases(seed, tier)
    l1 = stage1_lines(toks, odd, tabs, mal, osh)
    h = impl([f'{i}|{l}' for i, l in l1])
    l2 = stage2_lines(toks, tabs, h)
    h.update(impl([f'{i}|{l}' for i, l in l2]))
    allc = l1 + l2
    diffs = []
    if model is not None:
        m = model([f'{i}|{l}' for i, l in allc])
        diffs = core.diff_answers(allc, h, m)
    fails = []
    for c in toks:
        why = oracle_token(c, h)
        if why:
            fails.append((c['id'], c['line'], {'why': why, 'token': c['tok'], 'value': c['val'],
                                               'kind_of_token': c['what']}))
    nontrivial = set()
    for tc in tabs:
        r = oracle_table(tc, h)
        if r:
            fails.append((tc['id'], f'table {tc["S"]}x{tc["C"]}', {'why': r[0], 'detail': r[1], 'table': tc}))
        E = entries_of(tc['M'])
        if 0 < len(E) < tc['S'] * tc['C'] and tc['S'] >= 2 and tc['C'] >= 2:
            nontrivial.add(table_text(tc['M']))
    panics = sum(1 for i, _ in allc if h.get(i) == 'PANIC')
    info = {'evaluations': len(allc), 'oracle_checked': len(toks) + len(tabs),
            'distinct_nontrivial': len(nontrivial), 'impl_panics': panics, 'dist': dist,
            'samples': [l1[3][1], table_lines(tabs[len(tabs) // 2])[1][1][:300], mal[len(mal) // 2]['line'][:300],
                        table_lines(tabs[-1])[0][1][:300]]}
    return diffs, fails, info


def run(rep, tier, seed):
    diffs, fails, info = evaluate(core.run_bbh, core.run_bbm, seed, tier)
    rep.coverage.update({
        'evaluations': info['evaluations'],
        'distinct_nontrivial': info['distinct_nontrivial'],
        'oracle_checked': info['oracle_checked'],
        'rule': 'every instruction/slot/state token (exhaustive, both directions), random tables of every size '
                '1..26 x 1..10 with random undefined subsets (show with the true size, a larger size and no size, '
                'then from_str of what was printed; from_str of the grammar\'s text, then show), tokens with one '
                'character off, values outside the printable range and malformed texts; every answer of /repo '
                '(bbh) is compared with the Coq model (bbm), value vs PANIC included, and the round-trip/placement '
                'clauses are re-decided in Python from the grammar on the implementation\'s answers; non-trivial = '
                'distinct tables with >= 2 rows, >= 2 columns, at least one defined and one undefined slot',
        'input_distribution': info['dist'],
        'impl_panics': info['impl_panics'],
        'divergences': len(diffs),
        'samples': info['samples'],
        'exhaustive': False,
    })
    return diffs, fails


# ------------------------------------------------------------------ search / shrinking / replay

def table_fails(impl, tc):
    """runs the two stages for ONE table on impl; None or (why, detail)"""
    l1 = table_lines(tc)
    h = impl([f'{i}|{l}' for i, l in l1])
    l2 = stage2_lines([], [tc], h)
    h.update(impl([f'{i}|{l}' for i, l in l2]))
    return oracle_table(tc, h)


def shrink_table(impl, tc, budget=200):
    """greedy: drop rows/columns from the end, then undefine slots, while the property still fails"""
    best = tc
    def attempt(M, S, C):
        nonlocal budget, best
        if budget <= 0 or S < 1 or C < 1:
            return False
        budget -= 1
        cand = {'id': 'Z', 'kind': 'table', 'S': S, 'C': C, 'M': M, 'big': (S + 1, C + 1)}
        if table_fails(impl, cand):
            best = cand
            return True
        return False
    changed = True
    while changed and budget > 0:
        changed = False
        M, S, C = best['M'], best['S'], best['C']
        if S > 1 and attempt(M[:-1], S - 1, C):
            changed = True
            continue
        if C > 1 and attempt([row[:-1] for row in M], S, C - 1):
            changed = True
            continue
        for r in range(S):
            for c in range(C):
                if M[r][c] is not None:
                    M2 = [list(row) for row in M]
                    M2[r][c] = None
                    if attempt(M2, S, C):
                        changed = True
                        break
            if changed:
                break
    return best


def table_replay(tc, why):
    E = entries_of(tc['M'])
    return {'kind': 'property-failure', 'why': why[0], 'detail': why[1],
            'size': [tc['S'], tc['C']], 'text': table_text(tc['M']), 'table': entries_field(E),
            'cases': [l for _, l in table_lines(tc)]}


def search(rep, diffs, fails, impl=None):
    impl = impl or core.run_bbh
    done = 0
    for cid, line, d in fails:
        if done >= 5:
            break
        if 'table' in d:
            if done < 2:
                tc = shrink_table(impl, d['table'])
                why = table_fails(impl, tc) or (d['why'], d['detail'])
            else:
                tc, why = d['table'], (d['why'], d['detail'])
            rep.violation(table_replay(tc, why), found=True)
        else:
            rep.violation({'kind': 'property-failure', 'why': d['why'], 'token': d['token'],
                           'value': d['value'], 'token_kind': d['kind_of_token'], 'case': line}, found=True)
        done += 1
    if fails:
        return
    # divergence model/implementation and the property held on every generated well-formed input:
    # same generators, 10x budget, other seeds, implementation only
    found = 0
    for k in range(1, 4):
        _, f2, _ = evaluate(impl, None, rep.seed * 1000 + k, 'thorough' if k == 1 else 'quick')
        for cid, line, d in f2[:2]:
            if 'table' in d:
                tc = shrink_table(impl, d['table'])
                rep.violation(table_replay(tc, table_fails(impl, tc) or (d['why'], d['detail'])), found=True)
            else:
                rep.violation({'kind': 'property-failure', 'why': d['why'], 'case': line}, found=True)
            found += 1
        if found:
            return
    for cid, line, a, b in diffs[:3]:
        f = line.split('|')
        shown = None
        if f[0] in ('parse', 'tok') and f[-1]:
            try:
                shown = uncps(f[-1]) if not (f[0] == 'tok' and f[1] == 'state') else chr(int(f[-1]))
            except Exception:
                shown = None
        rep.violation({'kind': 'correspondence', 'case': line[:2000], 'input_text': shown,
                       'impl': a[:500], 'model': b[:500], 'correspondence': CORRESPONDENCE,
                       'diverging_cases': len(diffs)}, found=False)


def replay(r):
    """./check C13 --replay file : re-run the recorded cases on the current tree"""
    lines = r.get('cases') or ([r['case']] if 'case' in r else [])
    lines = [f'r{k}|{l}' for k, l in enumerate(lines)]
    core.build_bbm()
    core.build_bbh()
    h = core.run_bbh(lines)
    m = core.run_bbm(lines)
    out = dict(r)
    out['now'] = [{'case': l.split('|', 1)[1][:300], 'impl': h.get(l.split('|')[0]), 'model': m.get(l.split('|')[0])}
                  for l in lines]
    return out


# ------------------------------------------------------------------ self-test of the oracle

class PyImpl:
    """A Python re-implementation of the protocol commands on top of a
    transcription of instrs.rs, with switchable defects. Used ONLY to test that
    the oracle above notices wrong answers (the real check never runs it)."""

    def __init__(self, defect=None):
        self.d = defect

    def read_state(self, ch):
        b = ord(ch) % 256
        base = 97 if self.d == 'read_minus_97' else 65
        if b < base:
            raise ValueError
        return b - base

    def show_state(self, s):
        b = s % 256 + (97 if self.d in ('show_plus_97', 'both_97') else 65)
        if self.d == 'both_97':
            pass
        if b > 255:
            raise ValueError
        return chr(b)

    def read_instr(self, t):
        if '.' in t:
            return None
        co = int(t[0]) if t[0] in '0123456789' else int('x')
        sh = (t[1] == 'L') if self.d == 'right_inverted' else (t[1] == 'R')
        if self.d == 'both_97':
            b = ord(t[2]) % 256
            if b < 97:
                raise ValueError
            return (co, sh, b - 97)
        return (co, sh, self.read_state(t[2]))

    def show_instr(self, i):
        if i is None:
            return '..' if self.d == 'short_undef' else '...'
        co, sh, tr = i
        if self.d == 'show_shift_inverted':
            sh = not sh
        return f'{co}{"R" if sh else "L"}{self.show_state(tr)}'

    def from_str(self, s):
        s = s.strip()
        E = {}
        if self.d == 'split_single':
            rows = [' '.join(x for x in s.split(' ') if x)]
        elif self.d == 'split_triple':
            rows = s.split('   ')
        else:
            rows = s.split('  ')
        for r, row in enumerate(rows):
            toks = row.split(' ')
            for c, t in enumerate(toks):
                if t == '' or len(t) < 3 and '.' not in t:
                    raise ValueError
                i = self.read_instr(t)
                if i is not None:
                    if self.d == 'swap_rc':
                        E[(c, r)] = i
                    elif self.d == 'col_from_1':
                        E[(r, c + 1)] = i
                    elif self.d == 'last_row_lost' and r == len(rows) - 1 and r > 0:
                        pass
                    else:
                        E[(r, c)] = i
        return E

    def show(self, E, dims):
        if dims is None:
            S, C = inferred_dims(E)
            if self.d == 'none_no_plus_1':
                S, C = S - 1, C - 1
            if self.d == 'none_keys_only':
                S = 1 + max([1] + [k[0] for k in E])
                C = 1 + max([1] + [k[1] for k in E])
        else:
            S, C = dims
        sep = ' ' if self.d == 'rows_joined_by_one' else '  '
        if self.d == 'show_transposed':
            return sep.join(' '.join(self.show_instr(E.get((r, c))) for r in range(S)) for c in range(C))
        return sep.join(' '.join(self.show_instr(E.get((r, c))) for c in range(C)) for r in range(S))

    @staticmethod
    def table_of_field(f):
        E = {}
        for e in f.split(';') if f else []:
            k, v = e.split('=')
            s, c = k.split(',')
            co, sh, tr = v.split(',')
            E[(int(s), int(c))] = (int(co), sh == '1', int(tr))
        return E

    def answer(self, line):
        f = line.split('|')
        try:
            if f[0] == 'parse':
                return entries_field(self.from_str(uncps(f[1])))
            if f[0] == 'show':
                dims = None if f[2] == '-' else tuple(int(x) for x in f[2].split(','))
                return cps(self.show(self.table_of_field(f[1]), dims))
            if f[0] == 'tok':
                t = uncps(f[2])
                if f[1] == 'instr':
                    return instr_field(self.read_instr(t))
                if f[1] == 'slot':
                    return f'{self.read_state(t[0])},{int(t[1])}'
                return str(self.read_state(t[0]))
            if f[0] == 'showtok':
                if f[1] == 'instr':
                    i = None if f[2] == '-' else (int(f[2].split(',')[0]), f[2].split(',')[1] == '1',
                                                  int(f[2].split(',')[2]))
                    return cps(self.show_instr(i))
                if f[1] == 'slot':
                    s, c = f[2].split(',')
                    return cps(self.show_state(int(s)) + c)
                return str(ord(self.show_state(int(f[2]))))
        except (ValueError, IndexError):
            return 'PANIC'
        return 'PANIC'

    def __call__(self, lines):
        out = {}
        for l in lines:
            i, rest = l.split('|', 1)
            out[i] = self.answer(rest)
        return out


DEFECTS = ['split_single', 'split_triple', 'show_plus_97', 'read_minus_97', 'both_97', 'right_inverted',
           'show_shift_inverted', 'swap_rc', 'col_from_1', 'last_row_lost', 'short_undef', 'none_no_plus_1',
           'none_keys_only', 'rows_joined_by_one', 'show_transposed']


class _FakeRep:
    def __init__(self):
        self.v = []
        self.seed = 1

    def violation(self, r, found=True):
        self.v.append((r, found))


def selftest(seed=1):
    """the oracle must accept a faithful implementation and reject every defect,
    and search() must turn a defect into a concrete replay"""
    ok = True
    _, fails, info = evaluate(PyImpl(None), None, seed, 'quick')
    print(f'faithful transcription: {len(fails)} oracle failures over {info["evaluations"]} evaluations')
    ok &= not fails
    for d in DEFECTS:
        impl = PyImpl(d)
        _, fails, _ = evaluate(impl, None, seed, 'quick')
        rep = _FakeRep()
        if fails:
            search(rep, [], fails[:1], impl=impl)
        r = rep.v[0][0] if rep.v else {}
        print(f'defect {d:22s}: {len(fails):5d} failures; first: {r.get("why", "-")} '
              f'[{r.get("text", r.get("token", ""))}] {r.get("detail", "")[:90]}')
        ok &= bool(fails) and bool(rep.v) and rep.v[0][1]
    print('SELFTEST', 'OK' if ok else 'FAILED')
    return ok


if __name__ == '__main__':
    sys.exit(0 if selftest() else 1)
