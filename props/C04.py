"""C04 — backward reasoner never refutes something the machine does."""
from lib import core, gen

LEVEL = 'other'
HISTORY = {}                  # id -> calls made before it on the same thread (history cases)
BBH_FEATURES = ['reason', 'oracle']      # harness command families this check needs (fallback build, lib/core.py build_bbh)
DEPTHS = [0, 1, 2, 3, 5, 8, 13, 30, 300]
GOALS = ['halt', 'blank', 'spin']


def cases(seed, tier):
    rng = core.mkrng(seed, 'C04')
    cs = []
    dist = {}
    k = 0
    p22 = gen.corpus_2x2()
    for p in p22:
        for g in GOALS:
            for d in (DEPTHS if tier != 'quick' else [DEPTHS[(k + j) % len(DEPTHS)] for j in (0, 4, 7)]):
                cs.append((f'a{k}', f'bw|{g}|{p}|{d}'))
                k += 1
    dist['exhaustive_2x2'] = len(p22)
    n = 25000 if tier == 'quick' else 6000000
    sizes = [(3, 2), (2, 3), (3, 2), (2, 3), (4, 2), (2, 4), (3, 3), (5, 2), (6, 2), (2, 6), (4, 3)]
    for i in range(n):
        S, C = rng.choice(sizes)
        p = gen.prog_text(gen.random_table(rng, S, C, rng.choice([0.0, 0.08, 0.2]),
                                           first=(1, True, 1) if rng.random() < 0.5 else None))
        cs.append((f'r{i}', f'bw|{rng.choice(GOALS)}|{p}|{rng.choice(DEPTHS[1:])}'))
    dist['random_tables'] = n
    # the Python-facing wrappers, several questions in a row on one thread (history independence)
    nseq = 4000 if tier == 'quick' else 40000
    pool = p22[::5] + [gen.prog_text(gen.random_table(rng, *rng.choice(sizes), 0.08)) for _ in range(nseq)]
    for i in range(nseq):
        p = rng.choice(pool)
        gs = [rng.choice(GOALS) for _ in range(rng.randint(2, 4))]
        cs.append((f'q{i}', f'bwpyseq|{p}|{rng.choice(DEPTHS[1:])}|{",".join(gs)}'))
    dist['wrapper_sequences'] = nseq
    named = gen.named_machines()
    for i, p in enumerate(named):
        for g in GOALS:
            cs.append((f'n{i}{g}', f'bw|{g}|{p}|{rng.choice([3, 30, 300])}'))
    dist['named'] = len(named)
    # witnesses of the known findings first
    kf = core.known_findings()
    w = []
    for f in kf['open']:
        if 'C04' in f['properties']:
            for j, x in enumerate(f['witnesses']):
                w.append((f'k{f["id"]}_{j}', f'bw|{x["goal"]}|{x["program"]}|{x["depth"]}'))
    return w + cs, dist


def event_of(goal, naive):
    """does the naive run exhibit the refuted event? returns step or None"""
    term, erase = naive.split(';')[:2]
    t, n = term[len('term='):].split('@')
    if goal == 'halt' and t.startswith('halt:'):
        return int(n), t
    if goal == 'spin' and t == 'spinout':
        return int(n), t
    if goal == 'blank' and erase != 'erase=-':
        return int(erase[len('erase='):]), 'erase'
    return None


def falsified(cs, h, budget):
    """refutations of the implementation that a real run falsifies (native
    pre-filter, then confirmed by the extracted spec)"""
    ref = [(cid, line) for cid, line in cs if h.get(cid, '').startswith('refuted')]
    progs = sorted({line.split('|')[2] for _, line in ref})
    nv = core.run_bbh([f'p{i}|naive|{p}|{budget}' for i, p in enumerate(progs)])
    nvp = {p: nv[f'p{i}'] for i, p in enumerate(progs)}
    cand = []
    for cid, line in ref:
        _, g, p, d = line.split('|')
        ev = event_of(g, nvp[p])
        if ev:
            cand.append((cid, line, ev))
    # confirm with the extracted spec
    ol = []
    for cid, line, (n, what) in cand:
        _, g, p, d = line.split('|')
        ol.append(f'{cid}|{"erase" if g == "blank" else "plain"}|{p}|{n + 1}')
    o = core.run_bbm(ol)
    out = []
    for cid, line, (n, what) in cand:
        _, g, p, d = line.split('|')
        a = o.get(cid, '')
        ok = (a != '-' and a != '') if g == 'blank' else (
            a.startswith('halt:') if g == 'halt' else a.startswith('spinout'))
        if ok:
            out.append((cid, line, f'{h[cid]} but the machine reaches the event: {what} at step {n} (spec: {a})'
                        + (' [answer given inside a sequence of wrapper calls]' if '.' in cid else '')))
    return out, len(ref), len(progs)


def classify(fals):
    """known-finding class of each falsified refutation by model counterfactual.
    Attribution is only meaningful when the FAITHFUL model gives the same
    refutation as the implementation; otherwise the failure is new."""
    ol = []
    for cid, line, why in fals:
        _, g, p, d = line.split('|')
        ol.append(f'{cid}n|bw_nodrop|{g}|{p}|{d}')
        ol.append(f'{cid}f|bw_fullparams|{g}|{p}|{d}')
        ol.append(f'{cid}b|bw_both|{g}|{p}|{d}')
        ol.append(f'{cid}m|bw|{g}|{p}|{d}')
    o = core.run_bbm(ol)
    res = []
    for cid, line, why in fals:
        nd = o.get(cid + 'n', '')
        fp = o.get(cid + 'f', '')
        if not o.get(cid + 'm', '').startswith('refuted'):
            res.append((cid, line, why, None))
        elif not fp.startswith('refuted'):
            res.append((cid, line, why, 'F2'))
        elif not nd.startswith('refuted'):
            res.append((cid, line, why, 'F1'))
        elif not o.get(cid + 'b', '').startswith('refuted'):
            res.append((cid, line, why, 'F1+F2'))        # refuted with either repair alone, not with both
        else:
            res.append((cid, line, why, None))
    return res


def run(rep, tier, seed):
    cs, dist = cases(seed, tier)
    lines = [f'{i}|{l}' for i, l in cs]
    h = core.run_bbh(lines)
    m = core.run_bbm(lines)
    diffs = core.diff_answers(cs, h, m)
    # HISTORIES: sibling programs (one-slot edits of one table, also tables of 9+ slots) asked in a row on ONE thread:
    # the answer must not depend on what was asked before (per-thread caches, memo tables with lossy keys, reused buffers)
    hrng = core.mkrng(seed, 'C04-hist')
    hcs = gen.history_cases(hrng, 120 if tier == 'quick' else 1500, lambda r, S, C: (lambda g, d: (lambda p: f'bw|{g}|{p}|{d}'))(r.choice(GOALS), r.choice([3, 8, 13, 30])))
    hl = [f'{i}|{l}' for i, l in hcs]
    hh, hm = core.run_bbh(hl, threads=1), core.run_bbm(hl)
    diffs += core.diff_answers(hcs, hh, hm)
    cs = cs + hcs
    h.update(hh)
    m.update(hm)
    global HISTORY
    HISTORY = gen.history_of(hcs)
    # every answer inside a wrapper sequence is a claim of its own
    cs_claims = [c for c in cs if not c[1].startswith('bwpyseq')]
    h_claims = dict(h)
    for cid, line in cs:
        if line.startswith('bwpyseq'):
            _, p, d, gs = line.split('|')
            for j, (g, a) in enumerate(zip(gs.split(','), h.get(cid, '').split(','))):
                cs_claims.append((f'{cid}.{j}', f'bw|{g}|{p}|{d}'))
                h_claims[f'{cid}.{j}'] = a
    fals, nref, nprogs = falsified(cs_claims, h_claims, 10000 if tier == 'quick' else 100000)
    cl = classify(fals)
    fails = []
    counts = {'F1': 0, 'F2': 0}
    both = 0
    for cid, line, why, k in cl:
        if k is None:
            fails.append((cid, line, why))
        elif k == 'F1+F2':       # the refutation survives either repair alone and disappears with both: it rests on both call sites
            both += 1
            counts['F1'] += 1
            counts['F2'] += 1
        else:
            counts[k] += 1
            if cid.startswith('k'):
                _, g, p, d = line.split('|')
                rep.known_finding(f'{k} witness: cant_{g}("{p}", {d}) = {h_claims[cid]} although the machine does it')
    for k, n in counts.items():
        if n:
            kf = [f for f in core.known_findings()['open'] if f['id'] == k][0]
            rep.known_finding(f'{k} class ({kf["site"]}): {n} falsified refutations in this run, all attributed by the model counterfactual')
    if both:
        rep.coverage['falsified_resting_on_F1_and_F2_together'] = both
    # how many of the implementation's refutations are PROVED true by C04_bw_refuted_sound_guarded:
    # the repaired model (sw_nodrop) gives the same Refuted answer and the decidable guards hold
    refd = [(cid, line) for cid, line in cs_claims if h_claims.get(cid, '').startswith('refuted')]
    sample = refd if len(refd) <= 12000 else core.mkrng(seed, 'C04g').sample(refd, 12000)
    g = core.run_bbm([f'{cid}|bwguard|' + '|'.join(line.split('|')[1:]) for cid, line in sample])
    proved = unproved = 0
    why_not = {'answer_differs_under_nodrop (F1 branch involved)': 0, 'halt_box_not_ok (F2 guard)': 0,
               'skips_not_justified': 0, 'A0_undefined': 0}
    for cid, line in sample:
        a = g.get(cid, '').split('|')
        goal = line.split('|')[1]
        if len(a) != 4:
            unproved += 1
            continue
        same = a[0] == h_claims[cid]
        box = a[1] == '1' or goal != 'halt'
        just = a[2] == '1' or goal == 'blank'
        a0 = a[3] == '1' or goal != 'halt'
        if same and box and just and a0:
            proved += 1
        else:
            unproved += 1
            if not same:
                why_not['answer_differs_under_nodrop (F1 branch involved)'] += 1
            elif not box:
                why_not['halt_box_not_ok (F2 guard)'] += 1
            elif not just:
                why_not['skips_not_justified'] += 1
            else:
                why_not['A0_undefined'] += 1
    kinds = {}
    for cid, _ in cs_claims:
        a = h_claims.get(cid, '?').split(':')[0]
        kinds[a] = kinds.get(a, 0) + 1
    rep.coverage.update({
        'evaluations': len(cs),
        'distinct_nontrivial': len({l for i, l in cs_claims if h_claims.get(i, '').startswith('refuted:') and h_claims[i] != 'refuted:0'}),
        'rule': 'programs (2x2 exhaustive, random to 6x2/4x3/2x6, named) x goal x depth; cant_halt/cant_blank/cant_spin_out '
                'of /repo vs the extracted model incl. step numbers; every refutation of the implementation is tested '
                'against a real run (native pre-filter, confirmed by the extracted spec); falsified refutations are '
                'attributed to the known call sites F1/F2 by model counterfactuals, anything else is a violation; '
                'non-trivial = distinct cases refuted at depth > 0',
        'input_distribution': dist, 'answers': kinds,
        'refutations_tested': nref, 'programs_run': nprogs,
        'refutations_checked_against_theorem': len(sample), 'refutations_proved_true_by_guarded_theorem': proved,
        'refutations_outside_theorem': unproved, 'outside_theorem_reasons': why_not,
        'falsified_known': counts, 'falsified_new': len(fails),
        'divergences': len(diffs),
        'samples': [cs[0][1], cs[len(cs) // 2][1], cs[-1][1]],
        'explanation': 'refuted-for-the-faithful-model + guarded theorems + spec-oracle exploration; see MANIFEST',
    })
    return diffs, fails


def search(rep, diffs, fails):
    for cid, line, why in fails[:3]:
        why = gen.hist_note(why, HISTORY.get(cid))
        _, g, p, d = line.split('|')
        rep.violation({'kind': 'property-failure', 'goal': g, 'program': p, 'depth': int(d), 'why': why}, found=True)
    if fails:
        return
    # divergence only: look for a property failure on the diverging programs at all depths
    extra = []
    for cid, line, a, b in diffs[:50]:
        _, g, p, d = line.split('|')
        for dd in DEPTHS + [int(d)]:
            extra.append((f'{cid}_{dd}', f'bw|{g}|{p}|{dd}'))
    h = core.run_bbh([f'{i}|{l}' for i, l in extra])
    fals, _, _ = falsified(extra, h, 100000)
    new = [x for x in classify(fals) if x[3] is None]
    if new:
        cid, line, why, _ = new[0]
        _, g, p, d = line.split('|')
        rep.violation({'kind': 'property-failure', 'goal': g, 'program': p, 'depth': int(d), 'why': why}, found=True)
    else:
        cid, line, a, b = diffs[0]
        rep.violation({'kind': 'correspondence', 'case': line, 'impl': a, 'model': b, 'divergences': len(diffs),
                       'correspondence': 'bbh Backward::cant_* = ReasonModel.cant_*'}, found=False)
