"""C05 — segment analysis verdicts are true of the real machine."""
from lib import core, gen

LEVEL = 'proof'
HISTORY = {}                  # id -> calls made before it on the same thread (history cases)
BBH_FEATURES = ['segment', 'oracle']      # harness command families this check needs (fallback build, lib/core.py build_bbh)
GOALS = ['halt', 'blank', 'spin']
SEGS = [2, 3, 4, 5, 6, 7, 8]


def full_params(prog):
    """table size from keys AND instruction contents (the F2 counterfactual)"""
    rows = prog.split('  ')
    S = C = 0
    for r, row in enumerate(rows):
        for c, tok in enumerate(row.split(' ')):
            if '.' in tok:
                continue
            S = max(S, r + 1, ord(tok[2]) - 64)
            C = max(C, c + 1, int(tok[0]) + 1)
    return S, C


def cases(seed, tier):
    rng = core.mkrng(seed, 'C05')
    cs = []
    dist = {}
    k = 0
    p22 = gen.corpus_2x2()
    for p in p22:
        for g in GOALS:
            segs = SEGS if tier != 'quick' else [SEGS[(k + j) % len(SEGS)] for j in (0, 3)]
            for s in segs:
                cs.append((f't{k}', f'seg|{g}|{p}|2,2|{s}'))
                cs.append((f'w{k}', f'segpy|{g}|{p}|{s}'))
                k += 1
    dist['exhaustive_2x2_both_entry_points'] = len(p22)
    n = 12000 if tier == 'quick' else 3000000
    sizes = [(3, 2), (2, 3), (3, 2), (2, 3), (4, 2), (2, 4), (3, 3), (5, 2), (6, 2), (2, 6), (4, 3)]
    for i in range(n):
        S, C = rng.choice(sizes)
        p = gen.prog_text(gen.random_table(rng, S, C, rng.choice([0.0, 0.05, 0.15]),
                                           first=(1, True, 1) if rng.random() < 0.5 else None))
        g = rng.choice(GOALS)
        s = rng.choice(SEGS[:5] if tier == 'quick' else SEGS)
        if rng.random() < 0.7:
            cs.append((f't{k}', f'seg|{g}|{p}|{S},{C}|{s}'))
        else:
            cs.append((f'w{k}', f'segpy|{g}|{p}|{s}'))
        k += 1
    dist['random_tables'] = n
    for f in core.known_findings()['open']:
        for j, x in enumerate(f.get('witnesses_C05', [])):
            cs.insert(0, (f'k{f["id"]}_{j}', f'segpy|halt|{x["program"]}|{x["segs"]}'))
    named = gen.named_machines()
    for i, p in enumerate(named[:: (3 if tier == 'quick' else 1)]):
        S, C = gen.dims(p)
        g = rng.choice(GOALS)
        cs.append((f't{k}', f'seg|{g}|{p}|{S},{C}|{rng.choice([2, 4, 6])}'))
        k += 1
    dist['named'] = len(named)
    return cs, dist


def parse_naive(nv):
    f = dict(x.split('=') for x in nv.split(';'))
    t, n = f['term'].split('@')
    return t, int(n), (None if f['erase'] == '-' else int(f['erase'])), (None if f['blank'] == '-' else int(f['blank']))


def judge(goal, ans, nv):
    """None = consistent / undecided; string = falsified. nv = parsed naive run"""
    term, n, erase, blank = nv
    if ans.startswith('refuted'):
        if goal == 'halt' and term.startswith('halt'):
            return f'refuted, but the machine halts: {term} at step {n}'
        if goal == 'spin' and term == 'spinout':
            return f'refuted, but the machine spins out at step {n}'
        if goal == 'blank' and erase is not None:
            return f'refuted, but the machine erases the tape at step {erase}'
        return None
    if ans == 'halt':
        if term == 'spinout':
            return f'says halt, but the machine spins out at step {n} (never halts)'
        return None if term.startswith('halt') else 'UNDECIDED'
    if ans == 'spinout':
        if term.startswith('halt'):
            return f'says spinout, but the machine halts: {term} at step {n}'
        return None if term == 'spinout' else 'UNDECIDED'
    if ans == 'blank':
        if blank is not None:
            return None
        if term != 'limit':
            return f'says blank, but the machine terminates ({term} at {n}) without ever blanking the tape'
        return 'UNDECIDED'
    if ans == 'repeat':
        if term.startswith('halt'):
            return f'says repeat (runs forever), but the machine halts: {term} at step {n}'
        return None
    return None


def oracle(cs, h, budget):
    settled = [(cid, line) for cid, line in cs
               if h.get(cid, '') not in ('', 'PANIC', 'depth_limit', 'segment_limit')]
    progs = sorted({line.split('|')[2] for _, line in settled})
    nv = core.run_bbh([f'p{i}|naive|{p}|{budget}' for i, p in enumerate(progs)])
    nvp = {p: parse_naive(nv[f'p{i}']) for i, p in enumerate(progs)}
    fals, undec = [], []
    for cid, line in settled:
        f = line.split('|')
        why = judge(f[1], h[cid], nvp[f[2]])
        if why == 'UNDECIDED':
            undec.append((cid, line))
        elif why:
            fals.append((cid, line, why))
    # positive verdicts undecided within the budget: a translated-cycle certificate falsifies halt/spinout/blank
    ol = [f'{cid}|cert|{line.split("|")[2]}|3000' for cid, line in undec[:400]]
    o = core.run_bbm(ol) if ol else {}
    still = 0
    for cid, line in undec[:400]:
        if o.get(cid, '-') != '-':
            fals.append((cid, line, f'says {h[cid]}, but the machine is in a translated cycle from step '
                                    f'{o[cid]} (runs forever without that event)'))
        else:
            still += 1
    # confirm falsifications with the extracted spec
    conf = []
    ol = []
    for cid, line, why in fals:
        f = line.split('|')
        ol.append(f'{cid}|{"erase" if (f[1] == "blank" and h[cid].startswith("refuted")) else "plain"}|{f[2]}|{budget}')
    o = core.run_bbm(ol) if ol else {}
    for cid, line, why in fals:
        conf.append((cid, line, why + f' [spec: {o.get(cid)}]'))
    return conf, len(settled), len(progs), still + max(0, len(undec) - 400)


def classify(fals, h):
    """F2 (table size from defined keys) attribution for the wrapper entry point"""
    ol = []
    for cid, line, why in fals:
        f = line.split('|')
        ol.append(f'{cid}m|{line}')
        if f[0] == 'segpy':
            S, C = full_params(f[2])
            ol.append(f'{cid}f|seg|{f[1]}|{f[2]}|{S},{C}|{f[3]}')
    o = core.run_bbm(ol) if ol else {}
    res = []
    for cid, line, why in fals:
        f = line.split('|')
        k = None
        if f[0] == 'segpy' and o.get(cid + 'm') == h.get(cid) and o.get(cid + 'f') != h.get(cid):
            k = 'F2'
        res.append((cid, line, why, k))
    return res


def run(rep, tier, seed):
    cs, dist = cases(seed, tier)
    lines = [f'{i}|{l}' for i, l in cs]
    h = core.run_bbh(lines)
    m = core.run_bbm(lines)
    diffs = core.diff_answers(cs, h, m)
    # HISTORIES: sibling programs (one-slot edits of one table, also tables of 9+ slots) asked in a row on ONE thread:
    # the answer must not depend on what was asked before (per-thread caches, memo tables with lossy keys, reused buffers)
    hrng = core.mkrng(seed, 'C05-hist')
    hcs = gen.history_cases(hrng, 120 if tier == 'quick' else 1500, lambda r, S, C: (lambda g, s: (lambda p: f'seg|{g}|{p}|{S},{C}|{s}'))(r.choice(GOALS), r.choice([2, 3, 4, 5])))
    hl = [f'{i}|{l}' for i, l in hcs]
    hh, hm = core.run_bbh(hl, threads=1), core.run_bbm(hl)
    diffs += core.diff_answers(hcs, hh, hm)
    cs = cs + hcs
    h.update(hh)
    m.update(hm)
    global HISTORY
    HISTORY = gen.history_of(hcs)
    # the wrappers again, consecutive questions about one program on ONE thread (history independence)
    rngw = core.mkrng(seed, 'C05w')
    wcs = []
    for i, p in enumerate(gen.corpus_2x2()[::7] + gen.random_progs(rngw, 700 if tier == 'quick' else 7000)):
        s_ = rngw.choice([2, 3, 4])
        for g in rngw.sample(GOALS, 3):
            wcs.append((f'w1t{i}{g}', f'segpy|{g}|{p}|{s_}'))
    wl = [f'{i}|{l}' for i, l in wcs]
    hw = core.run_bbh(wl, threads=1)
    mw = core.run_bbm(wl)
    diffs += core.diff_answers(wcs, hw, mw)
    cs = cs + wcs
    h.update(hw)
    fals, nsettled, nprogs, undecided = oracle(cs, h, 20000 if tier == 'quick' else 200000)
    fails = []
    nf2 = 0
    for cid, line, why, k in classify(fals, h):
        if k == 'F2':
            nf2 += 1
            if cid.startswith('k'):
                f = line.split('|')
                rep.known_finding(f'F2 witness: py_segment_cant_{f[1]}("{f[2]}", {f[3]}) = {h[cid]}: {why}')
        else:
            fails.append((cid, line, why))
    if nf2:
        kf = [f for f in core.known_findings()['open'] if f['id'] == 'F2'][0]
        rep.known_finding(f'F2 class ({kf["site"]}): {nf2} falsified verdicts of py_segment_cant_* in this run, '
                          'all attributed by the model counterfactual (true table size)')
    kinds = {}
    for cid, _ in cs:
        a = h.get(cid, '?').split(':')[0]
        kinds[a] = kinds.get(a, 0) + 1
    rep.coverage.update({
        'evaluations': len(cs),
        'distinct_nontrivial': len({l for i, l in cs if h.get(i, '') not in ('', 'PANIC', 'depth_limit', 'segment_limit', 'refuted:0')}),
        'rule': 'programs (2x2 exhaustive, random to 6x2/4x3/2x6, named) x goal x segment limit, through the trait with '
                'the text table size and through the py_ wrappers (inferred size); real code vs extracted model; every '
                'settled verdict of the implementation is tested against a real run (native pre-filter, confirmed by the '
                'extracted spec; undecided positive verdicts are attacked with a translated-cycle certificate search); '
                'non-trivial = distinct cases with a settled verdict other than refuted:0',
        'input_distribution': dist, 'answers': kinds, 'verdicts_tested': nsettled, 'programs_run': nprogs,
        'positive_verdicts_undecided_in_budget': undecided,
        'falsified_known_F2': nf2, 'falsified_new': len(fails), 'divergences': len(diffs),
        'samples': [cs[0][1], cs[len(cs) // 2][1], cs[-1][1]],
        'explanation': 'partial proof + spec-oracle exploration; see MANIFEST',
    })
    return diffs, fails


def search(rep, diffs, fails):
    for cid, line, why in fails[:3]:
        why = gen.hist_note(why, HISTORY.get(cid))
        f = line.split('|')
        rep.violation({'kind': 'property-failure', 'entry': f[0], 'goal': f[1], 'program': f[2],
                       'args': f[3:], 'why': why}, found=True)
    if fails:
        return
    extra = []
    for cid, line, a, b in diffs[:40]:
        f = line.split('|')
        for s in SEGS:
            extra.append((f'{cid}_{s}', '|'.join(f[:-1] + [str(s)])))
    h = core.run_bbh([f'{i}|{l}' for i, l in extra])
    fals, _, _, _ = oracle(extra, h, 200000)
    new = [x for x in classify(fals, h) if x[3] is None]
    if new:
        cid, line, why, _ = new[0]
        f = line.split('|')
        rep.violation({'kind': 'property-failure', 'entry': f[0], 'goal': f[1], 'program': f[2],
                       'args': f[3:], 'why': why}, found=True)
    else:
        cid, line, a, b = diffs[0]
        rep.violation({'kind': 'correspondence', 'case': line, 'impl': a, 'model': b, 'divergences': len(diffs),
                       'correspondence': 'bbh Segment::seg_cant_* / py_segment_cant_* = SegmentModel'}, found=False)
