"""C01 — run-length simulator = cell-by-cell machine."""
from lib import core, gen

LEVEL = 'proof'
HISTORY = {}                  # id -> calls made before it on the same thread (history cases)
BBH_FEATURES = []      # harness command families this check needs (fallback build, lib/core.py build_bbh)
LIMITS = [0, 1, 2, 3, 4, 5, 6, 8, 11, 16, 23, 37, 64, 100, 173, 300, 1000]
REF_BUDGET = 300000          # base steps the extracted reference is asked to run


def cases(seed, tier):
    rng = core.mkrng(seed, 'C01')
    cs = []
    dist = {}
    p22 = gen.corpus_2x2()
    k = 0
    for i, p in enumerate(p22):
        for j in range(3 if tier == 'quick' else 8):
            lim = LIMITS[(i * 7 + j * 5) % len(LIMITS)]
            cs.append((f'a{k}', f'quick|{p}|{lim}'))
            k += 1
    dist['exhaustive_2x2'] = len(p22)
    nrand = 12000 if tier == 'quick' else 3000000
    rp = gen.random_progs(rng, nrand, gen.SIZES_SMALL + [(6, 6), (5, 5)])
    for i, p in enumerate(rp):
        lim = rng.choice(LIMITS + [rng.randint(1, 3000)])
        cs.append((f'r{i}', f'quick|{p}|{lim}'))
        if rng.random() < 0.3:
            cs.append((f'r{i}b', f'quick|{p}|{rng.choice(LIMITS)}'))
    dist['random_tables'] = nrand
    named = gen.named_machines()
    for i, p in enumerate(named):
        for lim in ([10, 100, 1000] if tier == 'quick' else [10, 100, 1000, 10000, 30000]):
            cs.append((f'n{i}_{lim}', f'quick|{p}|{lim}'))
    dist['named_machines'] = len(named)
    return cs, dist


def oracle_line(cid, line, ans):
    """the spec-level question for one implementation answer: ref_run at the
    step horizon the theorem prescribes"""
    f = ans.split('|')
    if len(f) != 7:
        return None
    kind, steps = f[0], int(f[1])
    L = steps if kind == 'xlimit' else steps + 1
    if L > REF_BUDGET:
        return None
    prog = line.split('|')[1]
    return f'{cid}|ref|{prog}|{L}'


def compare_with_ref(ans, ref):
    """implementation answer (quick) vs extracted reference answer (ref)"""
    a = ans.split('|')
    r = ref.split('|')
    if len(a) != 7 or len(r) != 5:
        return f'unreadable: impl={ans[:80]} ref={ref[:80]}'
    kind, steps, cycles, marks, rulapp, slot, blanks = a
    rk, rs, rm, rslot, rb = r
    for name, x, y in (('termination kind', kind, rk), ('base steps', steps, rs), ('marks', marks, rm),
                       ('halting slot', slot, rslot), ('blank record', blanks, rb)):
        if x != y:
            return f'{name}: simulator says {x}, cell-by-cell reference says {y}'
    return None


def run(rep, tier, seed):
    cs, dist = cases(seed, tier)
    lines = [f'{i}|{l}' for i, l in cs]
    h = core.run_bbh(lines)
    m = core.run_bbm(lines)
    diffs = core.diff_answers(cs, h, m)
    # HISTORIES: sibling programs (one-slot edits of one table, also tables of 9+ slots) asked in a row on ONE thread:
    # the answer must not depend on what was asked before (per-thread caches, memo tables with lossy keys, reused buffers)
    hrng = core.mkrng(seed, 'C01-hist')
    hcs = gen.history_cases(hrng, 120 if tier == 'quick' else 1500, lambda r, S, C: (lambda lim: (lambda p: f'quick|{p}|{lim}'))(r.choice([5, 13, 30, 100, 400])))
    hl = [f'{i}|{l}' for i, l in hcs]
    hh, hm = core.run_bbh(hl, threads=1), core.run_bbm(hl)
    diffs += core.diff_answers(hcs, hh, hm)
    cs = cs + hcs
    h.update(hh)
    m.update(hm)
    global HISTORY
    HISTORY = gen.history_of(hcs)
    # spec-level oracle on every implementation answer within the budget
    olines = []
    for cid, line in cs:
        ol = oracle_line(cid, line, h.get(cid, ''))
        if ol:
            olines.append(ol)
    ref = core.run_bbm(olines)
    fails = []
    checked = 0
    nontrivial = set()
    byid = dict(cs)
    for ol in olines:
        cid = ol.split('|')[0]
        checked += 1
        why = compare_with_ref(h[cid], ref.get(cid, 'MISSING'))
        if why:
            fails.append((cid, byid[cid], why))
        a = h[cid].split('|')
        if int(a[1]) > int(byid[cid].split('|')[2]) and int(a[1]) > 0:     # steps > cycles: a sweep happened
            nontrivial.add(byid[cid])
    rep.coverage.update({
        'evaluations': len(cs),
        'distinct_nontrivial': len(nontrivial),
        'oracle_checked': checked,
        'rule': 'programs x cycle limits; run_quick_machine of /repo (bbh) vs extracted model (bbm) on all seven '
                'result fields, and every implementation answer whose step horizon fits the budget is re-decided '
                'by the extracted cell-by-cell reference ref_run (spec); non-trivial = distinct (program, limit) '
                'with at least one multi-cell sweep (steps > cycles)',
        'input_distribution': dist,
        'divergences': len(diffs),
        'samples': [cs[5][1], cs[len(cs) // 2][1], cs[-1][1]],
    })
    return diffs, fails


def shrink_limit(prog, lim, bad):
    """smallest cycle limit at which [bad(prog, lim)] still holds"""
    lo = 0
    for l in range(0, min(lim, 400) + 1):
        if bad(prog, l):
            return l
    return lim


def search(rep, diffs, fails):
    def spec_fails(prog, lim):
        cid = 'z'
        a = core.run_bbh([f'{cid}|quick|{prog}|{lim}']).get(cid, '')
        ol = oracle_line(cid, f'quick|{prog}|{lim}', a)
        if not ol:
            return None
        r = core.run_bbm([ol]).get(cid, '')
        return compare_with_ref(a, r)
    done = 0
    for cid, line, why in fails[:3]:
        why = gen.hist_note(why, HISTORY.get(cid))
        _, prog, lim = line.split('|')
        lim = int(lim)
        l2 = shrink_limit(prog, lim, lambda p, l: spec_fails(p, l) is not None)
        rep.violation({'kind': 'property-failure', 'program': prog, 'cycle_limit': l2,
                       'why': spec_fails(prog, l2) or why,
                       'impl': core.run_bbh([f'z|quick|{prog}|{l2}']).get('z')}, found=True)
        done += 1
    if done:
        return
    # divergence model/impl without a spec failure so far: search neighbours
    for cid, line, a, b in diffs[:3]:
        _, prog, lim = line.split('|')
        found = None
        for l in list(range(0, 60)) + [int(lim), int(lim) + 1, 100, 300, 1000]:
            w = spec_fails(prog, l)
            if w:
                found = (l, w)
                break
        if found:
            rep.violation({'kind': 'property-failure', 'program': prog, 'cycle_limit': found[0],
                           'why': found[1]}, found=True)
        else:
            rep.violation({'kind': 'correspondence', 'case': line, 'impl': a, 'model': b,
                           'correspondence': 'bbh run_quick_machine = MachineModel.run_quick'}, found=False)
