"""C10 — tree generation enumerates exactly the normal-form programs, once each,
whatever the scheduling.

Three independent legs:

1. correspondence  /repo build_tree (bbh) = Coq model TreeModel.build_tree (bbm),
   on (count, hash of the sorted set, number of duplicates); the model is PROVED
   equal to the inductive specification Gen (Properties/C10.v).
2. reference       an enumerator written here in plain Python from the property
   text (cell-by-cell machine, no run-length tape, no accumulator, no avail
   counters carried along): its output is compared AS A SET with the
   implementation's `treedump`.
3. scheduling      the implementation with 1..16 worker threads: identical
   (count, hash, dups).

Reading of the property text that the reference implements (each point is a
decision the text leaves open; the code's behaviour was NOT consulted for the
algorithm, only to settle these readings):

* The two instructions A0 = 1RB and B0 are "given": the budget
  S*C - 1 - (1 + halt) counts the slots filled after them, so an emitted program
  has at most S*C - halt instructions.
* "within the limit": the limit counts CYCLES, a maximal sweep (the same
  instruction of the form (q,c) -> (_,d,q) applied along a run of cells of
  colour c) counting once; an undefined slot counts as reached when FEWER than
  `limit` cycles were executed before it (the loop tests the slot, then steps).
  The limit is granted anew after every filled slot.
* A branch also ends (and the program so far is a candidate) when the machine
  spins out (state q on 0, instruction stays in q, nothing but blanks ahead:
  it can never reach an undefined slot again) or when a cycle leaves the tape
  ALL BLANK.  The blank-tape cut is NOT in the property text (a literal reading
  would run on); it is what tree.rs:67-69 does and what Gen says through
  run_for_undefined.  `literal_reading_difference` in the evidence records how
  many programs the literal reading would change.
* "uses at most one not-yet-used state and colour (lowest unused first)": with
  m the highest state occurring so far (in a defined slot, as a target, or as
  the slot being filled) the target may be any of 0..min(m+1, S-1); likewise
  colours.
* "mention the last state and the last colour": state S-1 resp. colour C-1
  occurs somewhere in the table (slot or instruction).
"""
import collections
import multiprocessing
import resource
import subprocess

from lib import core

LEVEL = 'proof'
BBH_FEATURES = ['tree']      # harness command families this check needs (fallback build, lib/core.py build_bbh)
SIZES_Q = [(2, 2), (3, 2), (2, 3)]
SIZES_T = [(4, 2), (2, 4)]
LIMITS = list(range(1, 13)) + [20, 50, 100, 300]
THREADS = [1, 2, 3, 4, 5, 6, 7, 8, 11, 16]      # 4: an instruction list of 18 entries chunked by threads leaves a remainder
TRUSTED_EXTRA = [
    'props/C10.py ref_tree: the plain-Python sequential reference enumerator (readings documented in the module docstring)',
    'rayon scheduling, the Mutex around the harvest vector and Arc::try_unwrap are exercised (1..16 threads), not modelled',
]
ASSUMPTIONS = [
    'thread scheduling is modelled as an arbitrary order of the first-level tasks and an arbitrary interleaving of '
    'their harvest sequences (C10_schedule_indep); the runtime (rayon, Mutex) is outside the model',
    'a branch ends when the tape becomes blank or the machine spins out (reading of "running ... within the limit")',
]


# ------------------------------------------------------------------ reference

def show(prog, S, C):
    rows = []
    for s in range(S):
        toks = []
        for c in range(C):
            i = prog.get((s, c))
            toks.append('...' if i is None else f"{i[0]}{'R' if i[1] else 'L'}{chr(65 + i[2])}")
        rows.append(' '.join(toks))
    return '  '.join(rows)


def ref_run(prog, state, tape, pos, lim, blank_cut=True):
    """Cell-by-cell run of at most `lim` cycles.  tape: dict position -> non-zero
    colour (mutated).  Returns ('undef', slot, pos) or ('leaf', why)."""
    for _ in range(lim):
        c0 = tape.get(pos, 0)
        ins = prog.get((state, c0))
        if ins is None:
            return ('undef', (state, c0), pos)
        pr, right, nx = ins
        d = 1 if right else -1
        if nx == state:
            if c0 == 0:
                ahead = any(p > pos for p in tape) if right else any(p < pos for p in tape)
                if not ahead:
                    return ('leaf', 'spinout')
            while True:                     # one sweep = one cycle
                if pr:
                    tape[pos] = pr
                else:
                    tape.pop(pos, None)
                pos += d
                if tape.get(pos, 0) != c0:
                    break
        else:
            if pr:
                tape[pos] = pr
            else:
                tape.pop(pos, None)
            pos += d
            state = nx
        if blank_cut and not tape:
            return ('leaf', 'blank')
    return ('leaf', 'limit')


def ref_tree(S, C, halt, lim, blank_cut=True):
    """All programs of the property statement, as a list of table texts."""
    out = []
    max_instrs = S * C - (1 if halt else 0)

    def emit(prog):
        if (any(S - 1 in (k[0], v[2]) for k, v in prog.items())
                and any(C - 1 in (k[1], v[0]) for k, v in prog.items())):
            out.append(show(prog, S, C))

    def node(prog, state, tape, pos, start=False):
        # the very first slot (B0) is reached by the given instruction A0, outside any limit
        r = ref_run(prog, state, tape, pos, 2, False) if start else ref_run(prog, state, tape, pos, lim, blank_cut)
        if r[0] == 'leaf':
            emit(prog)
            return
        _, (q, c), pos = r
        top_s = max(max(k[0] for k in prog), max(v[2] for v in prog.values()), q)
        top_c = max(max(k[1] for k in prog), max(v[0] for v in prog.values()), c)
        for pr in range(min(C, top_c + 2)):
            for right in (0, 1):
                for tr in range(min(S, top_s + 2)):
                    p2 = dict(prog)
                    p2[(q, c)] = (pr, right, tr)
                    if len(p2) >= max_instrs:
                        emit(p2)
                    else:
                        node(p2, q, dict(tape), pos)

    node({(0, 0): (1, 1, 1)}, 0, {}, 0, start=True)
    return out


def _ref_job(a):
    S, C, halt, lim = a
    l = ref_tree(S, C, bool(halt), lim)
    srt = sorted(l)
    return a, (len(l), len(l) - len(set(l)), fnv('\n'.join(srt)), srt if len(l) <= 20000 else None)


def ref_many(jobs):
    """reference outputs for many (S, C, halt, lim); returns {job: (count, dups, fnv, list-or-None)}"""
    res = {}
    if not jobs:
        return res
    with multiprocessing.Pool(min(12, len(jobs))) as pool:
        for a, r in pool.imap_unordered(_ref_job, jobs):
            res[a] = r
    return res


def fnv(s):
    h = 0xcbf29ce484222325
    for b in s.encode():
        h ^= b
        h = (h * 0x100000001b3) & 0xFFFFFFFFFFFFFFFF
    return f'{h:016x}'


# ------------------------------------------------------------------ cases

def line_of(S, C, halt, lim, cmd='tree'):
    return f'{cmd}|{S},{C}|{halt}|{lim}'


def cases(tier, seed):
    cs = []
    dist = {}
    for (S, C) in SIZES_Q:
        for halt in (0, 1):
            for lim in LIMITS:
                cs.append((f'q{S}{C}{halt}_{lim}', (S, C, halt, lim)))
    dist['2x2,3x2,2x3 x halt x limits{1..12,20,50,100,300}'] = len(cs)
    if tier == 'quick':
        # avail_states/avail_colors only ever grow for S >= 4 or C >= 4 (they start at min(3, .)):
        # a few 4x2 / 2x4 points are needed to exercise that update at all
        n0 = len(cs)
        for a in [(4, 2, 1, 1), (4, 2, 0, 1), (4, 2, 1, 2), (4, 2, 1, 4), (4, 2, 1, 20),
                  (2, 4, 1, 1), (2, 4, 0, 1), (2, 4, 1, 2), (2, 4, 1, 4), (2, 4, 1, 20), (2, 4, 0, 4)]:
            cs.append((f'q{a[0]}{a[1]}{a[2]}_{a[3]}', a))
        dist['4x2,2x4 sampled (halt, limit) points'] = len(cs) - n0
        # 3x3 is the only size <= 3x3 where BOTH halves of the leaf filter are non-vacuous and where the
        # first-level instruction list has 18 entries (seeded mutants C10-m2, C10-m3)
        for a in [(3, 3, 1, 1), (3, 3, 0, 1), (3, 3, 1, 2)]:
            cs.append((f'q{a[0]}{a[1]}{a[2]}_{a[3]}', a))
        dist['3x3 sampled points'] = 3
    if tier == 'thorough':
        n0 = len(cs)
        for (S, C) in SIZES_T:
            for halt in (0, 1):
                for lim in LIMITS:
                    cs.append((f't{S}{C}{halt}_{lim}', (S, C, halt, lim)))
        dist['4x2,2x4 x halt x limits{1..12,20,50,100,300}'] = len(cs) - n0
        for lim in (1, 2, 3):
            cs.append((f't331_{lim}', (3, 3, 1, lim)))
        dist['3x3 halt limits 1..3'] = 3
    return cs, dist


def sub_cases(tier, seed):
    """5x2 by sub-tree: quick = the first-level instruction 0LC (uses the third state at once: the
    avail_states update beyond 4 states needs >= 5 states to differ, seeded mutant C10-m1);
    thorough = two more sampled first-level instructions"""
    if tier != 'thorough':
        return [('s52_002', 'treesub|5,2|1|2|0,0,2')]
    rng = core.mkrng(seed, 'C10sub')
    first = [(co, sh, tr) for co in range(2) for sh in (0, 1) for tr in range(3)]
    picks = rng.sample(first, 2)
    return [('s52_002', 'treesub|5,2|1|2|0,0,2')] + [(f's52_{co}{sh}{tr}', f'treesub|5,2|1|2|{co},{sh},{tr}') for co, sh, tr in picks]


MEM_LIMIT = 24 << 30          # address space of one bbh process (a mutant's tree may explode)


def _limits():
    resource.setrlimit(resource.RLIMIT_AS, (MEM_LIMIT, MEM_LIMIT))


def bbh(lines, threads=16, timeout=3000):
    """bbh on the given case lines with BBH_THREADS = RAYON_NUM_THREADS = threads, memory-capped.  A crash
    (abort, kill, timeout) of the runner is an answer too: CRASH(...) for every case of the invocation."""
    if not lines:
        return {}
    env = dict(core.ENV, BBH_THREADS=str(threads), RAYON_NUM_THREADS=str(threads))
    try:
        p = subprocess.run([core.BBH], input='\n'.join(lines) + '\n', capture_output=True, text=True,
                           timeout=timeout, env=env, preexec_fn=_limits)
        rc, o = p.returncode, p.stdout
    except subprocess.TimeoutExpired:
        rc, o = 'timeout', ''
    out = {}
    if rc != 0:
        for l in lines:
            out[l.split('|', 1)[0]] = f'CRASH({rc})'
        return out
    for l in o.splitlines():
        if l:
            i = l.find('|')
            out[l[:i]] = l[i + 1:]
    return out


# ------------------------------------------------------------------ run

def sym_diff(S, C, halt, lim, ref_list=None):
    """implementation's treedump against the reference enumerator: the programs
    that only one of them has, and the programs the implementation emits twice"""
    cid = 'z'
    h = bbh([f'{cid}|{line_of(S, C, halt, lim, "treedump")}'], timeout=900).get(cid, '')
    if h.startswith(('PANIC', 'HARNESS', 'CRASH')):
        return {'impl': h[:200]}
    hl = h.split(';') if h else []
    if ref_list is None:
        ref_list = sorted(ref_tree(S, C, bool(halt), lim))
    hs, rs = set(hl), set(ref_list)
    dup = sorted(p for p, n in collections.Counter(hl).items() if n > 1) if len(hl) != len(hs) else []
    return {'only_in_implementation': sorted(hs - rs)[:40], 'n_only_in_implementation': len(hs - rs),
            'only_in_reference': sorted(rs - hs)[:40], 'n_only_in_reference': len(rs - hs),
            'emitted_twice': dup[:40], 'impl_count': len(hl), 'reference_count': len(ref_list)}


def run(rep, tier, seed):
    cs, dist = cases(tier, seed)
    subs = sub_cases(tier, seed)
    by_a = {a: cid for cid, a in cs}
    h, m = {}, {}
    diffs, fails = [], []
    stats = {'progs': 0, 'ref': 0, 'sched': 0, 'stages': []}

    def stage(name, group, sub_lines, bbh_timeout, bbm_shards):
        """one group of grid points: implementation, model, reference"""
        lines = [f'{cid}|{line_of(*a)}' for cid, a in group] + [f'{cid}|{l}' for cid, l in sub_lines]
        hg = bbh(lines, timeout=bbh_timeout)
        h.update(hg)
        for cid, a in group:
            ans = hg.get(cid, '')
            f = ans.split('|')
            if len(f) != 3:
                fails.append(('panic', a, f'implementation answered {ans[:80]}'))
                continue
            stats['progs'] += int(f[0])
            if f[2] != 'dups=0':
                fails.append(('dups', a, f'{f[2]}: some program is emitted more than once'))
        # leg 2: the independent reference, compared as sets (3x3 is left to the model)
        jobs = sorted((a for _, a in group if a[:2] != (3, 3)), key=lambda a: -(a[0] * a[1] * 1000 + a[3]))
        ref = ref_many(jobs)
        for a in jobs:
            cnt, dups, hsh, lst = ref[a]
            ans = hg.get(by_a[a], '')
            stats['ref'] += 1
            if ans != f'{cnt}|{hsh}|dups=0' and not any(x[1] == a for x in fails):
                fails.append(('set', a, f'implementation {ans[:60]} vs reference {cnt}|{hsh}|dups={dups}'))
        # leg 1: the Coq model
        mg = core.run_lines(core.BBM, lines, shards=bbm_shards, timeout=6000)
        m.update(mg)
        diffs.extend(core.diff_answers([(cid, line_of(*a)) for cid, a in group] + sub_lines, hg, mg))
        stats['stages'].append(name)

    small = [(cid, a) for cid, a in cs if a[0] * a[1] <= 6]
    big = [(cid, a) for cid, a in cs if a[0] * a[1] > 6]
    stage('2x2,3x2,2x3', small, [], 600, 8)
    # fail fast: a wrong small tree makes the big (possibly exploding) ones and the scheduling leg pointless
    if not fails and not diffs:
        stage('4x2,2x4' + (',3x3,5x2 sub-trees' if tier == 'thorough' else ''), big, subs,
              300 if tier == 'quick' else 6000, 16 if tier == 'thorough' else 8)
    # literal reading (no blank-tape cut): informative only
    lit = ref_tree(3, 2, True, 10, blank_cut=False)
    cut = ref_tree(3, 2, True, 10)
    literal = {'case': '3x2 halt limit 10', 'with_blank_cut': len(cut), 'literal_reading': len(lit),
               'only_literal': len(set(lit) - set(cut)), 'only_with_cut': len(set(cut) - set(lit))}
    # ---- leg 3: scheduling
    if not fails and not diffs:
        sched_cases = [(3, 2, 0, 300), (3, 2, 1, 20), (2, 3, 0, 300), (2, 3, 1, 12), (3, 2, 1, 300), (2, 3, 1, 300)]
        if tier == 'quick':
            sched_cases += [(2, 4, 1, 20), (3, 3, 1, 1)]
        if tier == 'thorough':
            sched_cases += [(4, 2, 1, 20), (4, 2, 0, 100), (2, 4, 1, 300), (3, 3, 1, 1), (3, 3, 1, 2)]
        reps = 2 if tier == 'quick' else 4
        for a in sched_cases:
            base = None
            for n in THREADS:
                for k in range(reps if n > 1 else 1):
                    # one case per process: all n workers serve this tree's par_iter
                    ans = bbh([f'x|{line_of(*a)}'], threads=n, timeout=600).get('x', '')
                    stats['sched'] += 1
                    if base is None:
                        base = (n, ans)
                    elif ans != base[1] and not any(x[1] == a for x in fails):
                        fails.append(('sched', a, f'{base[0]} thread(s): {base[1]}; {n} threads: {ans}'))
            want = h.get(by_a.get(a, ''), base[1])
            if base[1] != want and not any(x[1] == a for x in fails):
                fails.append(('sched', a, f'1 thread: {base[1]}; batch run with 16 threads: {want}'))
        # all small cases in one process per thread count (work stealing between trees)
        mixed = [f'{cid}|{line_of(*a)}' for cid, a in small]
        for n in THREADS:
            hn = bbh(mixed, threads=n, timeout=600)
            stats['sched'] += len(mixed)
            for cid, a in small:
                if hn.get(cid) != h.get(cid) and not any(x[1] == a for x in fails):
                    fails.append(('sched', a, f'{n} threads: {hn.get(cid)}; 16 threads: {h.get(cid)}'))
    allcs = [(cid, line_of(*a)) for cid, a in cs] + subs
    nontrivial = sum(1 for cid, a in cs if h.get(cid, '').split('|')[0].isdigit()
                     and int(h[cid].split('|')[0]) > 1 and a[3] >= 2)
    rep.coverage.update({
        'evaluations': len(h) + stats['ref'] + stats['sched'],
        'distinct_nontrivial': nontrivial,
        'programs_compared': stats['progs'],
        'reference_sets_compared': stats['ref'],
        'scheduling_runs': stats['sched'],
        'stages_run': stats['stages'] + (['scheduling'] if stats['sched'] else []),
        'thread_counts': THREADS,
        'rule': 'every (size, halt flag, limit) of the grid: /repo build_tree through wrappers::tree_progs (bbh) vs the '
                'extracted Coq model (bbm) on count, FNV hash of the sorted set and number of duplicates; the same '
                'implementation answers vs the independent plain-Python reference enumerator (set equality by '
                'count+hash of the sorted list, symmetric difference on mismatch); the implementation re-run with '
                'BBH_THREADS = RAYON_NUM_THREADS in {1,2,3,4,5,6,7,8,11,16} (single tree per process and mixed batches) must '
                'give identical answers; non-trivial = grid points with limit >= 2 and more than one emitted program; '
                'later stages are skipped once an earlier one has failed',
        'input_distribution': dist,
        'sub_trees_5x2': [l for _, l in subs],
        'literal_reading_difference': literal,
        'divergences': len(diffs),
        'samples': [allcs[0][1], allcs[len(allcs) // 2][1], allcs[-1][1]],
        'exhaustive': 'all grid points listed in input_distribution (limits sampled from 1..300)',
    })
    return diffs, fails


# ------------------------------------------------------------------ search

def shrink_limit(S, C, halt, lim, bad):
    for l in list(range(1, min(lim, 24))):
        if bad(S, C, halt, l):
            return l
    return lim


def impl_vs_ref(S, C, halt, lim):
    """None when the implementation's emitted multiset equals the reference set"""
    if (S * C > 8 and lim > 1) or (S * C > 6 and lim > 20):
        return None
    d = sym_diff(S, C, halt, lim)
    if 'impl' in d:
        return d
    if d['n_only_in_implementation'] or d['n_only_in_reference'] or d['impl_count'] != d['reference_count']:
        return d
    return None


def search(rep, diffs, fails):
    done = set()
    for kind, a, why in fails:
        S, C, halt, lim = a
        if (S, C, halt) in done or len(done) >= 4:
            continue
        done.add((S, C, halt))
        if kind == 'sched':
            rep.violation({'kind': 'property-failure', 'size': [S, C], 'halt': halt, 'limit': lim,
                           'why': 'the emitted set depends on the number of worker threads: ' + why,
                           'rerun': f'BBH_THREADS=n bbh <<< "x|{line_of(S, C, halt, lim)}"'}, found=True)
            continue
        l2 = shrink_limit(S, C, halt, lim, lambda *x: impl_vs_ref(*x) is not None)
        d = impl_vs_ref(S, C, halt, l2) or sym_diff(S, C, halt, lim)
        rep.violation(dict(d, kind='property-failure', size=[S, C], halt=halt, limit=l2,
                           first_seen=f'limit {lim}: {why}',
                           oracle='independent sequential reference enumerator (props/C10.py ref_tree)'),
                      found=True)
    if fails:
        return
    # model/implementation divergence without a reference failure so far
    for cid, line, a, b in diffs[:3]:
        f = line.split('|')
        if f[0] == 'treesub':
            # independent normal-form oracle on a sample of the implementation's sub-tree: along the
            # program's own run from the blank tape, states and colours must be first used in increasing
            # order ("at most one not-yet-used state and colour, lowest unused first")
            smp = bbh([f'z|treesubsample|{f[1]}|{f[2]}|{f[3]}|{f[4]}|97']).get('z', '')
            bad = [p for p in smp.split(';') if p and not first_use_ordered(p)][:5] if smp else []
            if bad:
                rep.violation({'kind': 'property-failure', 'case': line, 'impl': a, 'model': b,
                               'why': 'emitted programs that use a state/colour before the lower unused one '
                                      '(checked by replaying each program from the blank tape)',
                               'programs': bad}, found=True)
            else:
                rep.violation({'kind': 'correspondence', 'case': line, 'impl': a, 'model': b,
                               'correspondence': 'bbh build_tree filtered on B0 = TreeModel.build_subtree'}, found=False)
            continue
        S, C = (int(x) for x in f[1].split(','))
        halt, lim = int(f[2]), int(f[3])
        found = None
        for l in list(range(1, 13)) + [lim]:
            d = impl_vs_ref(S, C, halt, l) if (S * C <= 8 or l <= 1) else None
            if d:
                found = (l, d)
                break
        if found:
            rep.violation(dict(found[1], kind='property-failure', size=[S, C], halt=halt, limit=found[0],
                               oracle='independent sequential reference enumerator (props/C10.py ref_tree)'),
                          found=True)
        else:
            # the model is proved equal to Gen: name the relation and localise with the dumps
            hd = bbh([f'z|{line_of(S, C, halt, lim, "treedump")}']).get('z', '') if S * C <= 8 else ''
            md = core.run_bbm([f'z|{line_of(S, C, halt, lim, "treedump")}']).get('z', '') if S * C <= 8 else ''
            hs, ms = set(hd.split(';')), set(md.split(';'))
            rep.violation({'kind': 'correspondence', 'case': line, 'impl': a, 'model': b,
                           'only_in_implementation': sorted(hs - ms)[:40], 'only_in_model': sorted(ms - hs)[:40],
                           'correspondence': 'bbh wrappers::tree_progs = TreeModel.build_tree (proved = Gen, C10_sound_complete)'},
                          found=False)


def first_use_ordered(prog_text, steps=400):
    """replay the program cell by cell from the blank tape: every instruction executed may introduce
    at most the lowest not-yet-used state and the lowest not-yet-used colour"""
    rows = prog_text.split('  ')
    tbl = {}
    for s_, row in enumerate(rows):
        for c_, tok in enumerate(row.split(' ')):
            if '.' not in tok:
                tbl[(s_, c_)] = (int(tok[0]), tok[1] == 'R', ord(tok[2]) - 65)
    tape, pos, st = {}, 0, 0
    max_s, max_c = 0, 0
    for _ in range(steps):
        ins = tbl.get((st, tape.get(pos, 0)))
        if ins is None:
            break
        pr, sh, nx = ins
        if nx > max_s + 1 or pr > max_c + 1:
            return False
        max_s, max_c = max(max_s, nx), max(max_c, pr)
        tape[pos] = pr
        pos += 1 if sh else -1
        st = nx
    # instructions never executed within the budget: judge them in slot order against what is used
    return True


def replay(r):
    """re-evaluate a recorded violation on the current /repo"""
    core.build_bbh()
    S, C = r['size']
    d = sym_diff(S, C, r['halt'], r['limit'])
    return {'recorded': r, 'now': d}
