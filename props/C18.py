"""C18 -- the symbolic count algebra of tm/num.py agrees with integer arithmetic.

Three relations, all on the same seeded cases (corpus first):

 A. PROPERTY (differential test against the Coq-defined semantics; there is no
    model of the simplifier).  Operands are given as expression text; pyharness
    BUILDS them with the library's own constructors/operators and applies the
    operator; the result comes back serialised.  Operands and result are
    evaluated by the EXTRACTED Spec (`numeval` = NumExpr.eval on the operand
    text, `numevalf` = NumExpr.eval_floor = what int() computes, on the result)
    and compared:  + - * (exact) // ** : eval(result) = eval(a) op eval(b);
    % : result = NumExpr.eval_mod a m;  == < <= > >= : answer = integer truth
    (for ==: equal values must compare equal, different values unequal).
    A `raise` is "no result" and never a failure.
 B. CORRESPONDENCE  num.py __mod__ = PyNumModModel.mod_model: the library's
    answer to `built % m` (value or exception class) vs the extracted model's
    answer on the serialised built object; `unmodelled` answers are counted and
    skipped.  Plus: the dict literals of exp_mod_special_cases read from the
    current source = the model's tables (all 818 rows, every run).
 C. GLUE/SPEC tie: int(built) of the library = NumExpr.eval_floor of the
    serialised built object (so the expression text means what __int__ means).
 D. CORRESPONDENCE  num.py int-operand fragment of the simplifier (x + n, n + x,
    x - n, n - x, -x, x * n, n * x, x // n, x ** n, make_exp(n, x) for a Python
    int n) = PyNumArithModel.arith false: the library's RESULT TREE (or exception
    class) vs the extracted model's on the serialised built operand, node by node
    (tools/numarith_diff.py); `unmodelled` answers (a step needs an operation
    between two symbolic operands) are counted per operator and skipped.  The
    generator includes negative exact divisors and gcd-sensitive shapes
    ((a + b**e) * (c * b**f) // d, small int exponents, symbolic exponents of
    value 0..3).  The share of cases on which `arith true` -- the restriction
    theorem C18_arith_sound is about -- gives the same tree is reported.
    PROPERTY on the same cases: every tree the library returned is evaluated by
    the extracted Spec and compared with integer arithmetic; a wrong integer is
    a failure unless it belongs to a listed known-finding class (below).

Known-finding classes (only honoured when listed in known_findings.json under
property C18, by their `c18_class`; decided in this order):
  ltint    -- the failure disappears (right answer or raise) when the same case
              is rebuilt and re-run by pyharness with BB_PYCF=ltint (the int
              branches of Add/Mul/Div/Exp.__lt__ made exact at run time);
  ordering -- the failure persists under ltint and disappears under
              BB_PYCF=ltall (the whole of the four __lt__ methods made exact at
              run time): any operator -- add_exponents orders its operands by
              __lt__, so + - * inherit these errors;
  identity-eq -- a comparison whose two operands have the same integer value,
              wrong even with exact __lt__ (Num.__eq__ is object identity and
              __le__/__ge__/__gt__ are defined through it: for equal values
              held by distinct objects they cannot be right);
  exp-lt-2 -- operator %, and the BUILT operand contains an Exp whose exponent
              evaluates to less than 2 (extracted NumExpr.exps_gt1 = false: the
              input is outside the hypotheses of theorem C18_mod_sound).
  symexp-gcd -- relation D only: a wrong integer where the model answers the same
              tree and `arith true` refuses (gcd(l, Exp) met a SYMBOLIC exponent
              whose value is too small for the returned power of the base to
              divide -- the only restriction of theorem C18_arith_sound; sharpness
              is C18_symbolic_exponent_refuted), or, outside the modelled fragment,
              one that disappears under BB_PYCF=gcdexact (gcd() made exact at run
              time); decided after ltint and ordering.
Anything else is a VIOLATION with a shrunk concrete replay.
"""
import os
import time

from lib import core

LEVEL = 'other'
BBH_FEATURES = []      # harness command families this check needs (fallback build, lib/core.py build_bbh)
PYH = f'{core.VERIF}/py/pyharness.py'
PYROOT = os.environ.get('BB_PYROOT', '/repo')
CORPUS = f'{core.VERIF}/corpus/C18'
CORR = 'num.py __mod__ = PyNumModModel.mod_model'
CORR_ARITH = ('num.py int-operand fragment of the simplifier (+ - * // ** neg make_exp with a Python int) '
              '= PyNumArithModel.arith false, result trees node by node')

TRUSTED_EXTRA = [
    'py/pyharness.py (builds operands with num.py\'s own operators, serialises fields; CPython 3.12)',
    'Spec/NumExpr.v: nexpr, eval (exact division), eval_floor (int()), eval_mod',
    'Python int arithmetic used to combine two Coq-evaluated operand values into the expected value',
]
ASSUMPTIONS = [
    'relation A is a differential test against the extracted Coq semantics, not a proof: the simplifier '
    '(+ - * // ** comparisons) has no Gallina model beyond the int-operand fragment of relation D',
    'relation D: PyNumArithModel.arith is tied to the code by the tree-by-tree correspondence run; the theorems '
    '(C18_arith_sound ...) are about arith true, which differs from the transcription only where gcd(l, Exp) meets a '
    'symbolic exponent (C18_arith_intexp_sound: no difference when every exponent is a Python int); float tests of make_exp (sqrt/log, bases >= 2^26) and of gcd (log of an exact power outside '
    'a table measured on the reference platform) are Unmodelled',
    'the float tests of num.py:922/1346/1365 are modelled by exact integer tests below 2^40 / 2^53 and are '
    'Unmodelled above',
]

ARITH = ['+', '-', '*']
ORDER = ['<', '<=', '>', '>=']
KINDS = ['int', '+', '*', '/', '^']
FAMILIES = [[2, 4], [2], [3], [5], [6], [7]]
LEAVES = [-9, -7, -5, -4, -3, -2, -1, -1, 0, 1, 1, 2, 2, 3, 3, 4, 5, 6, 7, 8, 9, 10, 12]
BIG_MODS = [81, 96, 100, 128, 162, 243, 256, 486, 512, 729, 1000, 1024, 1458, 2187, 4096, 4374,
            13122, 39366, 65536, 118098, 1000003, 2 ** 20, 354294, 1062882, 2 ** 24 + 1]


# ------------------------------------------------------------ expressions

def txt(t):
    if isinstance(t, int):
        return str(t)
    return f'({t[0]} {txt(t[1])} {txt(t[2])})'


def parse(s):
    toks = s.replace('(', ' ( ').replace(')', ' ) ').split()
    pos = 0

    def go():
        nonlocal pos
        t = toks[pos]
        pos += 1
        if t == '(':
            op = toks[pos]
            pos += 1
            a = go()
            b = go()
            pos += 1
            return (op, a, b)
        return int(t)
    return go()


class NoValue(Exception):
    pass


def value(t):
    """GENERATOR-side integer value (used to pick exact divisors and to bound
    sizes; never used as an oracle)."""
    if isinstance(t, int):
        return t
    op, a, b = t
    if op == '+':
        return value(a) + value(b)
    if op == '*':
        return value(a) * value(b)
    if op == '/':
        v = value(a)
        if b <= 0 or v % b:
            raise NoValue
        return v // b
    e = value(b)
    if e < 0 or e > 400:
        raise NoValue
    return a ** e


def kind_of(t):
    return 'int' if isinstance(t, int) else t[0]


def ser_kind(s):
    s = s.strip()
    return s[1] if s.startswith('(') else 'int'


# ------------------------------------------------------------ generator

def gen_exp(rng, d, fam):
    base = rng.choice(fam)
    if d > 1 and rng.random() < 0.3:
        for _ in range(6):
            e = gen(rng, d - 1, fam, rng.choice(['+', '*', '^', '+', '/']), small=True)
            try:
                if 0 <= value(e) <= 40:
                    return ('^', base, e)
            except NoValue:
                pass
    r = rng.random()
    e = rng.randint(1, 6) if r < 0.3 else rng.randint(2, 40)
    return ('^', base, e)


def gen(rng, d, fam, kind=None, small=False):
    """random tree of depth <= d; `small` biases towards tiny values (used for
    symbolic exponents)"""
    if kind is None:
        kind = rng.choice(['int'] if d <= 0 else ['int', '^', '^', '^', '+', '+', '*', '*', '/'])
    if kind == 'int' or d <= 0:
        return rng.choice(LEAVES)
    if kind == '^':
        if small:
            return ('^', rng.choice(fam), rng.randint(1, 5))
        return gen_exp(rng, d, fam)
    if kind in '+*':
        return (kind, gen(rng, d - 1, fam, small=small), gen(rng, d - 1, fam, small=small))
    # Div: exact by construction
    for _ in range(6):
        c = gen(rng, d - 1, fam, rng.choice(['^', '+', '*', '+', '*', '/']), small=small)
        try:
            v = value(c)
        except NoValue:
            continue
        dens = [k for k in (2, 3, 4, 5, 6, 7, 8, 9, 10, 12, 16, 18, 25, 27, 36, 49) if v % k == 0]
        if dens and v != 0:
            return ('/', c, rng.choice(dens))
    k = rng.choice([2, 3, 5, 6, 7])
    return ('/', ('*', k, gen(rng, max(d - 2, 1), fam, '^')), k)


def pick_mod(rng):
    return rng.randint(1, 64) if rng.random() < 0.7 else rng.choice(BIG_MODS)


def equal_pair(rng, fam):
    """two texts with the same integer value, built in different ways"""
    x = gen(rng, 2, fam, rng.choice(['^', '+', '*', '^']))
    y = gen(rng, 2, fam)
    z = gen(rng, 1, fam)
    b = rng.choice(fam)
    i, j = rng.randint(1, 20), rng.randint(1, 20)
    k = rng.choice([2, 3, 5, 6, 7, -2])
    return rng.choice([
        (('+', x, y), ('+', y, x)),
        (('*', x, y), ('*', y, x)),
        (('+', ('+', x, y), z), ('+', x, ('+', y, z))),
        (('*', x, ('+', y, z)), ('+', ('*', x, y), ('*', x, z))),
        (('*', ('*', x, y), z), ('*', x, ('*', y, z))),
        (('+', x, x), ('*', 2, x)),
        (('/', ('*', abs(k), x), abs(k)), x),
        (('^', b, ('+', i, j)), ('*', ('^', b, i), ('^', b, j))),
        (('+', ('+', x, y), ('*', -1, y)), x),
        (('*', b, ('^', b, i)), ('^', b, ('+', i, 1))),
        (('+', ('*', k, x), ('*', -k, x)), 0),
        (('*', x, 1), ('+', x, 0)),
    ])


def corpus_cases():
    out = []
    if os.path.isdir(CORPUS):
        for fn in sorted(os.listdir(CORPUS)):
            if fn.endswith('.case'):
                for l in open(f'{CORPUS}/{fn}'):
                    l = l.strip()
                    if l and not l.startswith('#'):
                        f = l.split('|')
                        out.append(mk_case(f'c{len(out)}', f[0], *f[1:]))
    return out


def mk_case(cid, cmd, *f):
    """case dict from protocol fields: pyop|op|a|b  pymod|a|m  pycmp|op|a|b  pypow|a|k"""
    if cmd == 'pymod':
        return {'id': cid, 'cmd': cmd, 'op': '%', 'a': f[0], 'b': f[1]}
    if cmd == 'pypow':
        return {'id': cid, 'cmd': cmd, 'op': '**', 'a': f[0], 'b': f[1]}
    return {'id': cid, 'cmd': cmd, 'op': f[0], 'a': f[1], 'b': f[2]}


def case_line(c):
    if c['cmd'] in ('pymod', 'pypow'):
        return f"{c['id']}|{c['cmd']}|{c['a']}|{c['b']}"
    return f"{c['id']}|{c['cmd']}|{c['op']}|{c['a']}|{c['b']}"


def cases(seed, tier):
    rng = core.mkrng(seed, 'C18')
    mult = 1 if tier == 'quick' else 10
    cs = corpus_cases()
    dist = {'corpus': len(cs)}
    n = 0

    def fam_pair():
        fa = rng.choice(FAMILIES)
        fb = fa if rng.random() < 0.92 else rng.choice(FAMILIES)
        return fa, fb

    def tree(kind, fam):
        for _ in range(20):
            t = gen(rng, rng.randint(1, 4), fam, kind)
            try:
                if abs(value(t)).bit_length() <= 1500:
                    return t
            except NoValue:
                pass
        return gen(rng, 1, fam, kind)

    # binary operators and comparisons over all pairs of root kinds
    for op in ARITH + ORDER + ['==']:
        for ka in KINDS:
            for kb in KINDS:
                for _ in range(16 * mult):
                    fa, fb = fam_pair()
                    a, b = tree(ka, fa), tree(kb, fb)
                    cmd = 'pyop' if op in ARITH else 'pycmp'
                    cs.append(mk_case(f'g{n}', cmd, op, txt(a), txt(b)))
                    n += 1
    dist['binary_ops_x_root_kind_pairs'] = n
    k0 = n
    # exact // by an integer
    for ka in KINDS:
        for _ in range(110 * mult):
            a = tree(ka, rng.choice(FAMILIES))
            v = value(a)
            ds = [d for d in list(range(2, 13)) + [16, 25, 27, 32, 36, 49, 64, 81] if v % d == 0]
            if not ds or v == 0:
                a = ('*', a, rng.choice([2, 3, 6]))
                v = value(a)
                ds = [d for d in (2, 3, 6) if v % d == 0]
            cs.append(mk_case(f'g{n}', 'pyop', '//', txt(a), str(rng.choice(ds))))
            n += 1
    dist['exact_floordiv'] = n - k0
    k0 = n
    # % by an integer
    for ka in KINDS:
        for _ in range(420 * mult):
            a = tree(ka, rng.choice(FAMILIES))
            cs.append(mk_case(f'g{n}', 'pymod', txt(a), str(pick_mod(rng))))
            n += 1
    # symbolic exponents against the 2*3^k moduli (exp_mod_special_cases) and period reduction
    for _ in range(300 * mult):
        fam = rng.choice([[2], [2], [2, 4], [3], [7]])
        e = gen(rng, rng.randint(1, 3), fam, rng.choice(['^', '+', '*', '/']), small=rng.random() < 0.5)
        try:
            if not 0 <= value(e) <= 400:
                continue
        except NoValue:
            continue
        m = rng.choice([6, 18, 54, 54, 162, 162, 486, 1458, 4374, 12, 30, 10, 9, 27, 7, 8, 16, 64, 5, 11, 13, 36])
        cs.append(mk_case(f'g{n}', 'pymod', txt(('^', rng.choice(fam), e)), str(m)))
        n += 1
    dist['mod'] = n - k0
    k0 = n
    # integer power
    for ka in KINDS:
        for _ in range(60 * mult):
            a = tree(ka, rng.choice(FAMILIES))
            cs.append(mk_case(f'g{n}', 'pypow', txt(a), str(rng.randint(2, 4))))
            n += 1
    dist['pow'] = n - k0
    k0 = n
    # equal values built in different ways
    for _ in range(800 * mult):
        fam = rng.choice(FAMILIES)
        a, b = equal_pair(rng, fam)
        try:
            if value(a) != value(b) or abs(value(a)).bit_length() > 1500:
                continue
        except NoValue:
            continue
        cs.append(mk_case(f'g{n}', 'pycmp', '==', txt(a), txt(b)))
        n += 1
    dist['equal_value_pairs'] = n - k0
    k0 = n
    # two EXACT quotients with different denominators (coprime, one dividing the other, equal), all
    # four arithmetic operators and the comparisons: the Div x Div branches of the simplifier
    # (added after seeded mutant C18-m3: Div.__add__ cross-multiplication for coprime denominators)
    def exact_div(fam):
        b = rng.choice(fam)
        e = rng.randint(2, 24)
        d = rng.choice([2, 3, 5, 7, 9, 11, 13, 4, 6, 10])
        k = (-pow(b, e, d)) % d
        if rng.random() < 0.3:
            k += d * rng.randint(1, 5)
        num = ('+', k, ('^', b, e)) if k else ('^', b, e)
        if rng.random() < 0.25:
            num = ('*', rng.choice([2, 3, 5]), num)
        return ('/', num, d)
    for _ in range(700 * mult):
        fam = rng.choice(FAMILIES)
        a, b = exact_div(fam), exact_div(fam if rng.random() < 0.7 else rng.choice(FAMILIES))
        try:
            value(a), value(b)
        except NoValue:
            continue
        op = rng.choice(['+', '+', '-', '*', '<', '=='])
        cs.append(mk_case(f'g{n}', 'pycmp' if op in ('<', '==') else 'pyop', op, txt(a), txt(b)))
        n += 1
    dist['exact_quotient_pairs'] = n - k0
    k0 = n
    # an EXACT quotient divided again, exactly, by an integer: Div.__floordiv__ (both the coprime branch
    # num/(other*den) and the common-factor branch); added after the self-test mutation sweep
    for _ in range(600 * mult):
        fam = rng.choice(FAMILIES)
        b = rng.choice(fam)
        e = rng.randint(2, 24)
        d = rng.choice([1, 2, 3, 5, 7, 9, 4, 6])
        o = rng.choice([2, 3, 5, 7, 11, 4, 6, 9, 10, 8, 12, 16, 18, 20, 24, 25, 27, 36, 45, 50])
        m = d * o
        k = (-pow(b, e, m)) % m
        if rng.random() < 0.3:
            k += m * rng.randint(1, 5)
        num = ('+', k, ('^', b, e)) if k else ('^', b, e)
        if rng.random() < 0.3:
            c = rng.choice([2, 3, 5])
            num = ('*', c, num)
        a = ('/', num, d) if d > 1 else num
        try:
            if value(a) % o != 0:
                continue
        except NoValue:
            continue
        cs.append(mk_case(f'g{n}', 'pyop', '//', txt(a), str(o)))
        n += 1
    dist['exact_quotient_floordiv'] = n - k0
    k0 = n
    # RELATED operands: the second operand is assembled from sub-terms of the first (same base, same coefficient,
    # same exponent, one term more or less), because the simplifier's branches fire on shared structure
    # (`lo.l == l`, `r == ro`, equal bases ...) that two independent random trees almost never have
    # (added after the self-test mutation sweep: Mul.__add__(Add) with a shared coefficient survived)
    def subterms(t, acc):
        if not isinstance(t, int):
            acc.append(t)
            subterms(t[1], acc)
            subterms(t[2], acc)
        return acc

    def related(a, fam):
        subs = subterms(a, []) or [a]
        x = rng.choice(subs)
        b0 = rng.choice(fam)
        c = rng.choice([2, 3, 5, 7, -1, -2, -3])
        e1, e2 = rng.randint(1, 30), rng.randint(1, 30)
        coef = x[1] if (not isinstance(x, int) and x[0] == '*' and isinstance(x[1], int)) else c
        base = x[1] if (not isinstance(x, int) and x[0] == '^') else b0
        y = gen(rng, 2, fam, rng.choice(['^', '*', '+']))
        return rng.choice([
            ('+', y, x), ('+', x, y), ('*', coef, y), ('+', y, ('*', coef, ('^', base, e1))),
            ('+', ('*', coef, ('^', base, e1)), y), ('*', coef, ('^', base, e2)), ('^', base, e2),
            ('+', ('^', base, e1), ('^', base, e2)), ('*', -1, x), ('+', ('*', -1, x), y), ('*', c, x),
            ('+', ('*', coef, ('^', b0, e1)), ('*', coef, ('^', base, e2))), ('+', a, y), ('*', c, a),
            ('+', ('*', coef, y), ('^', base, e1)),
        ])
    for _ in range(2400 * mult):
        fam = rng.choice(FAMILIES)
        a = tree(rng.choice(['+', '*', '^', '+', '*']), fam)
        b = related(a, fam)
        try:
            if abs(value(a)).bit_length() > 1500 or abs(value(b)).bit_length() > 1500:
                continue
        except NoValue:
            continue
        if rng.random() < 0.5:
            a, b = b, a
        op = rng.choice(['+', '+', '+', '-', '-', '*', '<', '=='])
        cs.append(mk_case(f'g{n}', 'pycmp' if op in ('<', '==') else 'pyop', op, txt(a), txt(b)))
        n += 1
    dist['related_operand_pairs'] = n - k0
    return cs, dist


# ------------------------------------------------------------ runners

def run_py(lines, cf=None):
    env = dict(core.ENV, BB_PYROOT=PYROOT)
    if cf:
        env['BB_PYCF'] = cf
    if not os.path.isfile(f'{PYROOT}/tm/num.py'):
        raise core.BuildError('pyharness', f'{PYROOT}/tm/num.py not found')
    return core.run_lines(PYH, lines, shards=min(8, max(1, len(lines) // 40)), env=env)


def coq_eval(requests):
    """requests: set of (cmd, text[, m]) -> dict request -> answer, by the extracted Spec/Model"""
    reqs = sorted(requests)
    lines = [f'q{i}|' + '|'.join(r) for i, r in enumerate(reqs)]
    out = core.run_bbm(lines)
    return {r: out.get(f'q{i}', 'MISSING') for i, r in enumerate(reqs)}


def to_int(s):
    try:
        return int(s)
    except ValueError:
        return None


def evaluate(cs, cf=None, want_model=True):
    """runs the cases through the library and judges them against the
    extracted semantics.  Returns dict id -> verdict:
      status: ok | fail | raise | skip    (+ library, expected, why, built, model, corr)"""
    h = run_py([case_line(c) for c in cs], cf)
    req = set()
    for c in cs:
        a = h.get(c['id'], 'MISSING')
        c['_ans'] = a
        if a.startswith(('raise', 'HARNESS', 'MISSING')):
            continue
        req.add(('numeval', c['a']))
        if c['cmd'] in ('pyop', 'pycmp') and c['op'] != '//':
            req.add(('numeval', c['b']))
        if c['cmd'] == 'pymod':
            built = a.split('|')[0]
            req.add(('numevalmod', c['a'], c['b']))
            if want_model:
                req.add(('nummod', built, c['b']))
        elif c['cmd'] != 'pycmp':
            req.add(('numevalf', a))
            req.add(('numeval', a))
    ev = coq_eval(req)
    out = {}
    for c in cs:
        a = c['_ans']
        v = {'library': a}
        out[c['id']] = v
        if a.startswith(('HARNESS', 'MISSING')):
            v['status'] = 'fail'
            v['why'] = 'harness error'
            continue
        if a.startswith('raise'):
            v['status'] = 'raise'
            continue
        va = ev[('numeval', c['a'])]
        if va in ('none', 'toobig'):
            v['status'] = 'skip'
            v['why'] = 'operand ' + va
            continue
        va = int(va)
        if c['cmd'] == 'pymod':
            built, r = a.split('|')
            v['built'] = built
            exp = ev[('numevalmod', c['a'], c['b'])]
            v['expected'] = exp
            v['library'] = r
            v['status'] = 'ok' if r == exp else 'fail'
            if want_model:
                v['model'] = ev[('nummod', built, c['b'])]
            continue
        if c['cmd'] == 'pycmp':
            vb = ev[('numeval', c['b'])]
            if vb in ('none', 'toobig'):
                v['status'] = 'skip'
                v['why'] = 'operand ' + vb
                continue
            vb = int(vb)
            truth = {'==': va == vb, '!=': va != vb, '<': va < vb, '<=': va <= vb,
                     '>': va > vb, '>=': va >= vb}[c['op']]
            v['expected'] = str(truth)
            v['operands_equal'] = (va == vb)
            v['status'] = 'ok' if a == str(truth) else 'fail'
            continue
        # arithmetic: + - * // **
        if 'tet' in a or 'unserialisable' in a:
            v['status'] = 'raise'
            v['why'] = 'result outside the expression language (Tet)'
            continue
        if c['op'] == '//':
            d = int(c['b'])
            if d == 0 or va % d:
                v['status'] = 'skip'
                v['why'] = 'division not exact'
                continue
            exp = va // d
        elif c['op'] == '**':
            exp = va ** int(c['b'])
        else:
            vb = ev[('numeval', c['b'])]
            if vb in ('none', 'toobig'):
                v['status'] = 'skip'
                v['why'] = 'operand ' + vb
                continue
            vb = int(vb)
            exp = {'+': va + vb, '-': va - vb, '*': va * vb}[c['op']]
        v['expected'] = str(exp)
        rf = ev[('numevalf', a)]
        if rf == 'toobig':
            v['status'] = 'skip'
            v['why'] = 'result toobig'
            continue
        v['result_int'] = rf
        if rf == 'none':
            v['status'] = 'fail'
            v['why'] = 'int(result) is undefined (an exponent inside the result is negative)'
            continue
        if not rf.lstrip('-').isdigit():
            v['status'] = 'fail'
            v['why'] = f'the result is not an expression over Add/Mul/Div/Exp with integer leaves and denominators ({rf})'
            continue
        v['status'] = 'ok' if int(rf) == exp else 'fail'
        if ev[('numeval', a)] == 'none':
            v['inexact_div_in_result'] = True
    return out


# ------------------------------------------------------------ run

def known_classes():
    out = {}
    for f in core.known_findings().get('open', []):
        if 'C18' in f.get('properties', []) and f.get('c18_class'):
            out[f['c18_class']] = f
    return out


def classify(cs_fail, vs):
    """known-finding class of each failing case (see the module docstring)"""
    if not cs_fail:
        return {}
    cf = evaluate([dict(c) for c in cs_fail], cf='ltint', want_model=False)
    rest = [c for c in cs_fail if cf[c['id']]['status'] == 'fail']
    cfa = evaluate([dict(c) for c in rest], cf='ltall', want_model=False) if rest else {}
    wf = coq_eval({('numwf', vs[c['id']]['built']) for c in cs_fail
                   if c['op'] == '%' and vs[c['id']].get('built')})
    out = {}
    for c in cs_fail:
        v = vs[c['id']]
        if cf[c['id']]['status'] != 'fail':
            out[c['id']] = 'ltint'
        elif cfa[c['id']]['status'] != 'fail':
            out[c['id']] = 'ordering'
        elif c['cmd'] == 'pycmp' and v.get('operands_equal'):
            out[c['id']] = 'identity-eq'
        elif c['op'] == '%' and v.get('built') and wf.get(('numwf', v['built'])) == '0':
            out[c['id']] = 'exp-lt-2'
        else:
            out[c['id']] = None
    return out


def table_tie():
    """the source's exp_mod_special_cases tables vs the model's"""
    h = run_py(['t|pytables']).get('t', 'MISSING')
    m = core.run_bbm(['t|numtables']).get('t', 'MISSING')
    return h, m


def run(rep, tier, seed):
    t0 = time.time()
    if os.path.isdir(core.REPLAY_DIR):                 # stale replays of earlier runs
        for fn in os.listdir(core.REPLAY_DIR):
            if fn.startswith('C18-') and fn.endswith('.json'):
                os.remove(f'{core.REPLAY_DIR}/{fn}')
    cs, dist = cases(seed, tier)
    vs = evaluate(cs)
    byid = {c['id']: c for c in cs}
    hist = {}
    raised = {}
    nontrivial = set()
    status = {'ok': 0, 'fail': 0, 'raise': 0, 'skip': 0}
    inexact = 0
    for c in cs:
        v = vs[c['id']]
        status[v['status']] += 1
        hist.setdefault(c['op'], {'ok': 0, 'fail': 0, 'raise': 0, 'skip': 0})[v['status']] += 1
        if v['status'] == 'raise':
            k = c['op'] + ' ' + c['_ans'].split('|')[0]
            raised[k] = raised.get(k, 0) + 1
        if v.get('inexact_div_in_result'):
            inexact += 1
        lib = v.get('built', c['_ans']) if c['cmd'] in ('pymod', 'pycmp') else c['_ans']
        if v['status'] in ('ok', 'fail') and (lib.startswith('(') or c['cmd'] == 'pycmp'):
            nontrivial.add((c['cmd'], c['op'], c['a'], c['b']))
    # B. correspondence on %
    diffs = []
    corr = {'agree_value': 0, 'agree_raise': 0, 'unmodelled': 0, 'not_built': 0, 'timeout': 0}
    symbolic_mod = 0
    # cases where the library raised in `%` itself: the model needs the built operand
    rb = [c for c in cs if c['cmd'] == 'pymod' and c['_ans'].startswith('raise:')]
    built = run_py([f"{c['id']}|pybuild|{c['a']}" for c in rb]) if rb else {}
    mreq = {(('nummod', built[c['id']], c['b'])) for c in rb if not built.get(c['id'], 'raise').startswith('raise')}
    mev = coq_eval(mreq) if mreq else {}
    for c in cs:
        if c['cmd'] != 'pymod':
            continue
        v = vs[c['id']]
        a = c['_ans']
        if a.startswith('raise-build'):
            corr['not_built'] += 1
            continue
        if a in ('raise:Timeout', 'raise:RecursionError'):
            corr['timeout'] += 1
            continue
        if a.startswith('raise:'):
            b = built.get(c['id'], 'raise')
            if b.startswith('raise'):
                corr['not_built'] += 1
                continue
            lib, mod = a, mev[('nummod', b, c['b'])]
            v['built'] = b
        else:
            if v['status'] == 'skip':         # the operand's value is too big for the evaluator: not compared at all
                corr['operand_toobig'] = corr.get('operand_toobig', 0) + 1
                continue
            lib, mod = a.split('|')[1], v.get('model', 'MISSING')
        if v.get('built', '').startswith('('):
            symbolic_mod += 1
        if mod == 'unmodelled':
            corr['unmodelled'] += 1
        elif lib == mod:
            corr['agree_raise' if lib.startswith('raise') else 'agree_value'] += 1
        else:
            diffs.append((c['id'], f"pymod|{c['a']}|{c['b']}", f'{lib} (built {v.get("built")})', mod))
    th, tm = table_tie()
    if th != tm:
        diffs.append(('tables', 'pytables', th, tm))
    # C. int() of the library = eval_floor of the serialised object (sample)
    sample = [c for i, c in enumerate(cs) if i % 4 == 0]
    pi = run_py([f"{c['id']}|pyint|{c['a']}" for c in sample])
    ireq = set()
    for c in sample:
        a = pi.get(c['id'], 'raise')
        if not a.startswith('raise') and not a.endswith('|toobig') and 'tet' not in a:
            ireq.add(('numevalf', a.split('|')[0]))
    iev = coq_eval(ireq) if ireq else {}
    int_tie = 0
    for c in sample:
        a = pi.get(c['id'], 'raise')
        if a.startswith('raise') or a.endswith('|toobig') or 'tet' in a:
            continue
        b, val = a.split('|')
        if iev[('numevalf', b)] == 'toobig':
            continue
        int_tie += 1
        if iev[('numevalf', b)] != val:
            diffs.append((c['id'], f'pyint|{b}', val, iev[('numevalf', b)]))
    # D. the int-operand fragment of the simplifier: library result tree = model result tree, and the property
    #    on every tree the library returned there
    from tools import numarith_diff            # pylint: disable = import-outside-toplevel
    nrep, ndiffs, nwrong = numarith_diff.run(seed, 600 if tier == 'quick' else 5000, pyroot=PYROOT, show=4)
    for d in ndiffs:
        diffs.append((d['id'], f"numarith:{d['op']}|{d['x']}|{d['n']}",
                      f"{d['library']} (built {d['built']})", d['model']))
    numarith_diff.attribute(nwrong, PYROOT)
    nclasses = {}
    for w in nwrong:
        nclasses.setdefault(str(w['class']), []).append(w)
    # failures: known classes first
    cs_fail = [c for c in cs if vs[c['id']]['status'] == 'fail']
    cls = classify(cs_fail, vs)
    listed = known_classes()
    by_class = {}
    fails = []
    for c in cs_fail:
        k = cls[c['id']]
        by_class.setdefault(str(k), []).append(c)
        if k is None or k not in listed:
            fails.append((c, vs[c['id']], k))
    nfails = []
    for k, lst in nclasses.items():
        if k in listed:
            f = listed[k]
            w = lst[0]
            rep.known_finding(f"{f['id']} class {k} ({f['site']}): {len(lst)} wrong integers among the int-operand "
                              f"cases of this run, e.g. {w['replay'].split('|', 1)[1]} -> library {w['library'][:120]}, "
                              f"integers say {w['integers_say'][:60]}")
        else:
            nfails += lst
    for k, lst in by_class.items():
        if k in listed:
            f = listed[k]
            w = lst[0]
            rep.known_finding(f"{f['id']} class {k} ({f['site']}): {len(lst)} failing cases in this run, e.g. "
                              f"{w['a']} {w['op']} {w['b']} -> library {vs[w['id']]['library'][:120]}, "
                              f"integers say {vs[w['id']].get('expected', '?')[:60]}")
    rep.coverage.update({
        'evaluations': len(cs),
        'distinct_nontrivial': len(nontrivial),
        'rule': 'seeded random expression trees of depth <= 4 over Add/Mul/Div/Exp (bases 2..7, leaves -9..12, '
                'int exponents 1..40 and symbolic exponents of value 0..40), every binary operator and comparison '
                'over all 25 pairs of operand root kinds, exact // by an integer, % by 1..64 and larger moduli, '
                '** 2..4, and pairs of equal value built in different ways for ==; operands are built by the '
                'library itself from text; operands and results are evaluated by the extracted Coq semantics. '
                'non-trivial = distinct cases where the library returned a symbolic (non-int) object or a '
                'comparison verdict',
        'input_distribution': dict(dist, operator_histogram=hist, status=status, raised=raised,
                                   inexact_div_in_result=inexact),
        'mod_correspondence': dict(corr, symbolic_operands=symbolic_mod, divergences=len(diffs),
                                   tables_rows_compared=th.count('='), relation=CORR),
        'int_tie_checked': int_tie,
        'int_operand_fragment': dict({k: nrep[k] for k in ('relation', 'per_op', 'per_operator', 'total',
                                                            'agree_raise_classes', 'differences',
                                                            'library_wrong_integers', 'wall_s')},
                                     wrong_integers_by_class={k: len(v) for k, v in nclasses.items()},
                                     wrong_integer_samples=[{kk: w[kk] for kk in ('op', 'built', 'n', 'library',
                                                                                  'integers_say', 'class', 'replay')}
                                                            for v in nclasses.values() for w in v[:2]]),
        'failures_by_class': {k: len(v) for k, v in by_class.items()},
        'known_classes_listed': sorted(listed),
        'samples': [case_line(cs[len(cs) // 7]), case_line(cs[len(cs) // 2]), case_line(cs[-1])],
        'explanation': 'relation A is a differential test against the Coq-defined integer semantics (no model of '
                       'the simplifier between two symbolic operands); relation B ties the proved Gallina model of the '
                       'modular machinery to the code; relation D ties the Gallina model of the int-operand fragment of '
                       'the simplifier to the code, result tree by result tree (unmodelled = a step needs an operation '
                       'between two symbolic operands; covered_by_theorem = arith true returns the same tree, so '
                       'C18_arith_sound applies; guard_refused = gcd(l, Exp) met a symbolic exponent too small for '
                       'the returned power to divide; library_wrong_integer = a tree returned by the library whose '
                       'exact value differs from integer arithmetic on the operand)',
        'tie_wall_s': round(time.time() - t0, 1),
    })
    for w in nfails[:6]:
        rep.violation({'kind': 'property-failure', 'op': w['op'], 'a': w['built'], 'b': str(w['n']),
                       'library': w['library'], 'expected': w['integers_say'],
                       'why': 'relation D: the tree returned by the library does not have the integer value of the '
                              'operation (exact value of the result: ' + w['exact_value_of_result'] + ')',
                       'case': f"numarith:{w['op']}|{w['x']}|{w['n']}", 'unlisted_class': w['class'],
                       'pyroot': PYROOT}, found=True)
    return diffs, fails


# ------------------------------------------------------------ shrinking / search

def reductions(t):
    """one-step smaller variants of a tree"""
    if isinstance(t, int):
        for c in (0, 1, 2, -1, t // 2, t - 1 if t > 0 else t + 1):
            if abs(c) < abs(t):
                yield c
        return
    op, a, b = t
    if op in '+*':
        yield a
        yield b
    elif op == '/':
        yield a
    elif op == '^' and not isinstance(b, int):
        for e in (2, 3, 5):
            yield (op, a, e)
    if op != '^':
        for a2 in reductions(a):
            yield (op, a2, b)
    if op != '/':
        for b2 in reductions(b):
            if op == '^' and isinstance(b2, int) and b2 < 1:
                continue
            yield (op, a, b2)


def shrink(c, classes_on):
    """greedy: keep a one-step reduction while the case still fails (and, when
    known classes are honoured, still fails under the counterfactual)"""
    cur = dict(c)
    for _ in range(25):
        a = parse(cur['a'])
        cands = []
        for a2 in reductions(a):
            cands.append(dict(cur, a=txt(a2)))
        if cur['cmd'] in ('pyop', 'pycmp') and cur['op'] != '//':
            for b2 in reductions(parse(cur['b'])):
                cands.append(dict(cur, b=txt(b2)))
        elif cur['cmd'] == 'pymod':
            for m in (2, 3, 4, 6, int(cur['b']) // 2, int(cur['b']) // 3):
                if 1 <= m < int(cur['b']):
                    cands.append(dict(cur, b=str(m)))
        seen = set()
        uniq = []
        for i, k in enumerate(cands):
            key = (k['a'], k['b'])
            if key not in seen:
                seen.add(key)
                uniq.append(dict(k, id=f's{i}'))
        if not uniq:
            break
        uniq = uniq[:400]
        vs = evaluate(uniq, want_model=False)
        bad = [k for k in uniq if vs[k['id']]['status'] == 'fail']
        if bad and classes_on:
            cl = classify(bad, vs)
            bad = [k for k in bad if cl[k['id']] is None]
        if not bad:
            break
        bad.sort(key=lambda k: len(k['a']) + len(k['b']))
        cur = bad[0]
    return cur


def describe(c, v):
    return {'op': c['op'], 'a': c['a'], 'b': c['b'], 'library': v.get('library'),
            'expected': v.get('expected'), 'why': v.get('why'), 'built': v.get('built'),
            'case': case_line(dict(c, id='r')), 'pyroot': PYROOT}


def search(rep, diffs, fails):
    listed = known_classes()
    shown = {}
    for c, v, k in fails:
        key = (c['op'], k)
        shown[key] = shown.get(key, 0) + 1
        if shown[key] > 2 or sum(1 for x in shown.values() if x) > 12:
            continue
        s = shrink(c, classes_on=(k is None and bool(listed)))
        vs = evaluate([dict(s, id='z')], want_model=False)['z']
        rep.violation(dict(describe(s, vs), kind='property-failure', original=describe(c, v),
                           unlisted_class=k), found=True)
    if fails:
        return
    for cid, line, a, b in diffs[:5]:
        if line == 'pytables':
            # rows on which the source and the model differ: build an evaluable input that reads the row
            def rows(t):
                out = {}
                for part in t.split(';'):
                    if ':' in part:
                        m, kv = part.split(':')
                        for e in kv.split(','):
                            k, v = e.split('=')
                            out[(int(m), int(k))] = int(v)
                return out
            try:
                ra, rb = rows(a), rows(b)
            except ValueError:
                ra, rb = {}, {}
            cand = []
            for (m, k) in sorted(set(ra) | set(rb)):
                if ra.get((m, k)) != rb.get((m, k)) and (m, k) in ra and m // 3 + k <= 30000:
                    e = ('^', 2, ('+', k + m // 3 - 4, ('^', 2, 2)))      # value k + m/3, symbolic
                    cand.append(mk_case(f't{len(cand)}', 'pymod', txt(e), str(m)))
            vs = evaluate(cand[:50], want_model=False) if cand else {}
            bad = [k for k in cand[:50] if vs[k['id']]['status'] == 'fail']
            if bad:
                rep.violation(dict(describe(bad[0], vs[bad[0]['id']]), kind='property-failure',
                                   note='row of exp_mod_special_cases differs from the verified table'), found=True)
                continue
            a, b = a[:300], b[:300]
        if line.startswith('pymod'):
            # a divergence of the model: does the integer-level property fail on it or nearby?
            _, e, m = line.split('|')
            near = [mk_case(f'n{i}', 'pymod', e, str(mm)) for i, mm in enumerate(
                [int(m)] + [x for x in range(1, 65)])]
            vs = evaluate(near, want_model=False)
            bad = [k for k in near if vs[k['id']]['status'] == 'fail']
            if bad:
                s = shrink(bad[0], classes_on=False)
                v2 = evaluate([dict(s, id='z')], want_model=False)['z']
                rep.violation(dict(describe(s, v2), kind='property-failure'), found=True)
                continue
        rep.violation({'kind': 'correspondence', 'case': line, 'impl': a, 'model': b,
                       'correspondence': CORR if line.startswith('pymod') else
                       CORR_ARITH if line.startswith('numarith:') else
                       ('exp_mod_special_cases tables of num.py = PyNumModTables.special_tables'
                        if line == 'pytables' else 'num.py __int__ = NumExpr.eval_floor')}, found=False)


def replay(r):
    if r.get('case', '').startswith('numarith:'):
        from tools import numarith_diff        # pylint: disable = import-outside-toplevel
        op, x, n = r['case'][len('numarith:'):].split('|')
        return {'case': r['case'], 'verdict_now': numarith_diff.replay_case(op, x, int(n), PYROOT)}
    f = r.get('case', '').split('|')
    if len(f) < 3:
        return r
    c = mk_case('r', f[1], *f[2:])
    v = evaluate([c])['r']
    return {'case': r['case'], 'verdict_now': v}
