"""C14 — connectivity filter (src/graph.rs is_connected).

Tie: `conn|<prog>|<states>` on bbh (current /repo) and bbm (Coq model), byte
for byte, including PANIC.  Oracle (Python, on the IMPLEMENTATION's answers):
  (a) answer 0 with states >= 2          => state graph not strongly connected   (C14_false_not_sc)
  (b) tree-normal-form programs          => answer 1 <=> strongly connected      (C14_tnf_iff)
  (c) in-range inputs                    => answer = [every state below n has an exit
                                            and n-1 reaches 0]                   (C14_exact)
  (d) in-range inputs never PANIC                                                (C14_no_panic)
"in-range": 1 <= states and every state owning an instruction and every target
state is below `states` (the hypothesis states_lt of the theorems)."""
import itertools
from lib import core, gen

LEVEL = 'proof'
BBH_FEATURES = ['tree']      # harness command families this check needs (fallback build, lib/core.py build_bbh)
ASSUMPTIONS = [
    'theorems are about comp_prog values with strictly increasing keys (cp_wf, the BTreeMap invariant; '
    'C14_from_str_wf: the parser only builds such maps) and about inputs with every state below `states`; '
    'outside that range (states = 0, states smaller than the table) only model = code is checked',
    'C14_tnf_iff takes tree normal form as a hypothesis on the program\'s own run (states first entered in '
    'increasing order, every defined slot reached); that build_tree only emits such programs is C10\'s theorem, '
    'here it is re-checked per generated program by an independent simulation',
]

# ------------------------------------------------------------------ graphs

def parse(prog):
    return [[None if t[0] == '.' else (int(t[0]), t[1] == 'R', ord(t[2]) - 65) for t in row.split(' ')]
            for row in prog.split('  ')]


def edges(table):
    adj = {}
    for s, row in enumerate(table):
        for i in row:
            if i is not None:
                adj.setdefault(s, set()).add(i[2])
    return adj


def closure(adj, size):
    """Floyd–Warshall, reflexive-transitive"""
    r = [[i == j or j in adj.get(i, ()) for j in range(size)] for i in range(size)]
    for k in range(size):
        rk = r[k]
        for i in range(size):
            if r[i][k]:
                ri = r[i]
                for j in range(size):
                    if rk[j]:
                        ri[j] = True
    return r


def in_range(table, n):
    if n < 1:
        return False
    for s, row in enumerate(table):
        for i in row:
            if i is not None and (s >= n or i[2] >= n):
                return False
    return True


def strongly_connected(table, n):
    adj = edges(table)
    size = max([n] + [s + 1 for s in adj] + [d + 1 for v in adj.values() for d in v])
    r = closure(adj, size)
    return all(r[a][b] for a in range(n) for b in range(n))


def spec_answer(table, n):
    """C14_exact: expected answer on an in-range input"""
    adj = edges(table)
    if any(not (adj.get(s, set()) - {s}) for s in range(n)):
        return '0'
    r = closure(adj, n)
    return '1' if r[n - 1][0] else '0'


def judge(prog, n, ans, tnf=False):
    """None, or a description of the property clause the answer violates"""
    table = parse(prog)
    if not in_range(table, n):
        return None
    if ans not in ('0', '1'):
        return f'is_connected panics/fails ("{ans}") on an in-range input (C14_no_panic)'
    sc = strongly_connected(table, n)
    if ans == '0' and n >= 2 and sc:
        return ('answer false but the state graph IS strongly connected: the filter would discard a machine '
                'that uses all its states (C14_false_not_sc)')
    if tnf and n >= 2 and (ans == '1') != sc:
        return (f'tree-normal-form program: answer {ans} but strongly connected = {sc} (C14_tnf_iff)')
    want = spec_answer(table, n)
    if ans != want:
        return (f'answer {ans}, but [every state below {n} has an exit and state {n - 1} reaches state 0] '
                f'is {want} (C14_exact)')
    return None


# ------------------------------------------------------------------ tree normal form

def run_tnf(table, steps=2000):
    """simulate from the blank tape; returns (states entered in increasing order,
    all states entered, all defined slots used)"""
    S = len(table)
    entered, used, tape, pos, st = 1, set(), {}, 0, 0
    for _ in range(steps):
        row = table[st]
        c = tape.get(pos, 0)
        i = row[c] if c < len(row) else None
        if i is None:
            break
        used.add((st, c))
        tape[pos] = i[0]
        pos += 1 if i[1] else -1
        st = i[2]
        if st >= entered:
            if st != entered:
                return False, False, False
            entered += 1
    ndef = sum(1 for row in table for i in row if i is not None)
    return True, entered == S, len(used) == ndef


class _Leaf(Exception):
    pass


def tree_programs(states, colors, halt, sim_lim, rng=None, samples=0, cap=None):
    """Python re-implementation of /repo/src/tree.rs build_tree (naive tape).
    rng=None: the whole tree; otherwise `samples` random root-to-leaf descents."""
    out = []

    def instrs(av_s, av_c):
        return [(co, sh, st) for co in range(av_c) for sh in (False, True) for st in range(av_s)]

    def show(prog):
        return gen.prog_text([[prog.get((s, c)) for c in range(colors)] for s in range(states)])

    def leaf(prog):
        if all(1 + i[2] < states for i in prog.values()) or all(1 + i[0] < colors for i in prog.values()):
            return
        out.append(show(prog))
        if cap and len(out) >= cap:
            raise _Leaf()

    def run(prog, st, tape, pos):
        for _ in range(sim_lim):
            c = tape.get(pos, 0)
            i = prog.get((st, c))
            if i is None:
                return ('undef', st, c, pos)
            same = st == i[2]
            if same and c == 0:
                side = [p for p, v in tape.items() if v != 0 and (p > pos if i[1] else p < pos)]
                if not side:
                    return ('spinout',)
            tape[pos] = i[0]
            pos += 1 if i[1] else -1
            if not any(tape.values()):
                return ('blank',)
            st = i[2]
        return ('limit',)

    def branch(instr, prog, st, tape, pos, av_s, av_c, remaining):
        r = run(prog, st, tape, pos)
        if r[0] != 'undef':
            leaf(prog)
            return
        _, sl_s, sl_c, pos = r
        if av_s < states and 1 + max(sl_s, instr[2]) == av_s:
            av_s += 1
        if av_c < colors and 1 + max(sl_c, instr[0]) == av_c:
            av_c += 1
        ins = instrs(av_s, av_c)
        if remaining - 1 == 0:
            for ni in (ins if rng is None else [rng.choice(ins)]):
                prog[(sl_s, sl_c)] = ni
                leaf(prog)
                del prog[(sl_s, sl_c)]
            return
        for ni in (ins if rng is None else [rng.choice(ins)]):
            prog[(sl_s, sl_c)] = ni
            branch(ni, prog, sl_s, dict(tape), pos, av_s, av_c, remaining - 1)
            del prog[(sl_s, sl_c)]

    i_s, i_c = min(3, states), min(3, colors)
    roots = instrs(i_s, i_c)
    try:
        for _ in range(1 if rng is None else samples):
            for ni in (roots if rng is None else [rng.choice(roots)]):
                prog = {(0, 0): (1, True, 1), (1, 0): ni}
                branch(ni, prog, 1, {0: 1}, 1, i_s, i_c, states * colors - 1 - (1 + int(halt)))
    except _Leaf:
        pass
    return out


# ------------------------------------------------------------------ cases

def edge_set_prog(rows):
    """rows[s] = list of targets; one colour per target, '...' padding"""
    width = max(1, max(len(r) for r in rows))
    return '  '.join(' '.join([f'1R{gen.STATES[d]}' for d in r] + ['...'] * (width - len(r))) for r in rows)


def target_table_prog(rng, S, C, combo):
    """combo: per slot None or a target state; colours/shifts random (irrelevant to the graph)"""
    rows = []
    for s in range(S):
        row = []
        for c in range(C):
            d = combo[s * C + c]
            row.append(None if d is None else (rng.randrange(C), rng.random() < 0.5, d))
        rows.append(row)
    return gen.prog_text(rows)


def cases(seed, tier):
    rng = core.mkrng(seed, 'C14')
    quick = tier == 'quick'
    cs, dist, tnf_ids = [], {}, set()

    def add(tag, prog, n):
        cs.append((f'{tag}{len(cs)}', f'conn|{prog}|{n}'))
        return cs[-1][0]

    # 1. every edge set (self-loops included) on 1..4 states, as a program
    k = 0
    for n in (1, 2, 3, 4):
        subsets = [[d for d in range(n) if m >> d & 1] for m in range(1 << n)]
        for rows in itertools.product(subsets, repeat=n):
            add('e', edge_set_prog(rows), n)
            k += 1
    dist['exhaustive_edge_sets_1to4_states'] = k
    # random edge sets on 5, 6 states (sparse ones are the interesting ones)
    nbig = 30000 if quick else 400000
    for _ in range(nbig):
        n = rng.choice((5, 6))
        dens = rng.choice((0.15, 0.25, 0.4))
        rows = [[d for d in range(n) if rng.random() < dens] for _ in range(n)]
        if rng.random() < 0.7:                       # usually give every state some way out
            for s in range(n):
                if not [d for d in rows[s] if d != s]:
                    rows[s] = sorted(set(rows[s] + [rng.choice([d for d in range(n) if d != s])]))
        if rng.random() < 0.3:                       # unsorted, duplicated target lists (sort + dedup)
            rows = [rng.sample(r, len(r)) + ([rng.choice(r)] if r and len(r) < n else []) for r in rows]
        add('g', edge_set_prog(rows), n)
    dist['random_edge_sets_5to6_states'] = nbig
    # 2. two-colour tables: all of 1x2 and 2x2; 3x2 (4x2 in thorough) exhaustive over target choices
    k = 0
    for S in (1, 2):
        for t in gen.exhaustive_tables(S, 2, first_defined=False):
            add('t', gen.prog_text(t), S)
            k += 1
    dist['exhaustive_tables_1x2_2x2'] = k
    k = 0
    for S in ((3,) if quick else (3, 4)):
        for combo in itertools.product([None] + list(range(S)), repeat=S * 2):
            add('u', target_table_prog(rng, S, 2, combo), S)
            k += 1
    dist['exhaustive_target_choices_3x2' + ('' if quick else '_4x2')] = k
    if quick:
        for _ in range(40000):
            combo = [rng.choice([None] + list(range(4))) for _ in range(8)]
            add('u', target_table_prog(rng, 4, 2, combo), 4)
        dist['random_target_choices_4x2'] = 40000
    # 3. random tables, 1..6 states x 2..4 colours, undefined slots, also states = rows +- 1
    nrand = 40000 if quick else 400000
    for _ in range(nrand):
        S, C = rng.randint(1, 6), rng.randint(2, 4)
        p = gen.prog_text(gen.random_table(rng, S, C, rng.choice((0.05, 0.2, 0.45, 0.7))))
        add('r', p, S)
        if rng.random() < 0.25:
            add('m', p, S - 1)
            add('p', p, S + 1)
    dist['random_tables_to_6x4'] = nrand
    # 4. tree programs (re-implementation of build_tree), every one re-checked for TNF by simulation
    trees = []
    trees += [(p, 3, 300) for p in tree_programs(3, 2, False, 40)]
    trees += [(p, 3, 300) for p in tree_programs(3, 2, True, 40)]
    trees += [(p, 2, 300) for p in tree_programs(2, 3, False, 40)]
    dist['tree_3x2_2x3_complete'] = len(trees)
    nt = len(trees)
    for (S, C, halt, lim, ns) in ((4, 2, True, 60, 30000), (4, 2, False, 60, 30000), (5, 2, True, 80, 30000),
                                  (5, 2, False, 80, 30000), (3, 3, False, 50, 8000), (2, 4, False, 50, 3000),
                                  (6, 2, False, 80, 6000)):
        ns = ns if quick else ns * 8
        trees += [(p, S, lim * S * C + 10) for p in tree_programs(S, C, halt, lim, rng, ns)]
    dist['tree_sampled_descents_4x2_5x2_3x3_2x4_6x2'] = len(trees) - nt
    seen = set()
    ntnf = 0
    for p, S, steps in trees:
        if p in seen:
            continue
        seen.add(p)
        ordered, _, used = run_tnf(parse(p), steps)
        if ordered and used:
            tnf_ids.add(add('T', p, S))
            ntnf += 1
        else:
            add('t', p, S)
    dist['tree_distinct'] = len(seen)
    dist['tree_confirmed_tnf'] = ntnf
    # 5. random normal-form tables filtered by simulation (independent second source of TNF programs)
    nnf = 60000 if quick else 600000
    kept = 0
    for _ in range(nnf):
        S, C = rng.choice(((3, 2), (4, 2), (4, 2), (5, 2), (3, 3), (2, 3)))
        t = gen.random_nf_table(rng, S, C, rng.choice((0.0, 0.15)))
        ordered, allst, used = run_tnf(t, 400)
        if ordered and allst and used:
            tnf_ids.add(add('N', gen.prog_text(t), S))
            kept += 1
    dist['random_normal_form_drawn'] = nnf
    dist['random_normal_form_confirmed_tnf'] = kept
    return cs, dist, tnf_ids


def run(rep, tier, seed):
    cs, dist, tnf_ids = cases(seed, tier)
    lines = [f'{i}|{l}' for i, l in cs]
    h = core.run_bbh(lines)
    m = core.run_bbm(lines)
    diffs = core.diff_answers(cs, h, m)
    fails = []
    nontrivial = set()
    judged = 0
    counts = {'0': 0, '1': 0, 'PANIC': 0}
    tnf_true = tnf_false = 0
    for cid, line in cs:
        _, prog, n = line.split('|')
        n = int(n)
        a = h.get(cid, 'MISSING-H')
        counts[a] = counts.get(a, 0) + 1
        table = parse(prog)
        if in_range(table, n):
            judged += 1
            if n >= 3 and all(edges(table).get(s, set()) - {s} for s in range(n)):
                nontrivial.add(line)                 # decided by the search, not by the key count
        why = judge(prog, n, a, cid in tnf_ids)
        if why:
            fails.append((cid, line, why))
        if cid in tnf_ids:
            if a == '1':
                tnf_true += 1
            else:
                tnf_false += 1
    rep.coverage.update({
        'evaluations': len(cs),
        'distinct_nontrivial': len(nontrivial),
        'oracle_checked': judged,
        'answers': counts,
        'tnf_programs': {'answer_true': tnf_true, 'answer_false': tnf_false},
        'rule': 'programs x `states`: is_connected of /repo (bbh) vs extracted GraphModel.is_connected (bbm), PANIC '
                'included; every in-range implementation answer is judged in Python against Floyd-Warshall '
                'reachability of the state graph: false => not strongly connected, TNF programs: true <=> '
                'strongly connected, answer = [all states have an exit and last state reaches state 0], no panic; '
                'non-trivial = distinct in-range cases with >= 3 states where every state has an exit '
                '(so the depth-first search decides)',
        'input_distribution': dist,
        'divergences': len(diffs),
        'samples': [cs[300][1], cs[len(cs) // 2][1], cs[-1][1]],
        'exhaustive': 'edge sets on <= 4 states; 1x2, 2x2 tables; target choices of 3x2 tables; 3x2 and 2x3 trees',
    })
    return diffs, fails


# ------------------------------------------------------------------ search / replay

def impl(prog, n):
    return core.run_bbh([f'z|conn|{prog}|{n}']).get('z', 'MISSING-H')


def shrink(prog, n, tnf):
    """drop instructions one at a time while the property still fails (not for TNF failures:
    removing an instruction changes the run)"""
    if tnf:
        return prog
    table = parse(prog)
    changed = True
    while changed:
        changed = False
        for s in range(len(table)):
            for c in range(len(table[s])):
                if table[s][c] is None:
                    continue
                keep = table[s][c]
                table[s][c] = None
                p2 = gen.prog_text(table)
                if judge(p2, n, impl(p2, n)):
                    changed = True
                else:
                    table[s][c] = keep
    return gen.prog_text(table)


def search(rep, diffs, fails):
    done = 0
    seen = set()
    for cid, line, why in fails:
        kind = why[-20:]
        if kind in seen:
            continue
        seen.add(kind)
        _, prog, n = line.split('|')
        n = int(n)
        tnf = cid[0] in 'TN'
        p2 = shrink(prog, n, tnf)
        a = impl(p2, n)
        rep.violation({'kind': 'property-failure', 'program': p2, 'states': n, 'impl': a,
                       'model': core.run_bbm([f'z|conn|{p2}|{n}']).get('z'),
                       'tree_normal_form': tnf,
                       'strongly_connected': strongly_connected(parse(p2), n),
                       'why': judge(p2, n, a, tnf) or why, 'found_as': line}, found=True)
        done += 1
        if done >= 5:
            break
    if done:
        return
    for cid, line, a, b in diffs[:3]:
        _, prog, n = line.split('|')
        rep.violation({'kind': 'correspondence', 'case': line, 'impl': a, 'model': b,
                       'in_range': in_range(parse(prog), int(n)),
                       'correspondence': 'bbh graph::is_connected = GraphModel.is_connected'}, found=False)


def replay(r):
    prog, n = r.get('program'), r.get('states')
    if prog is None:
        _, prog, n = r['case'].split('|')
    n = int(n)
    core.build_bbh()
    a = impl(prog, n)
    return dict(r, impl_now=a, model_now=core.run_bbm([f'z|conn|{prog}|{n}']).get('z'),
                verdict_now=judge(prog, n, a, bool(r.get('tree_normal_form'))) or 'ok')
