"""C15 — raising a limit never changes an answer already given."""
from lib import core, gen

LEVEL = 'proof'
BBH_FEATURES = ['cps', 'reason', 'segment', 'prover', 'macro', 'oracle', 'py']      # harness command families this check needs (fallback build, lib/core.py build_bbh)

# decider families: (command template with {prog} {lim}, limit answers, limits)
FAMILIES = {
    'bw_halt': ('bw|halt|{prog}|{lim}', {'step_limit'}, [0, 1, 2, 3, 5, 8, 13, 30, 100, 300]),
    'bw_blank': ('bw|blank|{prog}|{lim}', {'step_limit'}, [0, 1, 2, 3, 5, 8, 13, 30, 100, 300]),
    'bw_spin': ('bw|spin|{prog}|{lim}', {'step_limit'}, [0, 1, 2, 3, 5, 8, 13, 30, 100, 300]),
    'rec': ('rec|{prog}|{lim}', {'limit'}, [1, 2, 3, 5, 9, 17, 50, 300, 2000]),
    'quick': ('quick|{prog}|{lim}', None, [0, 1, 2, 3, 5, 9, 17, 50, 300, 2000]),
    'prover': ('prover|{prog}|{lim}', None, [0, 1, 2, 3, 5, 9, 17, 50, 300, 2000]),      # run_prover (C15_prover_mono)
}
OPTIONAL = {
    'cps_halt': ('cps|halt|{prog}|{lim}', {'0'}, [2, 3, 4, 5, 6, 7, 8, 9, 10, 11, 12]),
    'cps_blank': ('cps|blank|{prog}|{lim}', {'0'}, [2, 3, 4, 5, 6, 7, 8, 9, 10, 11, 12]),
    'cps_spin': ('cps|spin|{prog}|{lim}', {'0'}, [2, 3, 4, 5, 6, 7, 8, 9, 10, 11, 12]),
    'seg_halt': ('segpy|halt|{prog}|{lim}', {'segment_limit', 'depth_limit'}, [2, 3, 4, 5, 6, 7, 8]),
    'seg_blank': ('segpy|blank|{prog}|{lim}', {'segment_limit', 'depth_limit'}, [2, 3, 4, 5, 6, 7, 8]),
    'seg_spin': ('segpy|spin|{prog}|{lim}', {'segment_limit', 'depth_limit'}, [2, 3, 4, 5, 6, 7, 8]),
}


def is_limit(fam, ans):
    lim = dict(FAMILIES, **OPTIONAL)[fam][1]
    if lim is None:            # quick, prover: first field xlimit
        return ans.startswith('xlimit')
    return ans in lim


def available_families():
    """optional families exist once their command modules are in the harness"""
    fams = dict(FAMILIES)
    probe = core.run_bbh(['p1|cps|halt|1RB 1LB  1LA ...|2', 'p2|segpy|halt|1RB 1LB  1LA ...|2'])
    if not probe.get('p1', 'HARNESS-ERROR').startswith('HARNESS-ERROR'):
        fams.update({k: v for k, v in OPTIONAL.items() if k.startswith('cps')})
    if not probe.get('p2', 'HARNESS-ERROR').startswith('HARNESS-ERROR'):
        fams.update({k: v for k, v in OPTIONAL.items() if k.startswith('seg')})
    return fams


def run(rep, tier, seed):
    rng = core.mkrng(seed, 'C15')
    fams = available_families()
    progs = gen.corpus_2x2()[:: (3 if tier == 'quick' else 1)]
    progs += gen.random_progs(rng, 2500 if tier == 'quick' else 40000)
    progs += gen.named_machines()[:: (4 if tier == 'quick' else 1)]
    progs += gen.degenerate_programs()
    # leaves of the real tree generator (3x2..2x4): the deciders' everyday inputs; here the per-window answers of CPS are
    # NOT monotone in the window size (added after seeded change C15-m2, which skipped the small windows)
    nleaf0 = len(progs)
    progs += gen.tree_leaves(rng, 1500 if tier == 'quick' else 12000)
    cs = []
    for i, p in enumerate(progs):
        names = sorted(fams)
        chosen = names if tier != 'quick' else rng.sample(names, 3)
        if i >= nleaf0 and tier == 'quick':
            chosen = [f for f in names if f.startswith(('cps', 'seg'))]
        for f in chosen:
            tmpl, _, lims = fams[f]
            if f == 'rec' and not p.startswith('1RB'):
                continue
            sel = lims if (tier != 'quick' or i >= nleaf0) else sorted(rng.sample(lims, min(4, len(lims))))
            for l in sel:
                cs.append((f'{f}:{i}:{l}', tmpl.format(prog=p, lim=l)))
    lines = [f'{i}|{l}' for i, l in cs]
    h = core.run_bbh(lines)
    m = core.run_bbm(lines)
    diffs = core.diff_answers(cs, h, m)
    # the pair relation on the implementation's answers
    by = {}
    for cid, line in cs:
        f, i, l = cid.split(':')
        by.setdefault((f, int(i)), []).append((int(l), h.get(cid, 'MISSING')))
    fails = []
    pairs = 0
    settled_pairs = 0
    for (f, i), lst in by.items():
        lst.sort()
        for a in range(len(lst)):
            for b in range(a + 1, len(lst)):
                l1, a1 = lst[a]
                l2, a2 = lst[b]
                pairs += 1
                if a1 == 'PANIC' or is_limit(f, a1):
                    continue
                settled_pairs += 1
                if a1 != a2:
                    fails.append((f, progs[i], l1, a1, l2, a2))
    rep.coverage.update({
        'evaluations': len(cs),
        'distinct_nontrivial': settled_pairs,
        'pairs': pairs,
        'rule': 'for each decider family and program, the answers of /repo at limits l1 < l2 are compared: either equal '
                '(incl. step numbers) or the smaller limit answered "limit reached"; the same cases are run through the '
                'extracted models (correspondence); non-trivial = pairs whose smaller-limit answer is settled',
        'families': sorted(fams),
        'divergences': len(diffs),
        'samples': [cs[0][1], cs[len(cs) // 2][1], cs[-1][1]],
    })
    return diffs, fails


def search(rep, diffs, fails):
    for f, prog, l1, a1, l2, a2 in fails[:3]:
        rep.violation({'kind': 'property-failure', 'decider': f, 'program': prog,
                       'limit_small': l1, 'answer_small': a1, 'limit_large': l2, 'answer_large': a2,
                       'why': 'a settled answer changed when the limit was raised'}, found=True)
    if fails:
        return
    cid, line, a, b = diffs[0]
    rep.violation({'kind': 'correspondence', 'case': line, 'impl': a, 'model': b, 'divergences': len(diffs),
                   'correspondence': 'bbh decider = extracted model (the model loops are for_upto with limit-free bodies)'},
                  found=False)
