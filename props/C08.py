"""C08 — the k-cell block macro simulates the base machine."""
from lib import core, macro_check as mc

LEVEL = 'proof'
BBH_FEATURES = ['macro']      # harness command families this check needs (fallback build, lib/core.py build_bbh)
PROP = 'C08'
CORR = 'bbh MacroProg<_, BlockLogic>::get_instr = MacrosModel.macro_get_instr (stack_get), run_for_infrul loop = macro_run'


def pool(C):
    out = [(f'block:{k}', False, True) for k in range(1, 7)]
    # block macros of block macros, each layer built with the params() of the one below
    out += [('block:2+block:2', True, True), ('block:2+block:3', True, True), ('block:3+block:2', True, True)]
    # the way src/machine.rs test_macro_loop nests (every layer gets the BASE params): correspondence only
    out += [('block:2+block:2', False, False)]
    return out


def run(rep, tier, seed):
    rng = core.mkrng(seed, PROP)
    q = tier == 'quick'
    progs = mc.programs(rng, 300 if q else 1500, 1300 if q else 9000, 900 if q else 1113)
    combos = mc.make_combos(rng, progs, pool, 5 if q else 9, [300, 2000, 10000])
    lim = {'steps': 10000, 'base_steps': 300000 if q else 2000000}
    diffs, fails = mc.run_check(rep, PROP, 'sim', combos, rng, lim, 60 if q else 150, None, CORR)
    rep.coverage.update({
        'rule': 'programs (2x2 sampled, random to 4x2/2x4/3x3, named machines of those sizes) x block sizes 1..6 '
                '(+ block-of-block); per pair: the slots of a run of up to 10^4 macro cycles from the blank tape, a '
                'closure of further slots, perturbed sequences, two interleaved objects; real code vs extracted model '
                'byte for byte (answers incl. None/PANIC, colour cache, memo, run end state); every answer of the '
                'real code is re-decided by a cell-by-cell base machine on the positionally decoded block (exit side/'
                'state/contents, or halt/loop certificate for None), the run is replayed in lockstep with the base '
                'machine from the blank tape; non-trivial = distinct pairs with at least one compiled instruction',
        'explanation': 'proof level: Coq theorems in coq/Properties/C08.v; this stage ties the model to the code and '
                       're-checks the property itself on the code\'s answers with an oracle independent of the model',
    })
    return diffs, fails


def search(rep, diffs, fails):
    mc.search(rep, diffs, fails, pool, PROP)


replay = mc.replay
