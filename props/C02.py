"""C02 — rule-accelerated run reports the true outcome of the machine.
(also provides the shared corpus/trace machinery used by C03)"""
import importlib.util
import os
from lib import core, gen

LEVEL = 'other'
BBH_FEATURES = ['prover', 'oracle', 'py']      # harness command families this check needs (fallback build, lib/core.py build_bbh)

_spec = importlib.util.spec_from_file_location('prover_diff', f'{core.VERIF}/tools/prover_diff.py')
pdiff = importlib.util.module_from_spec(_spec)
_spec.loader.exec_module(pdiff)


def corpus(seed, tier):
    """(id, prog, lim) — named machines, rule-applying mutants of them, tree-like and random tables"""
    rng = core.mkrng(seed, 'C02')
    out = []
    dist = {}
    named = gen.named_machines()
    for p in pdiff.TREE_LIKE:
        if p not in named:
            named.append(p)
    lims = [10, 100, 1000] if tier == 'quick' else [10, 100, 1000, 10000]
    stride = 2 if tier == 'quick' else 1
    for i, p in enumerate(named[::stride]):
        for lim in lims:
            out.append((f'n{i}_{lim}', p, lim))
    dist['named'] = len(named[::stride])
    for f in core.known_findings()['open']:         # recorded witnesses run first, every time
        if 'C02' in f['properties']:
            for j, w in enumerate(f.get('witnesses', [])):
                out.insert(j, (f'k{f["id"]}_{j}', w['program'], int(w['limit'])))

    def strip(lines, tag):
        for l in lines:
            cid, _, p, lim = l.split('|')
            out.append((tag + cid, p, int(lim)))
    nm = 1200 if tier == 'quick' else 6000
    strip(pdiff.cases_mutant(seed + 20260930, nm), 'm')
    dist['mutants_of_rule_applying_machines'] = nm
    nt = 400 if tier == 'quick' else 3000
    strip(pdiff.cases_tree(seed + 20260930, nt), 't')
    dist['tree_like'] = nt
    nr = 800 if tier == 'quick' else 8000
    strip(pdiff.cases_random(seed + 20260930, nr), 'r')
    dist['random'] = nr
    # "transfer with look-ahead" machines: rules that stop being true near the end of a block (F14 family), sensitive to
    # lax signature/state checks in the rule inference (after seeded changes C03-m2, C03-m4)
    la = gen.lookahead_machines()
    for i, p in enumerate(la):
        out.append((f'l{i}', p, 400))
    dist['lookahead_machines'] = len(la)
    ers = gen.eraser_compositions()
    for i, p in enumerate(ers):
        out.append((f'e{i}', p, 1000))
    for i, (p, lim) in enumerate(gen.REGRESSION_PROVER):
        out.append((f'g{i}', p, lim))
    # halting machines on which the prover meets a multiplying rule with a shrinking counter (MultRule = "no claim");
    # they halt after 4.5e7 / 1.8e8 steps: ids D* get a larger real-run budget in the oracle
    for c in (12, 13):
        out.append((f'D{c}', gen.doubler_machine(c), 10000))
    dist['doubler_machines'] = 2
    dist['eraser_compositions'] = len(ers)
    # leaves of the real tree generator (3x2 .. 2x4, both trees): short closed orbits, near-arithmetic count sequences
    # (after seeded change C03-m1: three of four snapshot counts in arithmetic progression)
    lv = gen.tree_leaves(rng, 1500 if tier == 'quick' else 6000)
    for i, p in enumerate(lv):
        out.append((f'v{i}', p, 300 if i % 2 else 100))
    dist['tree_leaves'] = len(lv)
    if tier == 'quick':                    # keep model time bounded: drop limit-3000 random/tree cases
        out[:] = [c for c in out if not (c[0][0] in 'rt' and c[2] > 1000)]
    return out, dist


def _cached(tag, binary, lines, runner):
    """answers of a runner on `lines`, cached under work/cache by (contents of the runner binary, lines): C02 and C03
    run the same corpus; the binary is rebuilt from /repo's current tree before every check, so an unchanged binary
    gives unchanged answers"""
    import hashlib, json
    hsh = hashlib.sha256()
    hsh.update(open(binary, 'rb').read())
    hsh.update('\n'.join(lines).encode())
    d = f'{core.VERIF}/work/cache'
    os.makedirs(d, exist_ok=True)
    fn = f'{d}/{tag}-{hsh.hexdigest()[:32]}.json'
    if os.path.exists(fn):
        try:
            return json.load(open(fn))
        except Exception:
            pass
    out = runner(lines)
    for old in sorted((f for f in os.listdir(d) if f.startswith(tag + '-')), key=lambda f: os.path.getmtime(f'{d}/{f}'))[:-3]:
        os.remove(f'{d}/{old}')
    json.dump(out, open(fn, 'w'))
    return out


def run_traces(cs):
    lines = [f'{cid}|provertrace|{p}|{lim}' for cid, p, lim in cs]
    h = _cached('bbh-trace', core.BBH, lines, core.run_bbh)
    m = _cached('bbm-trace', core.BBM, lines, core.run_bbm)
    diffs = []
    for cid, p, lim in cs:
        a, b = h.get(cid, 'MISSING-H'), m.get(cid, 'MISSING-M')
        if a != b:
            diffs.append((cid, f'provertrace|{p}|{lim}', a[:300], b[:300]))
    return h, m, diffs


def parse_answer(a):
    f = a.split('|')
    if len(f) < 9:
        return None
    return {'kind': f[0], 'steps': int(f[1]), 'cycles': int(f[2]), 'marks': int(f[3]), 'rulapp': int(f[4]),
            'slot': f[5], 'blanks': f[6], 'napps': int(f[7]), 'apps': (f[9].split(';') if len(f) > 9 and f[9] else [])}


def oracle(cs, h, budget):
    """decide the implementation's verdicts against a real run (native pre-filter + extracted spec)"""
    todo = []
    for cid, p, lim in cs:
        r = parse_answer(h.get(cid, ''))
        if not r:
            continue
        if r['kind'] in ('undfnd', 'spnout') and r['steps'] < budget:
            # `steps` counts simulated steps only: with rule applications the real run is longer
            todo.append((cid, p, (r['steps'] + 1) if r['rulapp'] == 0 else budget, r))
        elif r['kind'] == 'infrul':
            todo.append((cid, p, max(budget, 250000000) if cid.startswith('D') else budget, r))
        elif r['kind'] == 'xlimit' and r['rulapp'] == 0 and r['steps'] <= 300000:
            todo.append((cid, p, r['steps'], r))
    nv = core.run_bbh([f'{cid}|naive|{p}|{L}' for cid, p, L, r in todo])
    fails = []
    stats = {'undfnd_confirmed': 0, 'spnout_confirmed': 0, 'infrul_not_falsified': 0, 'norule_exact': 0,
             'beyond_budget': len(cs) - len(todo)}
    exact = []
    for cid, p, L, r in todo:
        term = nv[cid].split(';')[0][len('term='):]
        t, n = term.split('@')
        n = int(n)
        if r['kind'] == 'undfnd':
            want = 'halt:' + r['slot']
            if t == 'limit' and r['rulapp'] > 0:
                stats['beyond_budget'] += 1
            elif t != want or (r['rulapp'] == 0 and n != r['steps']):
                fails.append((cid, p, f'run_prover says undfnd at slot {r["slot"]} after {r["steps"]} simulated steps '
                                      f'(rulapp {r["rulapp"]}); the machine: {term}'))
            else:
                stats['undfnd_confirmed'] += 1
                exact.append((cid, p, r, n))
        elif r['kind'] == 'spnout':
            if t == 'limit' and r['rulapp'] > 0:
                stats['beyond_budget'] += 1
            elif t != 'spinout' or (r['rulapp'] == 0 and n != r['steps']):
                fails.append((cid, p, f'run_prover says spnout after {r["steps"]} simulated steps (rulapp {r["rulapp"]}); '
                                      f'the machine: {term}'))
            else:
                stats['spnout_confirmed'] += 1
                exact.append((cid, p, r, n))
        elif r['kind'] == 'infrul':
            if t != 'limit':
                fails.append((cid, p, f'run_prover says infrul (never stops); the machine stops: {term}'))
            else:
                stats['infrul_not_falsified'] += 1      # (an InfiniteRule verdict has no finite reference record)
        else:
            exact.append((cid, p, r, r['steps']))
    # marks (always) and, when no rule was applied, steps / blank record against the extracted spec
    ol = []
    for cid, p, r, n in exact:
        if r['kind'] in ('undfnd', 'spnout') and n <= 3000000:
            ol.append(f'{cid}|plainm|{p}|{n + 1}')
        if r['rulapp'] == 0 and r['steps'] <= 300000:
            ol.append(f'{cid}r|ref|{p}|{r["steps"] + (0 if r["kind"] == "xlimit" else 1)}')
    o = core.run_bbm(ol) if ol else {}
    for cid, p, r, n in exact:
        a = o.get(cid)
        if a:
            k, ns, mk = a.split('|')
            if int(mk) != r['marks'] or int(ns) != n:
                fails.append((cid, p, f'run_prover says {r["kind"]} with marks {r["marks"]}; '
                                      f'the cell-by-cell spec after {n} real steps: {a}'))
        b = o.get(cid + 'r')
        if b:
            rk, rs, rm, rslot, rb = b.split('|')
            if (rk, int(rs), int(rm), rb) != (r['kind'], r['steps'], r['marks'], r['blanks']):
                fails.append((cid, p, f'no rule applied, run_prover says {r["kind"]}|steps {r["steps"]}|marks {r["marks"]}|blanks '
                                      f'{r["blanks"]}; the reference: {b}'))
            else:
                stats['norule_exact'] += 1
    return fails, stats


def run(rep, tier, seed):
    cs, dist = corpus(seed, tier)
    h, m, diffs = run_traces(cs)
    fails, stats = oracle(cs, h, 2000000 if tier == 'quick' else 20000000)
    # runs whose verdict rests on a rule application that is not a run of the real machine (finding F14; see C03)
    from props import C03
    _, allapps = C03.collect_apps(cs, h, 0)
    flags, bstats = C03.boundary_checks(allapps, tier)
    diverging = {d[0] for d in diffs}
    byprog = {}
    for fl in flags:
        byprog.setdefault(fl[1][1], fl)                 # program text -> first flagged application
    cids_of = {}
    for cid, p, lim in cs:
        cids_of.setdefault(p, []).append(cid)
    failed = {f[0]: f for f in fails}
    nf14 = 0
    known_cids = set()
    for p, fl in byprog.items():
        for cid in cids_of.get(p, []):
            r = parse_answer(h.get(cid, ''))
            if not r or not any(a.split(' ')[2:4] == [fl[1][3], fl[1][4]] and a.split(' ')[5] == fl[1][6] for a in r['apps'] if a.count(' ') == 5):
                continue                                # this run (limit) does not contain the flagged application
            if cid in diverging:
                if cid not in failed:
                    fails.append((cid, p, 'the verdict rests on a rule application that is not a real run: '
                                  + C03.f14_text(fl).replace('F14 class: ', '')))
                continue
            nf14 += 1
            known_cids.add(cid)
            why = failed[cid][2] if cid in failed else f'run_prover says {r["kind"]} (marks {r["marks"]}, rulapp {r["rulapp"]}); not confirmed by any real run'
            if nf14 <= 3 or (cid in failed and nf14 <= 6):
                rep.known_finding(f'F14: {why}; the verdict rests on a rule application that is not a run of the machine: ' + C03.f14_text(fl))
    fails = [f for f in fails if f[0] not in known_cids]
    if nf14:
        rep.known_finding(f'F14 class: {nf14} runs in this corpus contain such an application (the faithful model performs it identically)')
    # F16: verdict failures of runs that contain an application explained by zeros written next to the head (see C03.f16_check)
    fprogs = {f[1] for f in fails if f[0] not in diverging}
    hits16 = C03.f16_check([a for a in allapps if a[1] in fprogs]) if fprogs else {}
    progs16 = {}
    for a in allapps:
        if a[0] in hits16:
            progs16.setdefault(a[1], (a, hits16[a[0]]))
    n16 = 0
    for f in list(fails):
        if f[1] in progs16 and f[0] not in diverging:
            n16 += 1
            if n16 <= 3:
                rep.known_finding(f'F16: {f[2]}; the verdict rests on a rule application that is not a run of the machine: '
                                  + C03.f16_text(*progs16[f[1]]))
            fails.remove(f)
    if n16:
        rep.known_finding(f'F16 class: {n16} runs in this corpus have a wrong verdict resting on such an application (the faithful model performs it identically)')
    stats['runs_with_F16_application'] = n16
    stats['runs_with_F14_application'] = nf14
    stats.update(bstats)
    # runs all of whose applications carry a certificate of the verified symbolic rule checker: for these the
    # hypothesis of C02_outcome_sound_given_rules holds by C03_apps_certified_valid, i.e. the verdict is a theorem
    cert, cstats = C03.certify(allapps, tier)
    perprog = {}
    for a in allapps:
        perprog.setdefault(a[1], []).append(cert[a[0]] == 'complete')
    stats['programs_applying_rules'] = len(perprog)
    stats['programs_with_every_application_certified (verdicts proved, not only tested)'] = sum(1 for v in perprog.values() if all(v))
    stats.update({'rules_distinct': cstats['rules_distinct'], 'rules_certified_all_counts': cstats['rules_certified_all_counts']})
    kinds = {}
    napp = 0
    for cid, p, lim in cs:
        r = parse_answer(h.get(cid, ''))
        k = r['kind'] if r else h.get(cid, '?')[:8]
        kinds[k] = kinds.get(k, 0) + 1
        if r and r['rulapp'] > 0:
            napp += 1
    rep.coverage.update({
        'evaluations': len(cs),
        'distinct_nontrivial': napp,
        'rule': 'programs (named machines, 1-2 instruction mutants of rule-applying ones, tree-like and random tables) x cycle limits; '
                'run_prover of /repo vs the extracted model on all seven result fields AND the full trace of rule applications; every '
                'undfnd/spnout verdict is compared with a real run (slot, step count, marks), every infrul with any termination within the '
                'budget, and runs without rule application with the reference steps/blank record; non-trivial = runs that applied a rule',
        'input_distribution': dist, 'verdicts': kinds, 'oracle': stats, 'divergences': len(diffs),
        'samples': [f'{c[1]} @ {c[2]}' for c in (cs[0], cs[len(cs) // 2], cs[-1])],
        'explanation': 'partial proof + verified-oracle exploration; see MANIFEST',
    })
    return diffs, [(cid, f'prover|{p}', why) for cid, p, why in fails]


def search(rep, diffs, fails):
    for cid, line, why in fails[:3]:
        rep.violation({'kind': 'property-failure', 'program': line.split('|')[1], 'why': why, 'case': cid}, found=True)
    if fails:
        return
    # divergence only: run the oracle on the diverging programs at several limits
    extra = []
    for cid, line, a, b in diffs[:30]:
        p = line.split('|')[1]
        for lim in (30, 100, 300, 1000, 3000):
            extra.append((f'{cid}_{lim}', p, lim))
    h = core.run_bbh([f'{cid}|provertrace|{p}|{lim}' for cid, p, lim in extra])
    f2, _ = oracle(extra, h, 20000000)
    if f2:
        cid, p, why = f2[0]
        rep.violation({'kind': 'property-failure', 'program': p, 'why': why, 'case': cid}, found=True)
    else:
        cid, line, a, b = diffs[0]
        rep.violation({'kind': 'correspondence', 'case': line, 'impl': a, 'model': b, 'divergences': len(diffs),
                       'correspondence': 'bbh run_prover (+ application trace) = ProverModel.run_prover_trace'}, found=False)
