#!/bin/sh
# Offline build of the whole framework: Coq theories (full .vo), extracted
# model runner bbm, Rust harness bbh (from /repo's current tree).
set -e
ROOT=$(cd "$(dirname "$0")" && pwd)
cd "$ROOT"
python3 -c "import sys; sys.path.insert(0,'$ROOT'); from lib import core; core.coq_makefile()"
cd "$ROOT/coq"
timeout 3400 make -j16 > build.log 2>&1 || { tail -50 build.log; exit 1; }
"$ROOT/ocaml/build.sh"
cd "$ROOT/harness"
CARGO_NET_OFFLINE=true RUSTFLAGS="--cfg bb_verif" cargo build --release --offline 2>&1 | tail -3
echo setup-done
