#!/bin/sh
# Offline build of the whole framework: Coq theories (full .vo), extracted
# model runner bbm, Rust harness bbh (from /repo's current tree).
set -e
cd /verif/coq
coq_makefile -f _CoqProject -o Makefile
timeout 3400 make -j16 > /verif/coq/build.log 2>&1 || { tail -50 /verif/coq/build.log; exit 1; }
/verif/ocaml/build.sh
cd /verif/harness
CARGO_NET_OFFLINE=true RUSTFLAGS="--cfg bb_verif" cargo build --release --offline 2>&1 | tail -3
echo setup-done
