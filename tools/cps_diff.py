#!/usr/bin/env python3
"""Differential test of coq/Model/CpsModel.v (ocaml/bbm) against the real
/repo/src/cps.rs (harness bbh).  Run with cwd = the verif root:

    python3 tools/cps_diff.py            # everything
    python3 tools/cps_diff.py weird      # one group: exhaustive random named weird
    python3 tools/cps_diff.py deep       # optional extra: named machines at radii 9-11
    python3 tools/cps_diff.py stable     # runs bbh 6x on named+random+weird, compares the outputs

Writes work/cps/{cases,h.out,m.out}.txt; exit status 0 iff no divergence."""
import collections
import os
import sys
import time

sys.path.insert(0, os.path.dirname(os.path.dirname(os.path.abspath(__file__))))
from lib import core, gen_cps      # noqa: E402

GROUPS = {
    'exhaustive': gen_cps.exhaustive_2x2,
    'random': gen_cps.random_cases,
    'named': gen_cps.named_cases,
    'weird': gen_cps.weird_cases,
}


def stable():
    """nondeterminism probe: HashSet order differs per run/thread"""
    lines = gen_cps.named_cases() + gen_cps.random_cases() + gen_cps.weird_cases()
    ref = core.run_bbh(lines, threads=16)
    bad = 0
    for rep in range(5):
        h = core.run_bbh(lines, threads=5 + 2 * rep)
        d = [l for l in lines if h[l.split('|', 1)[0]] != ref[l.split('|', 1)[0]]]
        bad += len(d)
        for l in d[:10]:
            print('   UNSTABLE', l)
    print(f'stable: cases={len(lines)} runs=6 unstable answers={bad}')
    return bad


def main():
    names = sys.argv[1:] or list(GROUPS)
    if names == ['stable']:
        return 1 if stable() else 0
    GROUPS['deep'] = gen_cps.deep_cases
    out_dir = f'{core.WORK}/cps'
    os.makedirs(out_dir, exist_ok=True)
    total = bad = 0
    for name in names:
        lines = GROUPS[name]()
        open(f'{out_dir}/cases_{name}.txt', 'w').write('\n'.join(lines) + '\n')
        t0 = time.time()
        h = core.run_bbh(lines)
        t1 = time.time()
        m = core.run_bbm(lines, shards=16)
        t2 = time.time()
        ids = [l.split('|', 1)[0] for l in lines]
        with open(f'{out_dir}/h_{name}.out', 'w') as f:
            f.writelines(f'{i}|{h.get(i)}\n' for i in ids)
        with open(f'{out_dir}/m_{name}.out', 'w') as f:
            f.writelines(f'{i}|{m.get(i)}\n' for i in ids)
        diffs = [l for l, i in zip(lines, ids) if h.get(i) != m.get(i)]
        hist = collections.Counter(h.values())
        print(f'{name}: cases={len(lines)} divergences={len(diffs)} '
              f'bbh={t1 - t0:.1f}s bbm(16 shards)={t2 - t1:.1f}s answers={dict(hist)}')
        for l in diffs[:20]:
            i = l.split('|', 1)[0]
            print(f'   DIFF {l}   bbh={h.get(i)} bbm={m.get(i)}')
        total += len(lines)
        bad += len(diffs)
    print(f'TOTAL cases={total} divergences={bad}')
    return 1 if bad else 0


if __name__ == '__main__':
    sys.exit(main())
