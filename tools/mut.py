#!/usr/bin/env python3
"""tools/mut.py PROP[,PROP] FILE OLD NEW  — apply a one-line mutant to /repo, run the checks, revert."""
import subprocess, sys
props, path, old, new = sys.argv[1:5]
p = f'/repo/{path}'
s = open(p).read()
assert s.count(old) >= 1, 'pattern not found'
open(p, 'w').write(s.replace(old, new, 1))
try:
    for prop in props.split(','):
        r = subprocess.run(['./check', prop, '--no-proof'], cwd='/verif', capture_output=True, text=True)
        print(prop, 'exit', r.returncode)
        print('\n'.join(r.stdout.splitlines()[:4]))
        if r.stderr.strip():
            print('STDERR', r.stderr[-500:])
finally:
    subprocess.run(['git', '-C', '/repo', 'checkout', '--', '.'])
