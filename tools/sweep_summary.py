#!/usr/bin/env python3
"""summarise /root/sweep/results/*.jsonl (self-test mutation sweeps)"""
import collections, glob, json
c = collections.Counter(); byfile = collections.defaultdict(collections.Counter); surv = []
for f in sorted(glob.glob('/root/sweep/results/*.jsonl')):
    for l in open(f):
        r = json.loads(l); c[r['status']] += 1; byfile[r['file']][r['status']] += 1
        if r['status'] not in ('detected', 'nocompile'):
            surv.append(r)
print(dict(c))
for k, v in sorted(byfile.items()):
    print(f'  {k:14s}', dict(v))
for r in surv:
    print(r['status'], f"{r['file']}:{r['line']}", r['old'], ' => ', r['new'], r.get('by', ''), r.get('err', '')[-300:].replace('\n', ' '))
