#!/usr/bin/env python3
"""Sensitivity check of tools/seg_diff.py: apply small mutations to
coq/Model/SegmentModel.v, rebuild bbm, and count divergences against bbh.
Every mutant should be KILLED (divergences > 0).  The original file is
restored (and bbm rebuilt) at the end."""
import os
import subprocess
import sys

HERE = os.path.dirname(os.path.abspath(__file__))
V = os.path.dirname(HERE)
SRC = f'{V}/coq/Model/SegmentModel.v'

MUTANTS = [
    ('reached_le', "(sg_len reached' =? sgs_seg cs,", "(sg_len reached' <=? sgs_seg cs,"),
    ('spin_check_noside', 'then if sgc_init self then (true, cs) else sg_check_reached cs self goal',
     'then if sgc_init self then (true, cs) else (fst (sg_check_reached cs self goal), cs)'),
    ('init_cfg_flag', 'Ok (sg_config_new 0 t true)', 'Ok (sg_config_new 0 t false)'),
    ('branch_out_last_init', 'sg_add_todo cs2 (mkSgConfig last_next (sgc_tape c) init)',
     'sg_add_todo cs2 (mkSgConfig last_next (sgc_tape c) (sgc_init c))'),
    ('halts_as_reached', '| SgHalt => fold_left (fun d st => sg_dict_set st [] d) halts []',
     '| SgHalt => []'),
    ('todo_fifo', 'sgs_set_todo cs (c :: sgs_todo cs)', 'sgs_set_todo cs (sgs_todo cs ++ [c])'),
    ('no_init_set', 'if st =? 0 then mkSgConfig (sgc_state self) (sgc_tape self) true else self',
     'self'),
    ('copy_every_step', 'if negb step then inl (mkSgRte self copy true cs) else',
     'if false then inl (mkSgRte self copy true cs) else'),
    ('max_depth', 'Definition sg_MAX_DEPTH : N := 3000.', 'Definition sg_MAX_DEPTH : N := 2999.'),
    ('max_depth_3001', 'Definition sg_MAX_DEPTH : N := 3000.', 'Definition sg_MAX_DEPTH : N := 3001.'),
    ('depth_ge', 'sg_MAX_DEPTH <? sg_len (snd kv)', 'sg_MAX_DEPTH <=? sg_len (snd kv)'),
    ('pos_noedge', '|| (0 <? l_len)\n', '\n'),
    ('skip_off', 'if skip && negb (sg_span_is_empty s) && (c =? scan) then (s\', 1 + n)',
     'if false && negb (sg_span_is_empty s) && (c =? scan) then (s\', 1 + n)'),
    ('seen_init_flag', '(Some (blank && (st =? 0)),\n          sgs_set_seen', '(Some false,\n          sgs_set_seen'),
    ('blank_no_entry', '''    if sg_nset_mem pos blanks
    then (None, sgs_set_blanks cs (sg_dict_set st blanks (sgs_blanks cs)))''',
     '''    if sg_nset_mem pos blanks
    then (None, cs)'''),
    ('next_init_last', 'obind (sg_next_init cs) (fun \'(oc, cs\') =>\n  match oc with\n  | Some c => Ok (Some c, cs\')\n  | None =>\n      match sgs_todo cs\' with\n      | [] => Ok (None, cs\')\n      | c :: todo\' => Ok (Some c, sgs_set_todo cs\' todo\')\n      end\n  end).',
     'match sgs_todo cs with\n  | c :: todo\' => Ok (Some c, sgs_set_todo cs todo\')\n  | [] => sg_next_init cs\n  end.'),
    ('spinout_color', 'if (next =? st) && (color =? 0) then', 'if (next =? st) then'),
    ('reached_union', 'fold_left (fun acc kv => fold_left (fun a p => sg_nset_insert p a) (snd kv) acc)\n                           blanks_d []',
     'sg_nset_insert (sg_tape_pos (sgc_tape c)) blanks'),
    ('goal_tape_spin', 'Ok (Bool.eqb sh sd || sg_tape_blank (sgc_tape c))', 'Ok (Bool.eqb sh sd)'),
    ('rte_blank_insert', '(sg_dict_set st (sg_nset_insert (sg_tape_pos (sgc_tape self\')) blanks)\n                              (sgs_blanks cs))', '(sgs_blanks cs)'),
    ('branches_nopanic', '| None => inr Panic                     (* branches[&config.state] *)',
     '| None => inl cs1'),
    ('repeat_blank', 'if sg_term_eqb goal SgBlank && sg_tape_blank (sgc_tape c)\n                       then SgFound SgBlank else SgRepeat',
     'SgRepeat'),
    ('halt_noninit_reached', 'if sg_term_eqb goal SgHalt then sg_asr_check_reached goal c cs else inl cs',
     'inl cs'),
    ('branch_in_before_out', 'match sg_branch_in cs1 (sgc_tape c) dirs blank with\n          | Panic => inr Panic\n          | Ok cs2 =>\n              let cs3 := sg_branch_out cs2 c diffs blank in',
     'match sg_branch_in (sg_branch_out cs1 c diffs blank) (sgc_tape c) dirs blank with\n          | Panic => inr Panic\n          | Ok cs3 =>'),
]


def sh(cmd):
    return subprocess.run(cmd, shell=True, cwd=V, capture_output=True, text=True)


def build():
    r = sh('cd coq && make Model/SegmentModel.vo 2>&1 | tail -5 && cd .. && ocaml/build.sh 2>&1 | tail -5')
    return r.returncode == 0 and 'Error' not in r.stdout, r.stdout


def main():
    orig = open(SRC).read()
    only = sys.argv[1:]
    try:
        for name, old, new in MUTANTS:
            if only and name not in only:
                continue
            if orig.count(old) != 1:
                print(f'{name}: pattern occurs {orig.count(old)} times, SKIPPED')
                continue
            open(SRC, 'w').write(orig.replace(old, new))
            ok, log = build()
            if not ok:
                print(f'{name}: build failed\n{log}')
                continue
            r = sh('python3 tools/seg_diff.py exh rnd nf depth named weird --nrand 6000 | grep -v "^   "')
            tot = [l for l in r.stdout.splitlines() if l.startswith('[') or l.startswith('TOTAL')]
            per = ' '.join(l.split()[0] + l.split()[2].replace('divergences=', '=') for l in tot if l.startswith('['))
            print(f'{name}: {tot[-1] if tot else r.stdout + r.stderr}  {per}', flush=True)
    finally:
        open(SRC, 'w').write(orig)
        ok, log = build()
        print('restored original, rebuild ok =', ok)


if __name__ == '__main__':
    main()
