#!/usr/bin/env python3
"""Generates /verif/MANIFEST.json from the table below."""
import json, os, subprocess
ROOT = os.path.dirname(os.path.dirname(os.path.abspath(__file__)))
props = [json.loads(l) for l in open(f'{ROOT}/properties.jsonl')]

COMMON_NOTE = ('Trusted: Coq 8.16.1 kernel, Spec/*.v (cell-by-cell TM), extraction (ExtrOcamlBasic only), '
               'the correspondence glue (harness/src, ocaml/*.ml, lib/*.py). ')

CHECKS = {
 'C01': dict(cat='proof', sec='DESIGN.md §6 C01',
   text='Coq theorems over the Gallina models of tape.rs and run_quick_machine: one compressed step equals `stepped` '
        'cell moves with the same instruction applying throughout a sweep (C01_step_unroll, all tapes/directions/colours/flags), '
        'and for every program and every cycle limit the run agrees with the cell-by-cell reference on termination kind, base steps, '
        'marks, blank record and halting slot (C01_quick_eq_ref, simulation invariant by induction over cycles); at every cycle the '
        'tape unrolls to the real tape (C01_cycle_unrolls). Tie: bbh (real run_quick_machine) vs extracted model on 2x2-exhaustive, '
        'random and named programs x limits; every implementation answer within budget is re-decided by the extracted spec ref_run.',
   note=COMMON_NOTE + 'Theorems closed under the global context. u64 overflow of steps/counts not modelled (unreachable within explored limits).',
   tech='Rocq/Coq proof (simulation invariant, induction over cycles) + model/implementation correspondence + extracted-spec oracle'),
 'C12': dict(cat='proof', sec='DESIGN.md §6 C12',
   text='Coq theorems over the Gallina model of tape.rs: canonical form is an invariant of Tape::step for every direction/colour/sweep flag '
        'and hence every history (induction), canonical tapes are unique representations of their cells, and marks/blank/at_edge/blocks/'
        'counts/signature equal the run-length reading of the unrolled cells. Tie: bbh (the real tape.rs, rebuilt from the working tree) '
        'vs the extracted model on exhaustive and random step sequences, every observer compared after every step.',
   note=COMMON_NOTE + 'Theorems closed under the global context (no axioms). u64 overflow of block counts is outside the model.',
   tech='Rocq/Coq proof (invariant by induction over step histories) + model/implementation correspondence'),
}

def main():
    claimed = sorted(CHECKS)
    checks = []
    for pid in claimed:
        c = CHECKS[pid]
        checks.append({
            'property_id': pid,
            'quick_cmd': f'./check {pid} --tier quick',
            'thorough_cmd': f'./check {pid} --tier thorough',
            'evidence_file': f'/verif/evidence/{pid}.json',
            'replay_cmd_template': f'./check {pid} --replay {{path}}',
            'engine': 'rocq-proof+correspondence',
            'level_claimed': {'category': c['cat'], 'text': c['text'], 'design_ref': c['sec']},
            'level_note': c['note'],
            'technique': c['tech'],
        })
    commits = subprocess.run(['git', '-C', '/repo', 'log', '--format=%h %s'], capture_output=True, text=True).stdout.splitlines()
    hooks = [l.split()[0] for l in commits if 'verif hook' in l]
    m = {
        'version': 1,
        'setup_cmd': './setup.sh',
        'hooks': {'guard': 'bb_verif',
                  'enable': 'RUSTFLAGS="--cfg bb_verif" (the harness /verif/harness includes /repo/src/*.rs by #[path])',
                  'baseline_off_cmd': 'cd /repo && cargo test --workspace --no-fail-fast --offline',
                  'source_commits': hooks, 'add_only': True},
        'engines': [{'name': 'rocq-proof+correspondence', 'path': '/verif/check', 'serves_properties': claimed,
                     'kind_free_text': 'Coq 8.16 theorems about hand-written Gallina models of the Rust/Python sources; models are '
                                       'extracted to OCaml (bbm) and run against the real code (bbh: /repo/src included by path, rebuilt '
                                       'on every check) on generated cases; failures are re-decided against the extracted spec'}],
        'checks': checks,
        'not_applicable': [{'property_id': p['id'],
                            'reason': 'check under construction in this revision (model/proof not yet registered); '
                                      'not a claim that the technique cannot apply'}
                           for p in props if p['id'] not in CHECKS],
        'notes': 'see DESIGN.md; known findings in known_findings.json',
    }
    json.dump(m, open(f'{ROOT}/MANIFEST.json', 'w'), indent=1)
    print('claimed', claimed)

main()
