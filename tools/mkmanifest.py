#!/usr/bin/env python3
"""Generates /verif/MANIFEST.json from the table below."""
import json, os, subprocess
ROOT = os.path.dirname(os.path.dirname(os.path.abspath(__file__)))
props = [json.loads(l) for l in open(f'{ROOT}/properties.jsonl')]

COMMON_NOTE = ('Trusted: Coq 8.16.1 kernel, Spec/*.v (cell-by-cell TM), extraction (ExtrOcamlBasic only), '
               'the correspondence glue (harness/src, ocaml/*.ml, lib/*.py). ')

CHECKS = {
 'C01': dict(cat='proof', sec='DESIGN.md §6 C01',
   text='Coq theorems over the Gallina models of tape.rs and run_quick_machine: one compressed step equals `stepped` '
        'cell moves with the same instruction applying throughout a sweep (C01_step_unroll, all tapes/directions/colours/flags), '
        'and for every program and every cycle limit the run agrees with the cell-by-cell reference on termination kind, base steps, '
        'marks, blank record and halting slot (C01_quick_eq_ref, simulation invariant by induction over cycles); at every cycle the '
        'tape unrolls to the real tape (C01_cycle_unrolls). Tie: bbh (real run_quick_machine) vs extracted model on 2x2-exhaustive, '
        'random and named programs x limits; every implementation answer within budget is re-decided by the extracted spec ref_run.',
   note=COMMON_NOTE + 'Theorems closed under the global context. u64 overflow of steps/counts not modelled (unreachable within explored limits).',
   tech='Rocq/Coq proof (simulation invariant, induction over cycles) + model/implementation correspondence + extracted-spec oracle'),
 'C02': dict(cat='other', sec='DESIGN.md §6 C02, §12',
   text='Partial by necessity: the rule INFERENCE of prover.rs (four observations => rule) is a generalisation, not a theorem, and the InfiniteRule / MultRule / ConfigLimit verdicts of try_rule '
        'carry no theorem. Everything downstream is proved over the Gallina model of run_prover + prover.rs (tied to the code on every run incl. the full trace of rule applications): '
        'C02_reach_invariant / C02_outcome_sound_given_rules (if every applied rule is valid - RuleValid - or, weaker and checkable, every recorded application is confirmed by the verified replay '
        'checker: C02_apps_replayed_real - then undfnd / spnout verdicts are true: the real machine halts at that slot / spins out, with exactly the reported marks), C02_blank_infrul_sound (the '
        'repeated-blank-tape infrul, recognisable by cycles = 0, implies the machine never halts), C02_norule_exact / C02_norule_eq_ref (no rule applied => the whole result record equals the rule-free '
        'simulator and hence the cell-by-cell reference, via C01), C02_prover_mono; machine-checked instance: the repo test machine halts at B3 with 2050 marks (C02_test_machine_halts, no hypothesis left). '
        'The property is decided on the explored programs: every undfnd/spnout verdict of the implementation is compared with a real run (slot, marks; steps when no rule was applied), every infrul with any '
        'termination within the budget. KNOWN FINDING F14 (the property is false of the unchanged code; machine-checked: C02_verdict_refuted_F14, C02_F14_witness - a 23-state look-ahead machine for which the model of '
        'run_prover reports a halt at slot (16,0) while the real machine halts at (14,0) after 79 steps): an inferred rule can be invalid at its last application '
        '(guard count > |diff| too weak); runs whose verdict rests on such an application (found by single-application replays at the end of every application) are printed as KNOWN-FINDING when the '
        'faithful model performs the same application, VIOLATION otherwise. KNOWN FINDING F16 (a zero pushed onto an empty span during a rule demonstration is not recorded: '
        'rules proved while walking away from a tape end are matched where that side is not empty; 22-state witnesses with a wrong spin-out and a wrong halt verdict) is attributed by a '
        'verified replay to the claimed tape plus the missing zeros.',
   note=COMMON_NOTE + 'Theorems closed under the global context. u64 overflow panics of steps/rulapp (46+3 named machines at 10^4 cycles) are modelled and agree.',
   tech='Rocq/Coq conditional soundness theorems + verified replay checker + model/implementation correspondence (with application traces) + real-run oracle'),
 'C03': dict(cat='other', sec='DESIGN.md §6 C03, §12',
   text='Coq theorems: C03_trace_apps_are_applications (every application recorded in a run of the model is an apply_rule on a canonical tape with distinct rule keys: unconditional), '
        'C03_apply_sound / C03_apply_no_zero_block / C03_apply_no_spinout (IF a rule is valid for one application on every tape of its family - RuleValid - THEN the bulk application apply_rule is a run of '
        '>= times real machine steps, no intermediate block count below 1, no halt and no spin-out on the way; non-vacuous: a 3-state transfer machine with RuleValid proved by hand, 2^62-1 applications at once), '
        'C03_replay_sound / C03_replay3_reached (the replay checker - the C01-verified compressed simulator run from the configuration before until it meets the configuration after - is sound), '
        'C03_trace_replayed_apps_real. Rule validity itself is not a theorem (the inference is a generalisation from four observations): each DISTINCT application reported by the bb_verif hook of the real '
        'run_prover whose estimated cost fits the budget is re-validated by the verified replay checker (others are counted as unreplayed, as the property quantifier allows); a replay that halts or spins out '
        'before reaching the claimed configuration, a block count < 1 or a changed colour is a VIOLATION with the application as replay. In addition the last three single applications of EVERY application '
        '(whatever its size) are replayed one at a time; an application whose predecessor is a real run of c cycles and which is itself not reached within 20c+20000 cycles is reported - as KNOWN-FINDING F14 '
        '(machine-checked witness C03_application_refuted_F14; further witnesses: 6-state machines whose rule L0+4,R0-2, inferred on even counts, is applied to an odd one) when the faithful model performs the '
        'same application, as VIOLATION otherwise. Rules: every distinct (program, state, signature, rule) is submitted to the Coq-verified symbolic rule checker (C03_cover_sig_apply_sound), whose '
        'certificate proves all its applications real for all counts (about 85% of the rules met); the stored rules (MinSig, edge flags) are compared code vs model through a second hook. '
        'The application trace itself is part of the model correspondence. KNOWN FINDING F16 (zero pushed onto an empty span not recorded during a rule demonstration; see C02) is attributed by a verified '
        'replay to the claimed tape plus the missing zeros.',
   note=COMMON_NOTE + 'Theorems closed under the global context. Hook: machine::verif::take_apps (cfg bb_verif).',
   tech='Rocq/Coq conditional theorem + per-application verified replay (Coq-proved checker) + model/implementation correspondence on application traces'),
 'C04': dict(cat='other', sec='DESIGN.md §6 C04, §5 F1/F2',
   text='The full statement is FALSE of the unchanged code and that is machine-checked: C04_bw_halt_refuted_F1, C04_bw_spin_refuted_F1, '
        'C04_bw_halt_refuted_F2, C04_stmt_refuted (witnesses by vm_compute on the faithful Gallina model of reason.rs, which is tied to the '
        'code on every run incl. Refuted step numbers and panics). Proved positively: depth monotonicity with the same step number (C04_bw_mono). '
        'GLOBAL THEOREM proved (Proofs/ReasonSound.v + ReasonSkips.v): C04_bw_refuted_sound_nodrop - for every table with pairwise distinct slots (every BTreeMap; C04_parsed_distinct_slots: every '
        'parsed program), with the F1 branch repaired (model switch sw_nodrop), the halt table complete (halt_box_ok: the F2 guard, decidable) and A0 defined, a Refuted answer implies the machine '
        'never halts / never erases the tape / never spins out. No run-time guard is left: C04_skips_always_justified proves that the blanks pruning only removes exact duplicates '
        '(forward determinism of definite backward chains); C04_halt_guards_necessary and C04_skips_justified_needs_distinct_slots show each hypothesis is needed. So the only gaps between the '
        'code and the property are the two recorded defects F1 and F2. '
        'Proved LOCALLY (Proofs/BackstepSound.v, 72 lemmas): C04_backstep_exact (a plain backward step is a sound over-approximation), C04_indef_covers (indefinite sweeps), '
        'C04_check_spinout_spec (exactly when the F1 branch fires), C04_plain_round_sound (one full round of the main loop covers the real predecessor outside the F1 branch), target '
        'completeness. '
        'Every refutation the implementation gives on the explored programs is tested against a real run (native pre-filter, confirmed by the '
        'extracted cell-by-cell spec); falsified refutations are attributed to the two recorded call sites by model counterfactuals '
        '(KNOWN-FINDING), anything else is a VIOLATION with the program/goal/depth as replay. Unguarded soundness of the faithful code is FALSE (F1, F2), hence level other.',
   note=COMMON_NOTE + 'Known findings F1 (reason.rs:175-177) and F2 (instrs.rs params) are open: their repair changes pinned test counts. '
        'Attribution by counterfactual assumes the faithful model agrees with the code on the case (checked).',
   tech='Rocq/Coq global soundness theorem for the repaired model + refutation theorems for the faithful one + model/implementation correspondence + extracted-spec oracle exploration'),
 'C05': dict(cat='proof', sec='DESIGN.md §6 C05, §5 F2, §12',
   text='Coq theorem C05_seg_verdicts_true over the Gallina model of segment.rs, for the trait entry point with the true table size (0 < S, 0 < C, program within the table): '
        'refuted(halt) => the machine never halts, refuted(spin-out) => never spins out, and the positive verdicts halt / spinout / blank => the machine does it, repeat => it runs forever; '
        'C05_seg_blank_never_refuted (the blank goal is never refuted at all, so that clause holds vacuously - an incompleteness of the code, not an unsoundness). Layers: C05_seg_tape_step_sim '
        '(window-tape step = base steps inside the window), C05_seg_run_to_edge_sound, C05_seg_init_exact (an init config is a REAL configuration with blanks outside the window), '
        'C05_seg_positive_sound(_any_params), C05_seg_refuted_sound (closure of the processed configurations + position-counting argument; no guard on the blanks pruning needed), C05_seg_mono. '
        'The statement as first written (without 0 < S, 0 < C) is refuted: C05_seg_verdicts_true_stmt_degenerate. At the py_ wrappers the inferred table size breaks refutations: '
        'C05_wrapper_refuted_F2 (known finding F2). Tie: real seg_cant_* (trait and wrappers, incl. sequences on one thread) vs extracted model; every settled verdict of the '
        'implementation tested against a real run + certificate search; wrapper failures attributed to F2 by the model counterfactual.',
   note=COMMON_NOTE + 'Theorems closed under the global context. Known finding F2 open at the wrapper entry point only.',
   tech='Rocq/Coq proof (window simulation, init-flag invariant, closure + counting argument) + model/implementation correspondence + extracted-spec oracle'),
 'C06': dict(cat='proof', sec='DESIGN.md §6 C06, §5 F2, §12',
   text='Coq theorems over the Gallina model of cps.rs, for EVERY processing order of the HashSet (order is a parameter of the model; order_ok = it is a permutation): '
        'C06_cps_cant_halt_sound (under the table-size guard dims_ok, needed only for the early exit halt_slots().is_empty() = known finding F2, refuted outside the guard by '
        'C06_cps_true_refuted_F2), C06_cps_cant_blank_sound, C06_cps_cant_spin_out_sound: a `true` answer implies the real machine started on the blank tape never halts / never '
        'erases the tape / never spins out, for every radius. Proof: concretisation of configurations (local window in seen + every further-out window registered), local soundness '
        'C06_covered_step, the sweep invariant C06_sweep_registers (every seen config is registered at every sweep boundary, so the final no-update sweep is a pure closure check '
        'although the code has no flag for span growth), C06_closed_after_true, C06_cps_cant_reach_sound; C06_cps_mono for radii. Tie: real cps_cant_* vs extracted model; every '
        '`true` of the implementation tested against a real run; falsified answers attributed to F2 iff no closure pass of the model closes.',
   note=COMMON_NOTE + 'Theorems closed under the global context. Known finding F2 open (early exit). MAX_LOOPS/MAX_DEPTH/fuel can only produce false.',
   tech='Rocq/Coq proof (closed-set invariant, for all processing orders) + model/implementation correspondence + extracted-spec oracle'),
 'C07': dict(cat='proof', sec='DESIGN.md §6 C07',
   text='Coq theorem C07_rec_sound over the Gallina model of quick_term_or_rec/aligns_with/compare_take: for every normal-form program and EVERY '
        'cycle limit, Recur implies the real machine never halts AND never spins out, Spinout implies it spins out, Undefined(slot) implies it halts exactly there. '
        'Proof: loop invariant (snapshot is a real past configuration, leftmost/rightmost bound every head position since) + compare_take/aligns_with '
        'specification on canonical tapes + the translated-cycle theorem on the absolute-tape semantics (C07_translated_cycle, with the no-spin-out '
        'extension C07_translated_cycle_no_spinout). Tie: real quick_term_or_rec vs extracted model on 2x2-exhaustive NF, random and named programs x limits; '
        'every settled verdict of the implementation is re-decided by the extracted spec (plain run; brute-force translated-cycle certificate search).',
   note=COMMON_NOTE + 'Theorems closed under the global context. "Never spins out" after Recur is proved at the semantic level (conditional on no spin-out during '
        'the first period), not yet carried through the loop invariant. isize head positions modelled as Z.',
   tech='Rocq/Coq proof (loop invariant + translated-cycle theorem) + model/implementation correspondence + extracted-spec oracle'),
 'C15': dict(cat='proof', sec='DESIGN.md §6 C15',
   text='Every decider loop of the Gallina models is for_upto(limit, body) with a limit-free body; the generic theorem C15_for_upto_mono '
        '(an answer produced within n iterations is produced unchanged for every m >= n) gives C15_quick_mono, C15_rec_mono, C15_bw_mono '
        '(same Refuted step number), C15_seg_mono and C15_cps_mono (a closed-set proof found below radius r is found below every larger radius), C15_prover_mono (the rule-accelerated run_prover loop) and the order-free forms C15_for_upto_agree / C15_quick_agree / C15_rec_agree / C15_bw_{halt,blank,spin}_agree / C15_seg_agree (under ANY two limits two settled answers are the same answer). That the REAL loop bodies do not read the limit is what '
        'the tie checks: the implementation is run at pairs of limits l1 < l2 (12 decider families incl. run_prover; random tables, named machines and leaves of the real tree generator, where the per-window CPS answers '
        'are not monotone; radii up to 12) and the relation "equal or the smaller answered limit-reached" is '
        'checked directly on its answers, and the same cases go through the extracted models.',
   note=COMMON_NOTE + 'Theorems closed under the global context. Families covered: backward reasoner (3 goals), quick_term_or_rec, run_quick_machine, run_prover, cps (3 goals), segment wrappers (3 goals).',
   tech='Rocq/Coq proof (generic loop monotonicity) + paired-limit check on the implementation + model correspondence'),
 'C08': dict(cat='proof', sec='DESIGN.md §6 C08, §12',
   text='Coq theorems over the Gallina model of macros.rs (block logic), against the absolute-tape machine: C08_sim_body_sound / run_simulator soundness (one simulator iteration = n >= 1 base steps '
        'inside the window, exits decoded), C08_enc_dec / C08_dec_enc / C08_encode_inj (positional colour code), C08_block_instr_sound (an answered instruction = the base machine leaves the '
        'decoded block on the claimed side, in the claimed state, leaving the claimed contents; on ANY cache_ok object), C08_block_instr_none (no instruction <=> halts inside or never leaves: '
        'the block sim_lim equals the configuration count exactly, pigeonhole), C08_block_run_sim (+ zipper and blank-tape versions: every macro configuration reached decodes to a base configuration '
        'reached, with a strictly increasing clock), C08_block_obj_run (the real stateful get_instr with caches and memo yields exactly the pure run and never panics). Tie: real MacroProg vs '
        'extracted model (answers, None, PANIC, cache dump, memo); an independent Python oracle re-simulates the base machine for every answered slot and runs macro and base machines in lockstep.',
   note=COMMON_NOTE + 'Theorems closed under the global context; hypotheses: 1 <= k, 1 <= C, sizes fit u64, program within (states, colours). Nested macros: see C16.',
   tech='Rocq/Coq proof (window simulation, pigeonhole, decoding) + model/implementation correspondence + independent lockstep oracle'),
 'C09': dict(cat='other', sec='DESIGN.md §6 C09, §5 F3, §12',
   text='The property is FALSE of the unchanged code (known finding F3: split_at(self.cells - 1)) and that is machine-checked: C09_back_refuted. Proved for the repaired logic '
        '(model switch lg_split_fix): C09_back_instr_sound_fix, C09_back_instr_none_fix (<=> under the counting hypothesis, which holds for k = 1: C09_back_pigeon_k1; '
        'C09_back_pigeon_fails shows the code\'s sim_lim is smaller than the number of window configurations for k >= 2, so "never leaves" is only proved in the weak form '
        'C09_back_instr_none_weak there - no witness exists in the searched scope), C09_back_run_sim_fix (+ zipper, blank), C09_back_obj_run_fix; and for the FAITHFUL logic: '
        'C09_back_right_exit_eq(_obj) (it equals the repaired one unless the window is left on the left), C09_back_run_sim_outside_F3. Tie + oracle as C08; oracle failures are attributed to F3 '
        'iff the faithful model agrees with the code and the model with the repair does not show the failure; anything else is a VIOLATION.',
   note=COMMON_NOTE + 'Known finding F3 open (its repair changes pinned test counts).',
   tech='Rocq/Coq refutation + proofs for the repaired logic and outside the defect + correspondence + independent oracle with counterfactual attribution'),
 'C10': dict(cat='proof', sec='DESIGN.md §6 C10, §12',
   text='Coq theorems over the Gallina model of tree.rs against a declarative inductive specification Gen (Spec/TreeSpec.v): C10_sound_complete (emitted <=> Gen), C10_nodup and '
        'C10_nodup_tables (no program twice), C10_schedule_indep (for every permutation of the first-level tasks and every interleaving of their harvest sequences the result is a permutation of the '
        'sequential one; C10_task_accumulator: a task\'s harvest is a function of its own inputs), C10_tnf / C10_tnf_order (normal form, feeds C14), C10_no_panic(_gen), characterisations of make_instrs / '
        'update_avail / the leaf filter. Tie: real tree_progs vs extracted model (count, sorted-set hash, duplicates) on 2x2/3x2/2x3 grids and 4x2/2x4 points; an INDEPENDENT plain-Python reference '
        'enumerator written from the property text is compared as a set; the real code is run with 1,2,3,5,8,16 worker threads and must give identical sets.',
   note=COMMON_NOTE + 'Real rayon scheduling, the Mutex and Arc::try_unwrap are outside the model (exercised, not proved). The implementation also cuts a branch when a step leaves the tape blank '
        '(tree.rs:67-69), which the property text does not mention: Gen carries that cut (documented reading; the literal reading differs by 504/31 programs on 3x2).',
   tech='Rocq/Coq proof (enumeration = inductive spec, NoDup, merge-order independence) + correspondence + independent reference enumerator + thread-count sweep'),
 'C11': dict(cat='proof', sec='DESIGN.md §6 C11, §5 F4/F6/F7/F8',
   text='Coq theorems over the Gallina model of rules.rs (with its i32 truncation, checked_sub/checked_mul/checked_add and panics explicit): '
        'C11_diff_exact / C11_make_rule_exact (an inferred additive rule reproduces all four count vectors when the true differences fit i32; '
        'C11_diff_boundary shows the hypothesis is sharp), C11_count_apps_max / _first / _none (times is the LARGEST number of applications leaving every '
        'decreasing block >= 1), C11_apply_exact (every affected block changes by exactly difference x times, nothing else changes), '
        'C11_apply_none_untouched / _iff (a rule that is not applied leaves the tape untouched). The three defects found while proving (F4 signed update, '
        'F7 partial write, F8 unchecked add) are repaired by fix: commits in /repo and their pre-fix definitions are refuted by machine-checked witnesses. '
        'Tie: real make_rule/count_apps/apply_rule vs extracted model on exhaustive small rule spaces and random counts to 2^62 / diffs to 2^20 incl. '
        'overflow, boundary and panic classes; an independent integer oracle judges every implementation answer; thorough also runs the release '
        '(wrapping) profile.',
   note=COMMON_NOTE + 'Theorems closed under the global context; each is conditional on the model returning Ok (panics are tied by correspondence only).',
   tech='Rocq/Coq proof (arithmetic exactness, maximality) + model/implementation correspondence + integer oracle'),
 'C13': dict(cat='proof', sec='DESIGN.md §6 C13',
   text='Coq theorems over the Gallina model of instrs.rs (strings as code-point lists; trim/split/to_digit/as-u8 arithmetic and panics explicit): '
        'C13_show_parse, C13_parse_show, C13_parse_places (row/column placement), C13_show_well_formed, C13_parse_table_ok, token round trips '
        'C13_instr_rt / C13_slot_rt / C13_state_rt in both directions, C13_show_none_params / C13_parse_show_none (inferred size). Proved for all '
        'table sizes (the 26 x 10 bounds of the property are not even needed). Tie: real from_str/show/read_*/show_* vs extracted model on all tokens, '
        'one-character corruptions, random tables of every size 1..26 x 1..10, malformed texts (value vs PANIC must agree); an independent Python oracle '
        'checks the round trips on the implementation answers.',
   note=COMMON_NOTE + 'Theorems closed under the global context.',
   tech='Rocq/Coq proof (round-trip laws) + model/implementation correspondence + independent oracle'),
 'C14': dict(cat='proof', sec='DESIGN.md §6 C14',
   text='Coq theorems over the Gallina model of graph.rs: C14_false_sound / C14_false_not_sc (false implies some state has no exit or cannot reach the start: '
        'not strongly connected), C14_sc_true (a strongly connected program is never discarded), C14_bound_never_cuts (the `for _ in 0..states` bound never cuts '
        'the DFS short), C14_exact (exact meaning of the answer), C14_no_panic, C14_true_sc_given_order and C14_tnf_iff (for programs in tree normal form - stated '
        'on the real machine run: states first entered in increasing order, every defined slot used - true iff strongly connected), C14_from_str_wf. '
        'Tie: real is_connected vs extracted model on all edge sets on <= 4 states, random graphs to 6 states, tree programs; Floyd-Warshall oracle on the '
        'implementation answers (false => not SC; TNF: true <=> SC; answer = C14_exact spec; no panic in range).',
   note=COMMON_NOTE + 'Theorems closed under the global context. Strong-connectivity statements need >= 2 states (a 1-state graph gets false by construction).',
   tech='Rocq/Coq proof (DFS invariant, pigeonhole on the bound) + model/implementation correspondence + graph oracle'),
 'C12': dict(cat='proof', sec='DESIGN.md §6 C12',
   text='Coq theorems over the Gallina model of tape.rs: canonical form is an invariant of Tape::step for every direction/colour/sweep flag '
        'and hence every history (induction), canonical tapes are unique representations of their cells, and marks/blank/at_edge/blocks/'
        'counts/signature equal the run-length reading of the unrolled cells. Tie: bbh (the real tape.rs, rebuilt from the working tree) '
        'vs the extracted model on exhaustive and random step sequences, every observer compared after every step; long-block tapes (unroll() printed as length + hash and checked against the expansion of the blocks), equality/Hash on pairs of tapes incl. same cells with the head shifted, sig_compatible against foreign signatures; an independent Python oracle reads canonical form and every observer off the records of the implementation.',
   note=COMMON_NOTE + 'Theorems closed under the global context (no axioms). u64 overflow of block counts is outside the model.',
   tech='Rocq/Coq proof (invariant by induction over step histories) + model/implementation correspondence'),
 'C16': dict(cat='other', sec='DESIGN.md §6 C16, §5 F3, §12',
   text='Coq theorems over the Gallina model of macros.rs (caches and memo as explicit state): C16_history_indep_block (on any object reached by any query history the answer for a slot whose '
        'colour is known equals the pure function calc of base program, parameters and slot), C16_order_indep_block, C16_repeat_same_block, C16_two_objects_indep, '
        'C16_handed_out_decodes_block, C16_unknown_panics, C16_cache_inv_* (cache invariant), and the same for backsymbol macros with the F3 repair (C16_history_indep_back_fix, '
        'C16_handed_out_decodes_back_fix) and for the faithful logic as long as no computed instruction left its window on the left (C16_history_indep_back_no_left_exit); nested macros of any '
        'depth: C16_nested_history_indep. The property is FALSE of the unchanged backsymbol code: C16_history_dep_refuted (witness on the real code too). Tie: real get_instr vs model on query '
        'histories (permutations, repetitions, two interleaved objects, nested); an independent oracle checks history independence and cache decoding on the implementation answers; failures attributed to F3 by '
        'the model counterfactual, anything else is a VIOLATION.',
   note=COMMON_NOTE + 'Known finding F3 open. Nested macros are checked with each layer given the params of the layer below (what tm/macro.py does); nesting with the BASE params passed again '
        '(as two repo tests construct them) aliases colours and is history dependent even for block-over-block: treated as caller misuse, outside the property, correspondence only.',
   tech='Rocq/Coq proof (cache invariant, purity) + refutation for the faithful backsymbol logic + correspondence + history oracle'),
 'C17': dict(cat='other', sec='DESIGN.md §6 C17, §12',
   text='Component theorems (15, closed): the Gallina transcription of tm/tape.py Tape.step equals the Rust tape model on every tape with positive counts (C17_py_step_eq_rs, C17_py_history_eq_rs) and all '
        'observers agree; additive count_apps / apply_rule / difference inference / make_rule of tm/rules.py equal the Rust models on in-range inputs (C17_py_count_apps_eq_rs, C17_py_apply_eq_rs, '
        'C17_py_diff_eq_rs_additive, C17_py_make_rule_eq_rs_additive), with machine-checked witnesses of where they differ outside the range (u64 overflow, i32 truncation) and of the pre-fix F4 '
        'disagreement. Whole runs (12 more, closed): tm/prover.py and tm/machine.py Machine.run are modelled (PyProverModel, PyMachineModel: Prover, EnumTape with block identity, try_rule, get_min_sig, '
        'the run loop; additive fragment, outcome PyOutside where Python would build a multiplicative rule) and C17_py_rs_run_agree proves, by a lock-step simulation of the two loops, that '
        'run_inside comp lim = true, py_run comp lim = PyDone r and run_prover comp lim = Ok r\' imply the same outcome kind, marks, rule applications and blank record (results_agree); '
        'prover level: C17_py_try_rule_agree, C17_py_run_simulator_agree, C17_py_rs_make_rule, C17_rs_mult_is_py_mult. The decidable guard run_inside names the places where tm/ and src/ are '
        'different programs (D1 90_000-delta cap, D2 sig_compatible span lengths, D3 second-difference inference, D4 EnumTape.get_count registers, D5 u64/i32, D6 cycle cast); concrete witness '
        'programs on which the compared fields differ are machine-checked (C17_whole_run_differs_D1, _D3: infrul vs xlimit; both are runs the check counts outside the quantifier) and component '
        'witnesses (C17_min_sig_differs_D4, C17_cycle_cast_differs_D6); C17_py_min_sig_agree_plain / C17_min_sig_guard_plain (Python\'s identity-keyed EnumTape with re-used block objects = Rust\'s '
        'indexed one; without a rule application in the replay the min-signatures are equal); C17_run_nonvacuous. Tie: real Python Machine.run = py_run on every explored run (kind, marks, rulapp, blank record, steps, '
        'cycles, configurations, complete rule table), real Tape.sig_compatible / EnumTape / Prover.get_rule / get_min_sig = models (component streams), real Rust run_prover = ProverModel; the '
        'two real implementations are compared directly on tree leaves and named machines; the theorem guard is evaluated on every run; runs outside the property quantifier (non-additive rules, '
        'own limits) are counted, not compared.',
   note=COMMON_NOTE + 'The extension is rebuilt from /repo on every run in a scratch directory under /tmp (removed afterwards). CPython 3.12 at /root/.pyenv/versions/3.12.1. '
        'Level stays other: the guard D4 is stated as equality of the two computed min-signatures, and the models are tied to the code by execution, not by translation.',
   tech='Rocq/Coq component proofs and guarded whole-run simulation theorem (Python model = Rust model) + three-way differential execution of whole runs + component streams'),
 'C18': dict(cat='other', sec='DESIGN.md §6 C18, §12.3',
   text='Partial by design: the MODULAR machinery of tm/num.py (Add/Mul/Div/Exp.__mod__, hard-coded residues, find_period, the binary loop, exp_mod_special_cases with all '
        '818 table rows) is transcribed to Gallina and PROVED sound for all expression trees and all moduli (C18_mod_sound: the model answer equals eval(e) mod m whenever every '
        'Exp exponent is >= 2; C18_binexp_mod_spec, C18_find_period_sound, C18_tables_sound, C18_hard_coded_residues, ...; the two repaired defects are refuted on the pre-fix '
        'definitions), and model = library on every % case run. The INTEGER-OPERAND arithmetic (x+n, n+x, x-n, n-x, -x, x*n, n*x, exact x//n for any n<>0, x**n, make_exp) is '
        'transcribed too (Model/PyNumArithModel.v, tied to the library by STRUCTURAL equality of result trees, relation D) and proved: C18_arith_sound / C18_arith_intexp_sound (the transcription '
        'itself is sound for every operand whose exponents are Python ints; with symbolic exponents one guard on gcd(l, Exp) remains and is shown necessary by C18_symbolic_exponent_refuted = '
        'known finding F15s), C18_gcd_sound, ten per-operator corollaries; the two defects found while proving (gcd() not a common divisor; Exp // negative int) are repaired by fix: commits and '
        'refuted on the pre-fix definitions. Num-by-Num operations and the comparisons have NO model: the library result is serialised and evaluated '
        'with the extracted Coq integer semantics (NumExpr.eval) and compared with the same operation on the operand values - a differential test against a Coq-defined '
        'semantics, labelled as such. Four further defect classes of num.py found this way (F9 x<int ignores the int, F10 symbolic ordering heuristics, F11 identity __eq__, '
        'F12 Exp.__mod__ early returns) are recorded as known findings, attributed at run time by counterfactuals; anything else is a VIOLATION.',
   note=COMMON_NOTE + 'CPython 3.12 (/root/.pyenv/versions/3.12.1) runs tm/num.py from /repo directly. Tet is excluded. Float tests in num.py for m >= 2^40 are unmodelled (none occurred).',
   tech='Rocq/Coq proofs for % and for integer-operand arithmetic (models tied to the library by value and by result-tree equality) + differential test of the Num-by-Num operators and comparisons against the extracted Coq integer semantics'),
}

def main():
    claimed = sorted(CHECKS)
    checks = []
    for pid in claimed:
        c = CHECKS[pid]
        checks.append({
            'property_id': pid,
            'quick_cmd': f'./check {pid} --tier quick',
            'thorough_cmd': f'./check {pid} --tier thorough',
            'evidence_file': f'/verif/evidence/{pid}.json',
            'replay_cmd_template': f'./check {pid} --replay {{path}}',
            'engine': 'rocq-proof+correspondence',
            'level_claimed': {'category': c['cat'], 'text': c['text'], 'design_ref': c['sec']},
            'level_note': c['note'],
            'technique': c['tech'],
        })
    commits = subprocess.run(['git', '-C', '/repo', 'log', '--format=%h %s'], capture_output=True, text=True).stdout.splitlines()
    hooks = [l.split()[0] for l in commits if 'verif hook' in l]
    m = {
        'version': 1,
        'setup_cmd': './setup.sh',
        'hooks': {'guard': 'bb_verif',
                  'enable': 'RUSTFLAGS="--cfg bb_verif" (the harness /verif/harness includes /repo/src/*.rs by #[path])',
                  'baseline_off_cmd': 'cd /repo && cargo test --workspace --no-fail-fast --offline',
                  'source_commits': hooks, 'add_only': True},
        'engines': [{'name': 'rocq-proof+correspondence', 'path': '/verif/check', 'serves_properties': claimed,
                     'kind_free_text': 'Coq 8.16 theorems about hand-written Gallina models of the Rust/Python sources; models are '
                                       'extracted to OCaml (bbm) and run against the real code (bbh: /repo/src included by path, rebuilt '
                                       'on every check) on generated cases; failures are re-decided against the extracted spec'}],
        'checks': checks,
        'not_applicable': [{'property_id': p['id'],
                            'reason': 'check under construction in this revision (model/proof not yet registered); '
                                      'not a claim that the technique cannot apply'}
                           for p in props if p['id'] not in CHECKS],
        'notes': 'see DESIGN.md; known findings in known_findings.json',
    }
    json.dump(m, open(f'{ROOT}/MANIFEST.json', 'w'), indent=1)
    print('claimed', claimed)

main()
