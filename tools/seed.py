#!/usr/bin/env python3
"""tools/seed.py <mutdir> <seeded-id> <prop[,prop]>: apply patch.diff from a mutation agent's directory to /repo,
run the named checks (no proof stage), record results, revert, and store under /verif/seeded/<seeded-id>/."""
import json, os, shutil, subprocess, sys
mutdir, sid, props = sys.argv[1], sys.argv[2], sys.argv[3].split(',')
dst = f'/verif/seeded/{sid}'
os.makedirs(dst, exist_ok=True)
for f in os.listdir(mutdir):
    if os.path.isfile(f'{mutdir}/{f}') and os.path.getsize(f'{mutdir}/{f}') < 200000 and os.path.realpath(mutdir) != os.path.realpath(dst):
        shutil.copy(f'{mutdir}/{f}', dst)
r = subprocess.run(['git', '-C', '/repo', 'apply', f'{mutdir}/patch.diff'], capture_output=True, text=True)
if r.returncode != 0:
    print('APPLY FAILED', r.stderr); sys.exit(2)
results = {}
try:
    for p in props:
        r = subprocess.run(['./check', p, '--no-proof'], cwd='/verif', capture_output=True, text=True)
        vio = [l for l in r.stdout.splitlines() if l.startswith('VIOLATION')]
        rep = None
        if vio:
            path = vio[0].split('replay=')[1].split()[0]
            try:
                rep = json.load(open(path))
            except Exception:
                rep = None
        results[p] = {'exit': r.returncode, 'violations': len(vio),
                      'no_failing_input_found': any('no-failing-input-found' in l for l in vio),
                      'first_replay': rep}
        print(p, 'exit', r.returncode, vio[:1], (json.dumps(rep)[:300] if rep else ''))
finally:
    subprocess.run(['git', '-C', '/repo', 'checkout', '--', '.'])
    # rebuild the harness from the restored tree (otherwise harness/target keeps the mutated binary until the next check)
    subprocess.run('cargo build --release --offline', shell=True, cwd='/verif/harness', capture_output=True,
                   env=dict(os.environ, RUSTFLAGS='--cfg bb_verif', CARGO_NET_OFFLINE='true'))
meta_path = f'{dst}/meta.json'
meta = json.load(open(meta_path)) if os.path.exists(meta_path) else {}
meta.setdefault('id', sid)
meta['checks_run'] = results
json.dump(meta, open(meta_path, 'w'), indent=1, default=str)
