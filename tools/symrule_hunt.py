"""Directed search for a rule application of the REAL run_prover that is not a run
of the machine, guided by the symbolic rule checker: mutate programs, take the
application records of bbh provertrace, classify every distinct
(program,state,signature,rule) with `symrule` (mode sig); applications of rules that
are certified for the whole signature/guard domain are real runs by theorem; the
others are checked individually: `symcover` (is the application inside the
certified region?) and, if not, the verified concrete `replay`.

usage: python3 tools/symrule_hunt.py <seed> <n mutants> <limit> [base programs file]
"""
import collections
import os
import random
import sys

HERE = os.path.dirname(os.path.dirname(os.path.abspath(__file__)))
sys.path.insert(0, HERE)
from lib import core, gen  # noqa: E402
import importlib.util  # noqa: E402

_spec = importlib.util.spec_from_file_location('prover_diff', f'{HERE}/tools/prover_diff.py')
pdiff = importlib.util.module_from_spec(_spec)
_spec.loader.exec_module(pdiff)

DEFAULT_BASE = [
    '1RB 0RC  1RC 0RA  1RD 1RC  1LE 1RF  0LB 1LE  ... 1RB',
]


def tape_sig(field):
    sc, l, r = field.split('/')

    def sp(s):
        return tuple((b.split(':')[0], b.split(':')[1] == '1') for b in s.split(',')) if s else ()
    return (sc, sp(l), sp(r))


def mutants(rng, base, n, depth):
    seen = set(base)
    out = list(base)
    while len(out) < n + len(base):
        t = pdiff.parse_prog(rng.choice(base))
        S, C = len(t), len(t[0])
        for _ in range(rng.randint(1, depth)):
            r, c = rng.randrange(S), rng.randrange(C)
            if (r, c) == (0, 0):
                continue
            t[r][c] = (None if rng.random() < 0.05 else (rng.randrange(C), rng.random() < 0.5, rng.randrange(S)))
        p = gen.prog_text(t)
        if p not in seen:
            seen.add(p)
            out.append(p)
    return out


def main():
    seed = int(sys.argv[1]) if len(sys.argv) > 1 else 1
    n = int(sys.argv[2]) if len(sys.argv) > 2 else 2000
    lim = int(sys.argv[3]) if len(sys.argv) > 3 else 3000
    base = DEFAULT_BASE
    if len(sys.argv) > 4:
        base = [l.strip() for l in open(sys.argv[4]) if l.strip()]
    depth = int(sys.argv[5]) if len(sys.argv) > 5 else 2
    rng = random.Random(seed)
    progs = mutants(rng, base, n, depth)
    h = core.run_bbh([f'p{i}|provertrace|{p}|{lim}' for i, p in enumerate(progs)])
    groups = collections.OrderedDict()
    napps = 0
    for i, p in enumerate(progs):
        a = h.get(f'p{i}', '')
        f = a.split('|')
        if len(f) < 10 or not f[9]:
            continue
        for rec in f[9].split(';'):
            cyc, st, before, rule, times, after = rec.split(' ')
            groups.setdefault((p, st, tape_sig(before), rule), []).append((before, times, after, cyc))
            napps += 1
    keys = list(groups)
    ans = core.run_bbm([f'k{i}|symrule|{k[0]}|{k[1]}|{groups[k][0][0]}|{k[3]}|2000|sig|64' for i, k in enumerate(keys)])
    cls = collections.Counter()
    todo = []
    for i, k in enumerate(keys):
        a = ans.get(f'k{i}', 'MISSING').split(':', 4)
        c = a[3] if a[0] == 'cert' else 'nocert'
        cls[c] += 1
        if c == 'above':
            for j, g in enumerate(groups[k]):
                todo.append((i, j, a[2]))
    print(f'programs {len(progs)}, applications {napps}, distinct rules {len(keys)}, classes {dict(cls)}')
    cov = core.run_bbm([f'c{i}_{j}|symcover|sig|{req}|{groups[keys[i]][0][0]}|{groups[keys[i]][j][0]}|{keys[i][3]}|{groups[keys[i]][j][1]}'
                        for i, j, req in todo]) if todo else {}
    unc = [(i, j) for i, j, req in todo if cov.get(f'c{i}_{j}') != '1']
    print(f'applications of "above" rules: {len(todo)}, outside the certified region: {len(unc)}')
    rp = core.run_bbm([f'r{i}_{j}|replay|{keys[i][0]}|{keys[i][1]}|{groups[keys[i]][j][0]}|{keys[i][1]}|{groups[keys[i]][j][2]}|3000000'
                       for i, j in unc]) if unc else {}
    bad = 0
    for i, j in unc:
        a = rp.get(f'r{i}_{j}', '?')
        if not a.startswith('reached'):
            bad += 1
            k = keys[i]
            g = groups[k][j]
            print(f'NOT A RUN ({a}): {k[0]} | limit {lim} | cycle {g[3]} state {k[1]} | {g[0]} --[{k[3]} x {g[1]}]--> {g[2]} | cert {ans.get(f"k{i}")}')
    print(f'replay of the {len(unc)} uncovered applications: {bad} not reached')


if __name__ == '__main__':
    main()
