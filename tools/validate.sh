#!/bin/sh
# validates MANIFEST.json and every evidence file against the schemas
python3-vt - <<'PY'
import json, jsonschema, glob
jsonschema.validate(json.load(open('/verif/MANIFEST.json')), json.load(open('/root/.vp/MANIFEST.schema.json')))
es = json.load(open('/root/.vp/EVIDENCE.schema.json'))
m = json.load(open('/verif/MANIFEST.json'))
for c in m['checks']:
    f = c['evidence_file']
    try:
        jsonschema.validate(json.load(open(f)), es)
        print('ok', f)
    except Exception as e:
        print('BAD', f, str(e)[:200])
PY
