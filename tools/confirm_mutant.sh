#!/bin/sh
# tools/confirm_mutant.sh <worktree> <mutdir> <file-to-append-demo-to> <seeded-dir>
# Confirms independently: (1) suite passes with the patch, (2) demo fails with the patch, (3) demo passes without it.
WT=$1; M=$2; TARGET=$3; OUT=$4
export CARGO_TARGET_DIR=$WT/target CARGO_NET_OFFLINE=true
cd $WT && git checkout -q -- . 
mkdir -p $OUT
{
echo "== suite with patch"
git apply $M/patch.diff && timeout 1500 cargo test --offline 2>&1 | grep -E "^test result|FAILED|panicked" | head -5
echo "== demo with patch (expected: FAIL)"
cat $M/demo.rs >> $TARGET
timeout 1500 cargo test --offline verif_demo 2>&1 | grep -E "^test result|^test .*verif_demo|FAILED" | head -12
git checkout -q -- .
echo "== demo without patch (expected: ok)"
cat $M/demo.rs >> $TARGET
timeout 1500 cargo test --offline verif_demo 2>&1 | grep -E "^test result|^test .*verif_demo|FAILED" | head -12
git checkout -q -- .
} > $OUT/confirm.txt 2>&1
