#!/usr/bin/env python3
"""tools/sweep.py LANE FILE [N] [SEED]  — systematic one-token mutation sweep (self-test of the checks; never touches /repo).

A lane is a private pair  /root/sweep/LANE/repo (git worktree of /repo HEAD)  +  /root/sweep/LANE/verif (copy of /verif
whose harness includes the lane's src by path).  For each sampled mutant of src/FILE:
  build the lane harness -> run the quick checks that cover FILE (BBH_OVERRIDE) -> if none reports a violation, run the
  pinned test suite on the lane repo: a mutant that passes the suite AND all checks is a SURVIVOR (equivalent or a gap).
Results: /root/sweep/results/LANE.jsonl
"""
import json, os, random, re, subprocess, sys, time

lane, fname = sys.argv[1], sys.argv[2]
N = int(sys.argv[3]) if len(sys.argv) > 3 else 20
seed = int(sys.argv[4]) if len(sys.argv) > 4 else 1
ROOT = f'/root/sweep/{lane}'
REPO, VERIF = f'{ROOT}/repo', f'{ROOT}/verif'
RES = '/root/sweep/results'
os.makedirs(RES, exist_ok=True)
ENV = dict(os.environ, CARGO_NET_OFFLINE='true')

PROPS = {
    'tape.rs': ['C01', 'C12', 'C07', 'C02', 'C03', 'C17'],
    'machine.rs': ['C01', 'C07', 'C02', 'C03', 'C17'],
    'prover.rs': ['C02', 'C03', 'C17'],
    'rules.rs': ['C11', 'C02', 'C03'],
    'reason.rs': ['C04', 'C15'],
    'segment.rs': ['C05', 'C15'],
    'cps.rs': ['C06', 'C15'],
    'macros.rs': ['C08', 'C09', 'C16'],
    'tree.rs': ['C10'],
    'instrs.rs': ['C13', 'C01', 'C04'],
    'graph.rs': ['C14'],
    'wrappers.rs': ['C04', 'C05', 'C06', 'C10'],
    'tm/tape.py': ['C17'], 'tm/machine.py': ['C17'], 'tm/prover.py': ['C17'], 'tm/rules.py': ['C17'],
    'tm/num.py': ['C18'],
}

PYOPS = [
    (r' == ', ' != '), (r' != ', ' == '), (r' < ', ' <= '), (r' <= ', ' < '), (r' > ', ' >= '), (r' >= ', ' > '),
    (r' and ', ' or '), (r' or ', ' and '), (r' \+ 1\b', ' + 2'), (r' \+ 1\b', ''), (r' - 1\b', ''), (r' - 1\b', ' - 2'),
    (r'\bTrue\b', 'False'), (r'\bFalse\b', 'True'), (r' \+ ', ' - '), (r' - ', ' + '), (r' \+= ', ' -= '), (r' -= ', ' += '),
    (r'\bcontinue\b', 'break'), (r'\bbreak\b', 'continue'), (r'\bmin\(', 'max('), (r'\bmax\(', 'min('),
    (r'if not ', 'if '), (r' is None', ' is not None'), (r' is not None', ' is None'),
    (r'\b0\b', '1'), (r'\b1\b', '0'), (r'\b2\b', '3'), (r' \* ', ' + '), (r' // ', ' * '), (r' % ', ' // '), (r' \*\* ', ' * '),
    (r'\blspan\b', 'rspan'), (r'\brspan\b', 'lspan'), (r'\bnum\b', 'den'), (r'\bden\b', 'num'), (r'\[0\]', '[-1]'), (r'\[-1\]', '[0]'),
    (r' in ', ' not in '), (r'-self', 'self'), (r'-other', 'other'),
]

OPS = [
    (r' == ', ' != '), (r' != ', ' == '), (r' < ', ' <= '), (r' <= ', ' < '), (r' > ', ' >= '), (r' >= ', ' > '),
    (r' && ', ' || '), (r' \|\| ', ' && '), (r' \+ 1\b', ' + 2'), (r' \+ 1\b', ''), (r' - 1\b', ''), (r' - 1\b', ' - 2'),
    (r'\btrue\b', 'false'), (r'\bfalse\b', 'true'), (r' \+ ', ' - '), (r' - ', ' + '), (r' \+= ', ' -= '), (r' -= ', ' += '),
    (r'\bcontinue;', 'break;'), (r'\bbreak;', 'continue;'), (r'\.min\(', '.max('), (r'\.max\(', '.min('),
    (r'if !', 'if '), (r'\.is_some\(\)', '.is_none()'), (r'\.is_none\(\)', '.is_some()'), (r'\.is_empty\(\)', '.len() == 1'),
    (r'\b0\b', '1'), (r'\b1\b', '0'), (r'\b2\b', '3'), (r'\.rev\(\)', ''), (r'\.first\(\)', '.last()'), (r'\.last\(\)', '.first()'),
    (r'\.any\(', '.all('), (r'\.all\(', '.any('), (r'\.pop\(\)', '.first().copied()'), (r' \* ', ' + '), (r' / ', ' * '), (r' % ', ' / '),
    (r'\bstate\b', 'next_state'), (r'\bleft\b', 'right'), (r'\blspan\b', 'rspan'), (r'\brspan\b', 'lspan'),
]


def sh(cmd, cwd=None, env=None, timeout=3000):
    try:
        p = subprocess.run(cmd, shell=isinstance(cmd, str), cwd=cwd, env=env or ENV, capture_output=True, text=True, timeout=timeout)
        return p.returncode, p.stdout, p.stderr
    except subprocess.TimeoutExpired:
        return 124, '', 'TIMEOUT'


def setup():
    if not os.path.isdir(REPO):
        os.makedirs(ROOT, exist_ok=True)
        rc, o, e = sh(f'git -C /repo worktree add --detach {REPO} HEAD')
        assert rc == 0, e
    sh(f'git -C {REPO} checkout -q -- .')
    sh(f'git -C {REPO} checkout -q --detach ' + sh('git -C /repo rev-parse HEAD')[1].strip())
    sh(f"rsync -a --delete --exclude .git --exclude harness/target --exclude work /verif/ {VERIF}/")
    for f in os.listdir(f'{VERIF}/harness/src'):
        p = f'{VERIF}/harness/src/{f}'
        s = open(p).read()
        if '"/repo/src/' in s:
            open(p, 'w').write(s.replace('"/repo/src/', f'"{REPO}/src/'))
    return build()


def build():
    rc, o, e = sh('cargo build --release --offline', cwd=f'{VERIF}/harness', env=dict(ENV, RUSTFLAGS='--cfg bb_verif'), timeout=1500)
    return rc == 0


def candidates(path, ops=OPS):
    src = open(path).read().split('\n')
    out = []
    skip_item = False          # inside an item introduced by #[cfg(test)] / #[test] / #[cfg(bb_verif)]
    armed = False
    depth = 0
    for i, line in enumerate(src):
        t = line.strip()
        if path.endswith('.rs'):
            if t.startswith(('#[cfg(test)]', '#[test]', '#[cfg(bb_verif)]')) and not skip_item:
                armed = True
                continue
            if armed and not skip_item:
                if t.startswith('#['):
                    continue
                skip_item, armed, depth = True, False, 0
            if skip_item:
                depth += line.count('{') - line.count('}')
                if depth <= 0 and (t.endswith((';', '}', '},')) or depth < 0):
                    skip_item = False
                continue
        if not t or t.startswith(('//', '#[', '#![', 'use ', 'pub use ', '///', '*', '/*')):
            continue
        if 'bb_verif' in line:
            continue
        if path.endswith('.py') and t.startswith(('#', 'import ', 'from ', '"""', "'''", '@', 'class ', 'def ', 'type ')):
            continue
        code = line.split('#')[0] if path.endswith('.py') else line.split('//')[0]
        for pat, rep in ops:
            for m in re.finditer(pat, code):
                new = code[:m.start()] + rep + code[m.end():] + line[len(code):]
                if new != line:
                    out.append((i, pat, rep, line, new))
    return src, out


def main():
    assert setup(), 'lane harness does not build'
    ispy = fname.startswith('tm/')
    path = f'{REPO}/{fname}' if ispy else f'{REPO}/src/{fname}'
    src, cands = candidates(path, PYOPS if ispy else OPS)
    rng = random.Random(seed * 7919 + hash(fname) % 1000)
    rng = random.Random(f'{seed}/{fname}')
    rng.shuffle(cands)
    done = set()
    resf = f'{RES}/{lane}.jsonl'
    if os.path.exists(resf):
        for l in open(resf):
            r = json.loads(l)
            done.add((r['file'], r['line'], r['new']))
    n = 0
    benv = dict(ENV, BBH_OVERRIDE=f'{VERIF}/harness/target/release/bbh', BB_REPO_OVERRIDE=REPO, BB_PYROOT=REPO)
    for i, pat, rep, old, new in cands:
        if n >= N:
            break
        if (fname, i + 1, new.strip()) in done:
            continue
        n += 1
        t0 = time.time()
        rec = {'file': fname, 'line': i + 1, 'old': old.strip(), 'new': new.strip()}
        m = list(src)
        m[i] = new
        open(path, 'w').write('\n'.join(m))
        try:
            if ispy and sh(['/root/.pyenv/versions/3.12.1/bin/python', '-m', 'py_compile', path])[0] != 0:
                rec['status'] = 'nocompile'
            elif not ispy and not build():
                rec['status'] = 'nocompile'
            else:
                rec['status'] = 'undetected'
                rec['checks'] = {}
                for prop in PROPS[fname]:
                    rc, o, e = sh(['./check', prop, '--no-proof'], cwd=VERIF, env=benv, timeout=1500)
                    v = [l for l in o.splitlines() if l.startswith('VIOLATION')]
                    rec['checks'][prop] = rc
                    if rc == 1 and v:
                        rec['status'] = 'detected'
                        rec['by'] = prop
                        rec['nofail'] = v[0].endswith('no-failing-input-found')
                        break
                    if rc not in (0, 1):
                        rec['status'] = 'check-error'
                        rec['by'] = prop
                        rec['err'] = (o + e)[-600:]
                        break
                if rec['status'] == 'undetected' and ispy:
                    rec['status'] = 'SURVIVOR'
                    rec['suite'] = 'not-applicable (python is outside the pinned suite)'
                elif rec['status'] == 'undetected':
                    rc, o, e = sh('cargo test --workspace --no-fail-fast --offline', cwd=REPO,
                                  env=dict(ENV, CARGO_TARGET_DIR=f'{ROOT}/target_suite'), timeout=2400)
                    res = re.findall(r'test result: (\w+)\. (\d+) passed; (\d+) failed', o)
                    ok = rc == 0 and res and all(r[0] == 'ok' for r in res)
                    rec['suite'] = 'pass' if ok else 'fail'
                    rec['status'] = 'SURVIVOR' if ok else 'killed-by-suite-only'
        finally:
            open(path, 'w').write('\n'.join(src))
        rec['secs'] = round(time.time() - t0)
        with open(resf, 'a') as f:
            f.write(json.dumps(rec) + '\n')
        print(rec['status'], rec.get('by', ''), f"{fname}:{i + 1}", rec['old'], '=>', rec['new'], f"[{rec['secs']}s]", flush=True)


main()
