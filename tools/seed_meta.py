#!/usr/bin/env python3
"""fills /verif/seeded/<id>/meta.json from notes.md / confirm.txt / checks_run"""
import json, os, re, sys
root = '/verif/seeded'
for sid in sorted(x for x in os.listdir(root) if not x.startswith('_')):
    d = f'{root}/{sid}'
    mp = f'{d}/meta.json'
    meta = json.load(open(mp)) if os.path.exists(mp) else {'id': sid}
    meta['property'] = sid.split('-')[0]
    notes = open(f'{d}/notes.md').read() if os.path.exists(f'{d}/notes.md') else ''
    meta['summary_from_author'] = ' '.join(notes.split('\n\n')[0:2]).replace('\n', ' ')[:900]
    m = re.search(r'(?is)(needs|trigger|manifest)[^\n]*\n(.{0,700})', notes)
    meta['needs_to_manifest'] = (m.group(0).replace('\n', ' ')[:700] if m else 'see notes.md')
    conf = open(f'{d}/confirm.txt').read() if os.path.exists(f'{d}/confirm.txt') else ''
    res = re.findall(r'test result: (\w+)\. (\d+) passed; (\d+) failed', conf)
    meta['confirmed_by_me'] = {
        'commands': 'tools/confirm_mutant.sh <scratch worktree> <mutant dir> <file the demo is appended to> (git apply patch.diff; cargo test --offline; '
                    'append demo.rs; cargo test --offline verif_demo; git checkout; append demo.rs; cargo test --offline verif_demo)',
        'suite_with_patch': (f'{res[0][0]}: {res[0][1]} passed, {res[0][2]} failed' if len(res) > 0 else 'not run yet'),
        'demo_with_patch': (f'{res[1][0]}: {res[1][1]} passed, {res[1][2]} failed' if len(res) > 1 else 'not run yet'),
        'demo_without_patch': (f'{res[2][0]}: {res[2][1]} passed, {res[2][2]} failed' if len(res) > 2 else 'not run yet'),
    }
    ex = re.findall(r'(?m)^exit=(\d+)', conf)
    if len(res) == 1 and len(ex) >= 2:   # python demo (confirm_pymutant.sh): exit codes instead of cargo results
        meta['confirmed_by_me']['commands'] = ('tools/confirm_pymutant.sh <scratch worktree> <mutant dir> (git apply patch.diff; cargo test --offline; '
                                               'python3.12 demo.py; git checkout; python3.12 demo.py)')
        meta['confirmed_by_me']['demo_with_patch'] = f'exit {ex[0]} (expected non-zero)'
        meta['confirmed_by_me']['demo_without_patch'] = f'exit {ex[1]} (expected 0)'
    cr = meta.get('checks_run', {})
    meta['detected_by'] = {p: ('concrete replay' if (v['exit'] == 1 and not v['no_failing_input_found']) else
                               ('no-failing-input-found' if v['exit'] == 1 else 'NOT DETECTED'))
                           for p, v in cr.items()}
    json.dump(meta, open(mp, 'w'), indent=1, default=str)
    print(sid, meta['confirmed_by_me']['suite_with_patch'], '|', meta['confirmed_by_me']['demo_with_patch'], '|', meta['detected_by'])
