#!/usr/bin/env python3
"""Differential test of coq/Model/TreeModel.v (ocaml/bbm) against the real
src/tree.rs build_tree (through wrappers::tree_progs, harness bbh).

usage: tools/tree_diff.py [--tier small|medium|big] [--dump]

small : (2,2) (3,2) (2,3), both halt flags, sim_lim in 0..12,20,50,100,300,
        odd sizes (0,x) (1,1) (1,2) (2,1) (1,3) ... (panics), `treedump` of every small case
medium: + (4,2) (2,4) at sim_lim in {0,1,2,3,5,8,12,20,30}, both halt flags
big   : + (3,3) halt=1 at sim_lim in {0,1,2,3,5}, (3,3) halt=0 at sim_lim in {0,1}
Every case is one process of each runner (timings are per case).
"""
import argparse
import os
import subprocess
import sys
import time
from concurrent.futures import ThreadPoolExecutor

sys.path.insert(0, os.path.dirname(os.path.dirname(os.path.abspath(__file__))))
from lib import core  # noqa: E402


def run_one(binary, line, env=None):
    t = time.time()
    p = subprocess.run([binary], input=line + '\n', capture_output=True, text=True,
                       env=env or core.ENV)
    out = p.stdout.strip()
    if p.returncode != 0:
        out = f'RUNNER-EXIT-{p.returncode}:{p.stderr[-200:]}'
    return out.split('|', 1)[1] if '|' in out else out, time.time() - t


def main():
    ap = argparse.ArgumentParser()
    ap.add_argument('--tier', default='small', choices=['small', 'medium', 'big'])
    ap.add_argument('--jobs', type=int, default=8)
    a = ap.parse_args()

    lims = list(range(0, 13)) + [20, 50, 100, 300]
    cases = []
    for S, C in [(2, 2), (3, 2), (2, 3)]:
        for halt in (0, 1):
            for lim in lims:
                cases.append(f'tree|{S},{C}|{halt}|{lim}')
                cases.append(f'treedump|{S},{C}|{halt}|{lim}')
    for S, C in [(0, 0), (0, 3), (3, 0), (1, 1), (1, 2), (2, 1), (1, 3), (3, 1), (1, 4), (1, 5), (5, 1)]:
        for halt in (0, 1):
            for lim in (0, 1, 2, 5, 30):
                cases.append(f'tree|{S},{C}|{halt}|{lim}')
                cases.append(f'treedump|{S},{C}|{halt}|{lim}')
    if a.tier in ('medium', 'big'):
        for S, C in [(4, 2), (2, 4)]:
            for halt in (1, 0):
                for lim in (0, 1, 2, 3, 5, 8, 12, 20, 30):
                    cases.append(f'tree|{S},{C}|{halt}|{lim}')
    if a.tier == 'big':
        for lim in (0, 1, 2, 3, 5):
            cases.append(f'tree|3,3|1|{lim}')
        for lim in (0, 1):
            cases.append(f'tree|3,3|0|{lim}')
    lines = [f't{i}|{c}' for i, c in enumerate(cases)]

    t0 = time.time()
    # bbh: one case at a time (build_tree itself uses the 16-thread rayon pool)
    hres = [run_one(core.BBH, l) for l in lines]
    t1 = time.time()
    with ThreadPoolExecutor(a.jobs) as ex:
        mres = list(ex.map(lambda l: run_one(core.BBM, l), lines))
    t2 = time.time()

    bad = 0
    slow = []
    panics = 0
    leaves = 0
    for l, (h, th), (m, tm) in zip(lines, hres, mres):
        if h != m or 'RUNNER' in h or 'MODEL' in m or 'HARNESS' in h:
            bad += 1
            print('DIVERGENCE', l, '\n  bbh:', h[:200], '\n  bbm:', m[:200])
        if h == 'PANIC':
            panics += 1
        if '|tree|' in l and h != 'PANIC':
            leaves += int(h.split('|')[0])
            if 'dups=0' not in h:
                print('DUPLICATES', l, h)
        if tm > 1.0 or th > 1.0:
            slow.append((l, h if len(h) < 60 else h[:60], round(th, 2), round(tm, 2)))
    print(f'cases={len(lines)} panics={panics} total_leaves={leaves} '
          f'bbh_wall={t1 - t0:.1f}s bbm_wall={t2 - t1:.1f}s')
    for s in slow:
        print('  timing', s)
    print(f'DIVERGENCES: {bad}')
    return 1 if bad else 0


if __name__ == '__main__':
    sys.exit(main())
