#!/usr/bin/env python3
"""tools/lane_mut.py LANE PROPS (FILE OLD NEW | --patch FILE.diff) — apply one change in a private lane (never /repo), run checks there."""
import os, subprocess, sys
sys.argv = [sys.argv[0]] + sys.argv[1:]
lane, props = sys.argv[1], sys.argv[2].split(',')
import importlib.util
spec = importlib.util.spec_from_file_location('sweep', os.path.join(os.path.dirname(__file__), 'sweep.py'))
src = open(spec.origin).read().replace("\nmain()\n", "\n")
ns = {}
sys_argv = sys.argv
sys.argv = ['sweep.py', lane, 'graph.rs']
exec(compile(src, 'sweep.py', 'exec'), ns)
sys.argv = sys_argv
assert ns['setup'](), 'lane harness does not build'
REPO, VERIF = ns['REPO'], ns['VERIF']
if sys.argv[3] == '--patch':
    r = subprocess.run(['git', '-C', REPO, 'apply', sys.argv[4]], capture_output=True, text=True)
    assert r.returncode == 0, r.stderr
else:
    f, old, new = sys.argv[3:6]
    p = f'{REPO}/{f}'
    s = open(p).read()
    assert s.count(old) >= 1, 'pattern not found'
    open(p, 'w').write(s.replace(old, new, 1))
try:
    if not ns['build']():
        print('lane harness does not build with the change')
    env = dict(ns['ENV'], BBH_OVERRIDE=f'{VERIF}/harness/target/release/bbh', BB_REPO_OVERRIDE=REPO, BB_PYROOT=REPO)
    for prop in props:
        r = subprocess.run(['./check', prop, '--no-proof'], cwd=VERIF, env=env, capture_output=True, text=True)
        print(prop, 'exit', r.returncode)
        print('\n'.join([l for l in r.stdout.splitlines() if not l.startswith('KNOWN')][:3]))
        if r.returncode == 1:
            import glob, json
            for g in sorted(glob.glob(f'{VERIF}/evidence/replay/{prop}-*.json'))[:1]:
                print(json.dumps(json.load(open(g)))[:700])
finally:
    subprocess.run(['git', '-C', REPO, 'checkout', '--', '.'])
