#!/usr/bin/env python3
"""numarith_diff: ties the Gallina model of the INT-OPERAND fragment of num.py's
simplifier (coq/Model/PyNumArithModel.v `arith false`, extracted: bbm `numarith`)
to the REAL library (tm/num.py under CPython 3.12 through py/pyharness.py) and
reports EVERY structural difference.

Per operator (x a generated expression, n a Python int):

    add   x + n     radd  n + x     sub   x - n     rsub  n - x     neg  -x
    mul   x * n     rmul  n * x     floordiv  x // n                pow  x ** n
    mkexp make_exp(n, x)   (what `n ** x` does, Num.__rpow__)

the generated text of x is BUILT by the library (pyharness `pybuild`); the
library applies the operator to the built object (`pyop`/`pypow`/`pyneg`/
`pybuild`) and prints the result TREE; the model gets the serialised built
object and n and prints its result tree, `raise:<Class>` or `unmodelled`.
Compared as strings: the trees must be identical node by node, an exception must
be of the same class.  `unmodelled` answers of the model are counted per operator
(the model refuses every step that needs an operation between two symbolic
operands, see the header of the model) and skipped.

Second report: on every case where the model returned a tree, the restriction
`arith true` (bbm `numarithchk`) -- the function theorem C18_arith_sound is about --
is run too: `covered` = it returns the same tree; `guard` = it refuses because
gcd(l, Exp) met a SYMBOLIC exponent whose value is too small for the returned power
to divide (the only place where `arith true` differs from the transcription).

Third report, THE PROPERTY on these cases: every tree the LIBRARY returned
(modelled or not) is evaluated by the extracted Spec and compared with integer
arithmetic on the value of the built operand (`//`: n != 0 dividing the value;
`**`: n >= 0): `WRONG` are concrete wrong answers of the library.

--prefix compares with the HISTORY model `arith_prefix` (the library before the
repair of gcd() and of Exp.__floordiv__) instead: run against a pre-repair tree it
must show zero differences too.

Generators: props/C18.py `gen` (depth <= 4, FAMILIES bases 2..7, int exponents
1..40, symbolic exponents of value 0..40), root kinds KINDS; n in -12..12 plus a
few larger; for // mostly exact divisors of the value, a fifth of them negated;
gcd-sensitive shapes ((a + b**e) * (c * b**f), small int exponents, symbolic
exponents of value 0..3).

usage: tools/numarith_diff.py [--seed N] [--per-op N] [--ops a,b,..] [--out FILE] [--show K] [--prefix]
exit status 0 iff there is no structural difference and no wrong integer.
"""
import argparse
import json
import os
import sys
import time

ROOT = os.path.dirname(os.path.dirname(os.path.abspath(__file__)))
if hasattr(sys, 'set_int_max_str_digits'):
    sys.set_int_max_str_digits(0)
sys.path.insert(0, ROOT)

from lib import core            # noqa: E402  pylint: disable = wrong-import-position

import re
SYMEXP = re.compile(r'\(\^ -?\d+ \(')      # an Exp whose exponent is not an int
OPS = ['add', 'radd', 'sub', 'rsub', 'neg', 'mul', 'rmul', 'floordiv', 'pow', 'mkexp']
PYH = f'{core.VERIF}/py/pyharness.py'
BIG_N = [-1000, -100, -64, -36, -27, -16, 14, 15, 16, 18, 20, 24, 25, 27, 28, 30, 32, 36, 42, 48, 49, 54, 64, 72, 81,
         96, 100, 108, 125, 128, 162, 216, 243, 256, 343, 625, 729, 1000, 1024, 2187, 3125, 59049, 65536, 10 ** 6,
         2 ** 20, 3 ** 13, 7 ** 8, 6 ** 9, 2 ** 40 + 1]
MKEXP_BASES = [2, 2, 3, 3, 4, 5, 6, 7, 8, 9, 10, 11, 12, 16, 25, 27, 32, 36, 49, 64, 81, 100, 121, 125, 256, 512,
               1024, 4096, 6561, 65536, 1, 0, -1, -2, -4]


def pick_n(rng):
    r = rng.random()
    if r < 0.8:
        return rng.randint(-12, 12)
    return rng.choice(BIG_N)


def gen_cases(seed, per_op, ops):
    """list of (id, op, text of x, n)"""
    from props import C18 as P      # pylint: disable = import-outside-toplevel
    rng = core.mkrng(seed, 'C18-numarith')

    def tree(kind, fam, bits=1500):
        for _ in range(20):
            t = P.gen(rng, rng.randint(1, 4), fam, kind)
            try:
                if abs(P.value(t)).bit_length() <= bits:
                    return t
            except P.NoValue:
                pass
        return P.gen(rng, 1, fam, kind)

    def operand(fam):
        kind = rng.choice(['+', '+', '+', '*', '*', '*', '/', '/', '^', '^', 'int'] if rng.random() < 0.9 else P.KINDS)
        t = tree(kind, fam)
        for _ in range(4):                       # a tree without an Exp folds to an int
            if '^' in P.txt(t) or rng.random() < 0.08:
                break
            t = tree(kind, fam)
        r = rng.random()
        b = rng.choice(fam)
        # shapes the branches of the fragment are about, which random trees seldom have
        if r < 0.04:
            t = ('*', -1, t)
        elif r < 0.08:
            t = ('*', rng.choice([2, 3, 5, 6, 7, 12, -2, -3, -6]), ('^', b, rng.randint(1, 30)))
        elif r < 0.12:
            t = ('+', rng.choice(P.LEAVES), ('*', rng.choice([2, 3, 4, 6, 9]), t))
        elif r < 0.15:
            t = ('^', b, ('+', rng.randint(-6, 6), ('^', b, rng.randint(1, 3))))
        elif r < 0.23:
            # (a + b**e) * (c * b**f) with small int exponents: Mul.__floordiv__ asks gcd() about an Add whose
            # terms share a factor with the divisor only through the sum, and about powers smaller than the divisor
            # (num.py gcd: Add 1313-1320, Exp 1333-1336)
            t = ('*', ('+', rng.choice([-1, 1]) * b * rng.randint(1, 4), ('^', b, rng.randint(1, 3))),
                 ('*', rng.choice([2, 3, 5, 6]), ('^', b, rng.randint(1, 12))))
        elif r < 0.26:
            t = ('+', rng.choice([-1, 1]) * rng.choice([2, 3, 4, 6, 8, 9, 12, b, b * b, 2 * b]),
                 ('*', rng.choice([1, 2, 3, 4, 6, b]), ('^', b, rng.randint(1, 3))))
        elif r < 0.31:
            # a symbolic exponent of small value (0..3): gcd(l, Exp) cannot bound blog by it
            j = rng.randint(1, 2)
            e = ('+', rng.randint(0, 3) - b ** j, ('^', b, j))
            p = ('^', b, e)
            t = rng.choice([('+', rng.choice([2, 3, 4, 6, b, -b, 2 * b]), p),
                            ('*', rng.choice([2, 3, 6, b, 2 * b]), p),
                            ('+', rng.choice([2, 4, 6, b, 2 * b]), ('*', rng.choice([2, 3, b]), p)),
                            ('*', ('+', rng.choice([2, 3, 4, b]), p), ('^', b, rng.randint(1, 4))),
                            ('*', ('+', rng.choice([2, 3, 4, b]), p), ('*', rng.choice([2, 3]), ('^', b, rng.randint(1, 4))))])
        return t

    out = []
    for op in ops:
        for i in range(per_op):
            fam = rng.choice(P.FAMILIES)
            if op == 'mkexp':
                for _ in range(30):
                    t = P.gen(rng, rng.randint(1, 3), fam, rng.choice(['+', '*', '^', '/', 'int', '+', '*', '+', '^']),
                              small=rng.random() < 0.6)
                    if '^' not in P.txt(t) and rng.random() < 0.7:
                        continue
                    try:
                        if -3 <= P.value(t) <= 40:
                            break
                    except P.NoValue:
                        pass
                else:
                    t = rng.randint(1, 40)
                n = rng.choice(MKEXP_BASES) if rng.random() < 0.8 else rng.randint(2, 200) ** 2
                out.append((f'{op}{i}', op, P.txt(t), n))
                continue
            t = operand(fam)
            n = pick_n(rng)
            if op == 'floordiv':
                if rng.random() < 0.25:
                    # gcd-sensitive: (a + b**e) * (c * b**f), a + c * b**e, with small int exponents -- the divisor
                    # shares factors with the terms of a sum but not with the sum, or exceeds a power (num.py gcd)
                    b = rng.choice(fam)
                    a = rng.choice([-1, 1]) * rng.choice([b, 2 * b, 3 * b, b * b, 2, 3, 4, 6, 12])
                    t = rng.choice([
                        ('*', ('+', a, ('^', b, rng.randint(1, 3))), ('*', rng.choice([2, 3, 5, 6]), ('^', b, rng.randint(1, 12)))),
                        ('*', ('+', a, ('*', rng.choice([2, 3]), ('^', b, rng.randint(1, 3)))), ('^', b, rng.randint(1, 6))),
                        ('+', a * b, ('*', rng.choice([1, 2, 3, b]), ('^', b, rng.randint(1, 3)))),
                        ('/', ('*', ('+', a, ('^', b, rng.randint(1, 3))), ('*', 6, ('^', b, rng.randint(2, 8)))), rng.choice([2, 3])),
                    ])
                r = rng.random()
                try:
                    v = P.value(t)
                except P.NoValue:
                    v = 0
                if r < 0.7 and v != 0:
                    ds = [d for d in list(range(2, 201)) + [243, 256, 343, 512, 625, 729, 1024, 2187] if v % d == 0]
                    if not ds:
                        k = rng.choice([2, 3, 4, 6, 9, 12])
                        t = ('*', t, k)
                        ds = [d for d in (2, 3, 4, 6, 9, 12) if k % d == 0]
                    n = rng.choice(ds)
                    if rng.random() < 0.2:
                        n = -n                       # a negative exact divisor (Exp.__floordiv__ 1102-1103)
                elif r < 0.8:
                    n = rng.randint(1, 12)
                if rng.random() < 0.1:
                    # the two partial gcds of a sum are c*b and b**j, neither dividing the other
                    # (num.py:1320 pgcd(lgcd, rgcd) vs the old min(lgcd, rgcd)); the division is exact
                    b = rng.choice(fam)
                    c = rng.choice([k for k in (2, 3, 5, 7) if b % k and k % b] or [3])
                    j = rng.randint(2, 3)
                    f = rng.randint(j - 1, j + 6)
                    t = ('*', ('+', rng.choice([-1, 1, 2, -2]) * c * b, ('^', b, rng.randint(2, 4))),
                         ('*', c, ('^', b, f)))
                    n = c * b ** j
            elif op in ('mul', 'rmul') and rng.random() < 0.3:
                b = rng.choice(fam)
                n = rng.choice([1, 1, 2, 3, 5, -1, -2, -3]) * b ** rng.randint(1, 6)
            elif op == 'pow':
                if rng.random() < 0.5:
                    t = tree('^', fam)
                n = rng.choice([0, 1, 2, 2, 3, 3, 4, 5, 6, 7, 12, -1, -2]) if rng.random() < 0.9 else rng.randint(-12, 40)
            out.append((f'{op}{i}', op, P.txt(t), n))
    return out


def lib_line(cid, op, text, n):
    if op == 'add':
        return f'{cid}|pyop|+|{text}|{n}'
    if op == 'radd':
        return f'{cid}|pyop|+|{n}|{text}'
    if op == 'sub':
        return f'{cid}|pyop|-|{text}|{n}'
    if op == 'rsub':
        return f'{cid}|pyop|-|{n}|{text}'
    if op == 'neg':
        return f'{cid}|pyneg|{text}'
    if op == 'mul':
        return f'{cid}|pyop|*|{text}|{n}'
    if op == 'rmul':
        return f'{cid}|pyop|*|{n}|{text}'
    if op == 'floordiv':
        return f'{cid}|pyop|//|{text}|{n}'
    if op == 'pow':
        return f'{cid}|pypow|{text}|{n}'
    if op == 'mkexp':
        return f'{cid}|pybuild|(^ {n} {text})'
    raise ValueError(op)


def expected(op, v, n):
    """integer value the property demands (None: outside the statement)"""
    if op in ('add', 'radd'):
        return v + n
    if op == 'sub':
        return v - n
    if op == 'rsub':
        return n - v
    if op == 'neg':
        return -v
    if op in ('mul', 'rmul'):
        return v * n
    if op == 'floordiv':
        return v // n if n != 0 and v % n == 0 else None
    if op == 'pow':
        return v ** n if 0 <= n and v.bit_length() * n <= 50000 else None
    if op == 'mkexp':
        return n ** v if 0 <= v and abs(n).bit_length() * v <= 50000 else None
    raise ValueError(op)


def run_py(lines, pyroot, cf=None):
    env = dict(core.ENV, BB_PYROOT=pyroot)
    if cf:
        env['BB_PYCF'] = cf
    if not os.path.isfile(f'{pyroot}/tm/num.py'):
        raise core.BuildError('pyharness', f'{pyroot}/tm/num.py not found')
    return core.run_lines(PYH, lines, shards=min(12, max(1, len(lines) // 200)), env=env)


def run(seed=1, per_op=2000, ops=None, pyroot=None, show=5, prefix=False):
    """returns (report dict, list of structural differences, list of wrong integers of the library).
    prefix=True compares with the HISTORY model (arith_prefix: the library before the repair of gcd() and of
    Exp.__floordiv__) instead of the current one."""
    ops = ops or OPS
    pyroot = pyroot or os.environ.get('BB_PYROOT', '/repo')
    t0 = time.time()
    cs = gen_cases(seed, per_op, ops)
    texts = sorted({t for _, _, t, _ in cs})
    bl = run_py([f'b{i}|pybuild|{t}' for i, t in enumerate(texts)], pyroot)
    built = {t: bl.get(f'b{i}', 'MISSING') for i, t in enumerate(texts)}
    lib = run_py([lib_line(cid, op, t, n) for cid, op, t, n in cs], pyroot)
    todo = [(cid, op, t, n) for cid, op, t, n in cs if not built[t].startswith(('raise', 'MISSING', 'HARNESS'))
            and 'tet' not in built[t]]
    cmd = 'numarithpre' if prefix else 'numarith'
    mod = core.run_bbm([f'{cid}|{cmd}|{op}|{built[t]}|{n}' for cid, op, t, n in todo])
    valued = [c for c in todo if not mod.get(c[0], 'MISSING').startswith(('raise', 'unmodelled', 'MISSING', 'MODEL', 'PANIC'))]
    chk = {} if prefix else core.run_bbm([f'{cid}|numarithchk|{op}|{built[t]}|{n}' for cid, op, t, n in valued])
    stats = {op: {'cases': 0, 'not_built': 0, 'int_operand': 0, 'agree_tree': 0, 'agree_symbolic_tree': 0,
                  'agree_raise': 0, 'unmodelled': 0, 'library_timeout': 0, 'differences': 0,
                  'covered_by_theorem': 0, 'guard_refused': 0, 'chk_toobig': 0,
                  'library_trees_evaluated': 0, 'library_wrong_integer': 0}
             for op in ops}
    raises = {op: {} for op in ops}
    diffs = []
    guarded = []
    for cid, op, t, n in cs:
        s = stats[op]
        s['cases'] += 1
        b = built[t]
        if b.startswith(('raise', 'MISSING', 'HARNESS')) or 'tet' in b:
            s['not_built'] += 1
            continue
        if not b.startswith('('):
            s['int_operand'] += 1
        a = lib.get(cid, 'MISSING')
        if a.startswith('raise-build'):      # mkexp: the build IS the operation
            a = 'raise:' + a.split(':', 1)[1]
        m = mod.get(cid, 'MISSING')
        if m == 'unmodelled':
            s['unmodelled'] += 1
            continue
        if a in ('raise:Timeout', 'raise:RecursionError'):
            s['library_timeout'] += 1
            diffs.append({'id': cid, 'op': op, 'x': t, 'built': b, 'n': n, 'library': a, 'model': m})
            s['differences'] += 1
            continue
        if a != m:
            s['differences'] += 1
            diffs.append({'id': cid, 'op': op, 'x': t, 'built': b, 'n': n, 'library': a, 'model': m})
            continue
        if a.startswith('raise'):
            s['agree_raise'] += 1
            raises[op][a] = raises[op].get(a, 0) + 1
            continue
        s['agree_tree'] += 1
        if a.startswith('('):
            s['agree_symbolic_tree'] += 1
        if prefix:
            continue
        c = chk.get(cid, 'MISSING')
        if c == a:
            s['covered_by_theorem'] += 1
        elif c == 'toobig':
            s['chk_toobig'] += 1
        elif c == 'unmodelled':
            s['guard_refused'] += 1
            guarded.append(cid)
        else:
            s['differences'] += 1
            diffs.append({'id': cid, 'op': op, 'x': t, 'built': b, 'n': n, 'library': a, 'model': m,
                          'model_chk': c, 'why': 'arith true answers differently from arith false'})
    # THE PROPERTY on these cases: every tree the LIBRARY returned (modelled or not), evaluated by the extracted
    # Spec and compared with integer arithmetic on the value of the built operand
    treed = [(cid, op, t, n) for cid, op, t, n in todo
             if not lib.get(cid, 'MISSING').startswith(('raise', 'MISSING', 'HARNESS')) and 'tet' not in lib[cid]]
    req = sorted({('numeval', built[t]) for _, _, t, _ in treed} | {('numeval', lib[c[0]]) for c in treed})
    ev = core.run_bbm([f'q{i}|' + '|'.join(r) for i, r in enumerate(req)])
    ev = {r: ev.get(f'q{i}', 'MISSING') for i, r in enumerate(req)}
    wrong = []
    gset = set(guarded)
    for cid, op, t, n in treed:
        a, b = lib[cid], built[t]
        vx, vr = ev[('numeval', b)], ev[('numeval', a)]
        if vx in ('none', 'toobig', 'MISSING') or vr in ('toobig', 'MISSING'):
            continue
        exp = expected(op, int(vx), n)
        if exp is None:
            continue
        stats[op]['library_trees_evaluated'] += 1
        if vr != str(exp):
            stats[op]['library_wrong_integer'] += 1
            wrong.append({'id': cid, 'op': op, 'x': t, 'built': b, 'n': n, 'library': a, 'exact_value_of_result': vr,
                          'integers_say': str(exp), 'model': mod.get(cid, 'MISSING'),
                          'guard_refused': cid in gset, 'replay': lib_line('r', op, t, n)})
    tot = {k: sum(s[k] for s in stats.values()) for k in next(iter(stats.values()))}
    for op in ops:
        s = stats[op]
        den = max(1, s['cases'] - s['not_built'])
        s['unmodelled_share'] = round(s['unmodelled'] / den, 4)
    wrong.sort(key=lambda w: len(w['built']))
    rep = {'seed': seed, 'per_op': per_op, 'pyroot': pyroot, 'model': 'arith_prefix' if prefix else 'arith false',
           'per_operator': stats, 'total': tot, 'agree_raise_classes': raises,
           'differences': len(diffs), 'difference_samples': diffs[:show],
           'library_wrong_integers': len(wrong), 'library_wrong_integer_samples': wrong[:show],
           'relation': 'num.py int-operand fragment (+ - * // ** neg make_exp) = PyNumArithModel.'
                       + ('arith_prefix' if prefix else 'arith false') + ', result trees compared node by node',
           'wall_s': round(time.time() - t0, 1)}
    return rep, diffs, wrong


def attribute(wrong, pyroot=None):
    """class of each wrong integer of the library (adds w['class']):
      symexp-gcd  the model answers the same tree and `arith true` refuses (gcd(l, Exp) met a symbolic exponent
                  too small for the returned power to divide: the only restriction of theorem C18_arith_sound),
                  or -- outside the modelled fragment -- the wrong integer disappears (right value or an
                  exception) when the case is re-run with BB_PYCF=gcdexact (gcd() replaced at run time by
                  math.gcd(l, int(r))) AND the built operand contains an Exp with a symbolic exponent;
      ltint / ordering   it disappears under BB_PYCF=ltint / ltall (the known comparison findings F9 / F10:
                  add_exponents and Exp.__mul__ order symbolic exponents by __lt__);
      None        none of these."""
    pyroot = pyroot or os.environ.get('BB_PYROOT', '/repo')
    todo = []
    for w in wrong:
        w['class'] = 'symexp-gcd' if w.get('guard_refused') else None
        if w['class'] is None:
            todo.append(w)
    for cf, cls in (('ltint', 'ltint'), ('ltall', 'ordering'), ('gcdexact', 'symexp-gcd')):
        if not todo:
            break
        h = run_py([lib_line(f'w{i}', w['op'], w['x'], w['n']) for i, w in enumerate(todo)], pyroot, cf)
        trees = {i: h.get(f'w{i}', 'MISSING') for i in range(len(todo))}
        req = sorted({('numeval', t) for t in trees.values() if not t.startswith(('raise', 'MISSING', 'HARNESS'))
                      and 'tet' not in t})
        ev = core.run_bbm([f'q{i}|' + '|'.join(r) for i, r in enumerate(req)]) if req else {}
        ev = {r: ev.get(f'q{i}', 'MISSING') for i, r in enumerate(req)}
        rest = []
        for i, w in enumerate(todo):
            t = trees[i]
            gone = t.startswith('raise') or ev.get(('numeval', t)) == w['integers_say']
            if gone and (cls != 'symexp-gcd' or SYMEXP.search(w['built'])):
                w['class'] = cls
            else:
                rest.append(w)
        todo = rest
    return wrong


def replay_case(op, text, n, pyroot=None):
    """one case again: built operand, library answer, model answer, answer of the restriction `arith true`"""
    pyroot = pyroot or os.environ.get('BB_PYROOT', '/repo')
    h = run_py([f'b|pybuild|{text}', lib_line('r', op, text, n)], pyroot)
    b, a = h.get('b', 'MISSING'), h.get('r', 'MISSING')
    out = {'op': op, 'x': text, 'n': n, 'built': b, 'library': a, 'library_cmd': lib_line('r', op, text, n),
           'agree': None}                          # None: the operand itself could not be built
    if not b.startswith(('raise', 'MISSING', 'HARNESS')) and 'tet' not in b:
        m = core.run_bbm([f'm|numarith|{op}|{b}|{n}', f'c|numarithchk|{op}|{b}|{n}'])
        out['model'] = m.get('m', 'MISSING')
        out['model_chk'] = m.get('c', 'MISSING')
        out['agree'] = (out['model'] == 'unmodelled' or out['model'] == a
                        or (op == 'mkexp' and a.startswith('raise-build') and out['model'] == 'raise:' + a.split(':', 1)[1]))
    return out


def main():
    ap = argparse.ArgumentParser()
    ap.add_argument('--seed', type=int, default=1)
    ap.add_argument('--per-op', type=int, default=20000)
    ap.add_argument('--ops', default=','.join(OPS))
    ap.add_argument('--out')
    ap.add_argument('--show', type=int, default=8)
    ap.add_argument('--prefix', action='store_true', help='compare with the HISTORY model arith_prefix')
    a = ap.parse_args()
    core.build_bbm()
    rep, diffs, wrong = run(a.seed, a.per_op, a.ops.split(','), show=a.show, prefix=a.prefix)
    print(f"pyroot {rep['pyroot']}   model {rep['model']}")
    print(f"{'op':9} {'cases':>7} {'notbuilt':>8} {'int x':>6} {'tree=':>7} {'symb=':>7} {'raise=':>7} {'unmod':>6} "
          f"{'share':>6} {'DIFF':>5} {'covered':>7} {'guard':>6} {'evald':>7} {'WRONG':>5}")
    for op, s in rep['per_operator'].items():
        print(f"{op:9} {s['cases']:7} {s['not_built']:8} {s['int_operand']:6} {s['agree_tree']:7} "
              f"{s['agree_symbolic_tree']:7} {s['agree_raise']:7} {s['unmodelled']:6} {s['unmodelled_share']:6.3f} "
              f"{s['differences']:5} {s['covered_by_theorem']:7} {s['guard_refused']:6} "
              f"{s['library_trees_evaluated']:7} {s['library_wrong_integer']:5}")
    print('raise classes agreed:', json.dumps(rep['agree_raise_classes']))
    for d in rep['difference_samples']:
        print('DIFF', json.dumps(d))
    attribute(wrong)
    cls = {}
    for w in wrong:
        cls[str(w['class'])] = cls.get(str(w['class']), 0) + 1
    rep['library_wrong_integer_classes'] = cls
    print('wrong integers of the library by class:', json.dumps(cls))
    for w in rep['library_wrong_integer_samples']:
        print('WRONG', json.dumps(w))
    if a.out:
        json.dump(dict(rep, all_differences=diffs, all_wrong=wrong), open(a.out, 'w'), indent=1)
    print(f"structural differences: {rep['differences']}   wrong integers of the library: {rep['library_wrong_integers']}"
          f"   wall {rep['wall_s']} s")
    return 1 if diffs or wrong else 0


if __name__ == '__main__':
    sys.exit(main())
