#!/usr/bin/env python3
"""tools/seed_lane.py LANE <mutdir> <seeded-id> <prop[,prop]>: like tools/seed.py, but the patch is applied in a private
lane (/root/sweep/LANE/{repo,verif}: git worktree of /repo + copy of /verif whose harness includes the lane's sources),
for use while /repo itself is busy (a `vp run`).  Records the results under /verif/seeded/<seeded-id>/meta.json."""
import json, os, shutil, subprocess, sys
lane, mutdir, sid, props = sys.argv[1], sys.argv[2], sys.argv[3], sys.argv[4].split(',')
src = open(os.path.join(os.path.dirname(__file__), 'sweep.py')).read().replace("\nmain()\n", "\n")
argv = sys.argv
sys.argv = ['sweep.py', lane, 'graph.rs']
ns = {}
exec(compile(src, 'sweep.py', 'exec'), ns)
sys.argv = argv
assert ns['setup'](), 'lane harness does not build'
REPO, VERIF = ns['REPO'], ns['VERIF']
dst = f'/verif/seeded/{sid}'
os.makedirs(dst, exist_ok=True)
for f in os.listdir(mutdir):
    if os.path.isfile(f'{mutdir}/{f}') and os.path.getsize(f'{mutdir}/{f}') < 200000 and os.path.realpath(mutdir) != os.path.realpath(dst):
        shutil.copy(f'{mutdir}/{f}', dst)
r = subprocess.run(['git', '-C', REPO, 'apply', f'{mutdir}/patch.diff'], capture_output=True, text=True)
if r.returncode != 0:
    print('APPLY FAILED', r.stderr); sys.exit(2)
results = {}
try:
    built = ns['build']()
    env = dict(ns['ENV'], BBH_OVERRIDE=f'{VERIF}/harness/target/release/bbh', BB_REPO_OVERRIDE=REPO, BB_PYROOT=REPO)
    for p in props:
        if not built:
            results[p] = {'exit': 1, 'violations': 1, 'no_failing_input_found': True, 'first_replay': {'kind': 'tie-build'}}
            print(p, 'lane harness does not build with the patch (the check reports tie-build)')
            continue
        rr = subprocess.run(['./check', p, '--no-proof'], cwd=VERIF, env=env, capture_output=True, text=True)
        vio = [l for l in rr.stdout.splitlines() if l.startswith('VIOLATION')]
        rep = None
        if vio:
            try:
                rep = json.load(open(vio[0].split('replay=')[1].split()[0]))
            except Exception:
                rep = None
        results[p] = {'exit': rr.returncode, 'violations': len(vio), 'no_failing_input_found': any('no-failing-input-found' in l for l in vio),
                      'first_replay': rep, 'run_in': f'private lane {lane} (same checks, BBH_OVERRIDE/BB_REPO_OVERRIDE)'}
        print(p, 'exit', rr.returncode, vio[:1], (json.dumps(rep)[:300] if rep else ''))
finally:
    subprocess.run(['git', '-C', REPO, 'checkout', '--', '.'])
mp = f'{dst}/meta.json'
meta = json.load(open(mp)) if os.path.exists(mp) else {}
meta.setdefault('id', sid)
meta['checks_run'] = results
json.dump(meta, open(mp, 'w'), indent=1, default=str)
