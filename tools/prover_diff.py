#!/usr/bin/env python3
"""Differential test of the prover model (coq/Model/ProverModel.v, runner
ocaml/bbm) against the real run_prover (harness bbh), command `provertrace`.

usage (cwd = verif root):
    python3 tools/prover_diff.py [named] [x22] [random] [tree] [mutant] [--seed N] [--nrand N] [--ntree N] [--nmut N]
                                 [--timeout-model SECONDS]
Without a suite argument all five suites run.  Exit status 0 iff there is no
differing line.  Writes work/prover_<suite>.{cases,h.out,m.out}.
"""
import os
import random
import resource
import subprocess
import sys
import threading
import time

HERE = os.path.dirname(os.path.dirname(os.path.abspath(__file__)))
sys.path.insert(0, HERE)
from lib import gen  # noqa: E402

BBH = f'{HERE}/harness/target/release/bbh'
BBM = f'{HERE}/ocaml/bbm'
WORK = f'{HERE}/work'

TREE_LIKE = [
    '1RB 1LA  1LA 1RB',
    '1RB 0LB  1LA 0RA',
    '1RB 1LB  1LA 1RA',
    '1RB 2LA 1RA 1RA  1LB 1LA 3RB ...',
    '1RB 1LC  1RD 1RB  0RD 0RC  1LD 1LA',
    '1RB 2LA 3LA 2RA  0LA ... 2RB 3RB',
    '1RB 1LC  1RC 1RB  1RD 0LE  1LA 1LD  ... 0LA',
    '1RB 2LB 1LC  1LA 2RB 1RB  ... 2LA 1LC',
    '1RB 0LC  1LA 1RB  1LB 1LA',
    '1RB 2LA 1LA  2LA 2RB 0RA',
]


def cases_named():
    progs = gen.named_machines()
    for p in TREE_LIKE:
        if p not in progs:
            progs.append(p)
    out = []
    for lim in (10, 100, 1000, 10000):
        for i, p in enumerate(progs):
            out.append(f'n{lim}_{i}|provertrace|{p}|{lim}')
    return out


def cases_x22():
    out = []
    n = 0
    for t in gen.exhaustive_tables(2, 2, first_defined=True):
        p = gen.prog_text(t)
        for lim in (5, 50, 500):
            out.append(f'x{n}_{lim}|provertrace|{p}|{lim}')
        n += 1
    return out


SIZES = [(3, 2), (2, 3), (4, 2), (2, 4), (3, 3), (5, 2), (2, 5), (6, 2)]


def cases_random(seed, nrand):
    rng = random.Random(seed)
    out = []
    for i in range(nrand):
        S, C = SIZES[i % len(SIZES)]
        if i % 2 == 0:
            t = gen.random_nf_table(rng, S, C, p_undef=0.05)
        else:
            t = gen.random_table(rng, S, C, p_undef=0.05)
        p = gen.prog_text(t)
        for lim in (30, 300, 3000):
            out.append(f'r{i}_{lim}|provertrace|{p}|{lim}')
    return out


def tree_random_table(rng, S, C, max_steps=400, p_stop=0.02):
    """Tree-generation style: start from 1RB, simulate from the blank tape and
    fill an undefined slot with a random instruction when it is reached (only
    states/colours used so far plus one new one), as the tree search of /repo
    does.  Produces long-running, structured programs (counters, bouncers)."""
    table = [[None] * C for _ in range(S)]
    table[0][0] = (1, True, 1)
    tape = {}
    pos, state = 0, 0
    max_s, max_c = 1, 1
    for _ in range(max_steps):
        scan = tape.get(pos, 0)
        ins = table[state][scan]
        if ins is None:
            if rng.random() < p_stop:
                break
            ins = (rng.randrange(min(C, max_c + 2)), rng.random() < 0.5,
                   rng.randrange(min(S, max_s + 2)))
            table[state][scan] = ins
            max_c = max(max_c, ins[0])
            max_s = max(max_s, ins[2])
        tape[pos] = ins[0]
        pos += 1 if ins[1] else -1
        state = ins[2]
    return table


def cases_tree(seed, n):
    rng = random.Random(seed + 1)
    out = []
    seen = set()
    i = 0
    while i < n:
        S, C = SIZES[i % len(SIZES)]
        p = gen.prog_text(tree_random_table(rng, S, C))
        if p in seen:
            continue
        seen.add(p)
        for lim in (30, 300, 3000):
            out.append(f't{i}_{lim}|provertrace|{p}|{lim}')
        i += 1
    return out


def parse_prog(p):
    rows = []
    for r in p.split('  '):
        rows.append([None if '.' in t else (int(t[0]), t[1] == 'R', ord(t[2]) - 65) for t in r.split(' ')])
    return rows


def cases_mutant(seed, n):
    """single-instruction mutations of the named machines (and of the tree-like
    examples), biased towards the programs on which the real prover applies rules"""
    rng = random.Random(seed + 2)
    progs = gen.named_machines() + TREE_LIKE
    # ask the MODEL (not the code under test: the corpus must not depend on it) which of them apply rules within 1000 cycles
    h = run_sharded(BBM, [f'{i}|prover|{p}|1000' for i, p in enumerate(progs)], 16)
    rich = [p for i, p in enumerate(progs)
            if h.get(str(i), 'PANIC') != 'PANIC' and h[str(i)].split('|')[4] != '0']
    cands = []
    seen = set(progs)
    while len(cands) < n:
        t = parse_prog(rng.choice(rich))
        S, C = len(t), len(t[0])
        if S * C > 16:
            continue
        for _ in range(rng.choice((1, 1, 2))):
            r, c = rng.randrange(S), rng.randrange(C)
            if (r, c) == (0, 0):
                continue
            t[r][c] = (None if rng.random() < 0.05
                       else (rng.randrange(C), rng.random() < 0.5, rng.randrange(S)))
        p = gen.prog_text(t)
        if p in seen:
            continue
        seen.add(p)
        cands.append(p)
    # keep every mutant on which the real prover applies a rule (or panics)
    # within 3000 cycles, and one in eight of the others
    h = run_sharded(BBH, [f'{i}|prover|{p}|3000' for i, p in enumerate(cands)], 1,
                    env=dict(os.environ, BBH_THREADS='16'))
    out = []
    for i, p in enumerate(cands):
        a = h.get(str(i), 'PANIC')
        if a == 'PANIC' or a.split('|')[4] != '0' or i % 8 == 0:
            for lim in (30, 300, 3000):
                out.append(f'u{i}_{lim}|provertrace|{p}|{lim}')
    return out


def run_sharded(binary, lines, shards, env=None, timeout=None):
    """returns dict id -> answer; a shard that exceeds [timeout] is reported"""
    procs = []
    for i in range(shards):
        part = lines[i::shards]
        if part:
            procs.append((subprocess.Popen([binary], stdin=subprocess.PIPE, stdout=subprocess.PIPE,
                                           text=True, env=env), part))
    res = [None] * len(procs)

    def feed(ix, p, part):
        res[ix] = p.communicate('\n'.join(part) + '\n', timeout=timeout)[0]
    ths = [threading.Thread(target=feed, args=(i, p, part)) for i, (p, part) in enumerate(procs)]
    for t in ths:
        t.start()
    for t in ths:
        t.join()
    out = {}
    for o in res:
        for l in (o or '').splitlines():
            if l:
                k = l.find('|')
                out[l[:k]] = l[k + 1:]
    return out


def time_model_cases(lines, limit):
    """run each line alone in the model with a wall-clock limit; returns (answers, dropped)"""
    ans, dropped = {}, []
    lock = threading.Lock()
    todo = list(lines)

    def worker():
        while True:
            with lock:
                if not todo:
                    return
                l = todo.pop()
            # the limit is CPU time of the model process (the host may be loaded)
            p = subprocess.run([BBM], input=l + '\n', capture_output=True, text=True,
                               preexec_fn=lambda: resource.setrlimit(resource.RLIMIT_CPU, (limit, limit)))
            o = p.stdout.strip()
            k = o.find('|')
            with lock:
                if p.returncode == 0 and k > 0:
                    ans[o[:k]] = o[k + 1:]
                else:
                    dropped.append(l)
    ths = [threading.Thread(target=worker) for _ in range(16)]
    for t in ths:
        t.start()
    for t in ths:
        t.join()
    return ans, dropped


def stats(lines, h):
    rule_cases = 0
    rules = set()
    kinds = {}
    panics = 0
    napps = 0
    for l in lines:
        cid = l.split('|', 1)[0]
        a = h.get(cid, '')
        if a == 'PANIC':
            panics += 1
            continue
        f = a.split('|')
        kinds[f[0]] = kinds.get(f[0], 0) + 1
        if len(f) > 9 and f[9]:
            rule_cases += 1
            for rec in f[9].split(';'):
                napps += 1
                rules.add(rec.split(' ')[3])
    return rule_cases, len(rules), napps, panics, kinds


def run_suite(name, lines, model_limit):
    os.makedirs(WORK, exist_ok=True)
    open(f'{WORK}/prover_{name}.cases', 'w').write('\n'.join(lines) + '\n')
    t0 = time.time()
    h = run_sharded(BBH, lines, 1, env=dict(os.environ, BBH_THREADS='16'))
    t1 = time.time()
    dropped = []
    if model_limit:
        # per-case wall-clock limit (only the heavy limits are run one by one)
        heavy = [l for l in lines if l.rsplit('|', 1)[1] in ('10000',)]
        light = [l for l in lines if l not in set(heavy)]
        m = run_sharded(BBM, light, 16)
        mh, dropped = time_model_cases(heavy, model_limit)
        m.update(mh)
    else:
        m = run_sharded(BBM, lines, 16)
    t2 = time.time()
    dropped_ids = {l.split('|', 1)[0] for l in dropped}
    with open(f'{WORK}/prover_{name}.h.out', 'w') as fh, open(f'{WORK}/prover_{name}.m.out', 'w') as fm:
        for l in lines:
            cid = l.split('|', 1)[0]
            if cid in dropped_ids:
                continue
            fh.write(f'{cid}|{h.get(cid, "MISSING")}\n')
            fm.write(f'{cid}|{m.get(cid, "MISSING")}\n')
    diffs = [l for l in lines if l.split('|', 1)[0] not in dropped_ids
             and h.get(l.split('|', 1)[0], 'MISSING-H') != m.get(l.split('|', 1)[0], 'MISSING-M')]
    rc, nr, na, pn, kinds = stats(lines, h)
    print(f'[{name}] cases={len(lines)} divergences={len(diffs)} dropped={len(dropped)} '
          f'rule-applying cases={rc} distinct rules={nr} applications={na} PANIC={pn} '
          f'kinds={kinds} bbh={t1 - t0:.1f}s bbm={t2 - t1:.1f}s', flush=True)
    for l in dropped:
        print('  dropped (model too slow):', l)
    for l in diffs[:10]:
        cid = l.split('|', 1)[0]
        print('  DIFF', l)
        print('    bbh:', h.get(cid, 'MISSING')[:400])
        print('    bbm:', m.get(cid, 'MISSING')[:400])
    return len(diffs)


def main():
    args = sys.argv[1:]
    seed, nrand, mlim = 20260930, 20000, 60

    def opt(name, default):
        if name in args:
            i = args.index(name)
            v = int(args[i + 1])
            del args[i:i + 2]
            return v
        return default
    seed = opt('--seed', seed)
    nrand = opt('--nrand', nrand)
    mlim = opt('--timeout-model', mlim)
    ntree = opt('--ntree', 6000)
    nmut = opt('--nmut', 30000)
    suites = args or ['named', 'x22', 'random', 'tree', 'mutant']
    bad = 0
    if 'named' in suites:
        bad += run_suite('named', cases_named(), mlim)
    if 'x22' in suites:
        bad += run_suite('x22', cases_x22(), 0)
    if 'random' in suites:
        bad += run_suite('random', cases_random(seed, nrand), 0)
    if 'tree' in suites:
        bad += run_suite('tree', cases_tree(seed, ntree), 0)
    if 'mutant' in suites:
        bad += run_suite('mutant', cases_mutant(seed, nmut), 0)
    print('TOTAL divergences:', bad)
    sys.exit(1 if bad else 0)


if __name__ == '__main__':
    main()
