"""Measurement for the verified symbolic rule checker (Model/SymRule.v):
run it on every DISTINCT (program, state, tape signature, rule) among the rule
applications that the REAL run_prover (bbh provertrace) records on the C02 corpus.

usage: python3 tools/symrule_measure.py [quick|full] [seed] [cycles] [restarts]
"""
import collections
import importlib.util
import json
import os
import sys

HERE = os.path.dirname(os.path.dirname(os.path.abspath(__file__)))
sys.path.insert(0, HERE)
from lib import core  # noqa: E402

_spec = importlib.util.spec_from_file_location('C02', f'{HERE}/props/C02.py')
C02 = importlib.util.module_from_spec(_spec)
_spec.loader.exec_module(C02)


def tape_sig(field):
    sc, l, r = field.split('/')

    def sp(s):
        return tuple((b.split(':')[0], b.split(':')[1] == '1') for b in s.split(',')) if s else ()
    return (sc, sp(l), sp(r))


def main():
    tier = sys.argv[1] if len(sys.argv) > 1 else 'quick'
    seed = int(sys.argv[2]) if len(sys.argv) > 2 else 1
    cycles = sys.argv[3] if len(sys.argv) > 3 else '2000'
    restarts = sys.argv[4] if len(sys.argv) > 4 else '64'
    cs, dist = C02.corpus(seed, tier)
    lines = [f'{cid}|provertrace|{p}|{lim}' for cid, p, lim in cs]
    h = core.run_bbh(lines)
    groups = collections.OrderedDict()      # key -> list of (before, times, after, cid, cycle)
    napps = 0
    for cid, p, lim in cs:
        r = C02.parse_answer(h.get(cid, ''))
        if not r:
            continue
        for rec in r['apps']:
            cyc, st, before, rule, times, after = rec.split(' ')
            key = (p, st, tape_sig(before), rule)
            groups.setdefault(key, []).append((before, int(times), after, cid, cyc))
            napps += 1
    keys = list(groups)
    print(f'programs x limits: {len(cs)}; recorded applications: {napps}; distinct (program,state,signature,rule): {len(keys)}')
    out = {}
    for mode in ('all', 'sig'):
        q = [f'k{i}|symrule|{k[0]}|{k[1]}|{groups[k][0][0]}|{k[3]}|{cycles}|{mode}|{restarts}' for i, k in enumerate(keys)]
        ans = core.run_bbm(q)
        cls = collections.Counter()
        why = collections.Counter()
        cover_q = []
        for i, k in enumerate(keys):
            a = ans.get(f'k{i}', 'MISSING')
            f = a.split(':', 4)
            if f[0] == 'cert':
                cls[f[3]] += 1
                if f[3] == 'above':
                    for j, (before, times, after, cid, cyc) in enumerate(groups[k]):
                        cover_q.append(f'k{i}_{j}|symcover|{mode}|{f[2]}|{groups[k][0][0]}|{before}|{k[3]}|{times}')
            else:
                cls['nocert'] += 1
                why[f[1] if len(f) > 1 else a] += 1
            out[(mode, i)] = a
        cov = core.run_bbm(cover_q) if cover_q else {}
        ncov = sum(1 for v in cov.values() if v == '1')
        apps_by_cls = collections.Counter()
        for i, k in enumerate(keys):
            a = out[(mode, i)].split(':', 4)
            c = a[3] if a[0] == 'cert' else 'nocert:' + (a[1] if len(a) > 1 else '?')
            apps_by_cls[c] += len(groups[k])
        print(f'--- mode {mode} (cycles<={cycles}, restarts<={restarts})')
        print('  rules by class:', dict(cls))
        print('  nocert reasons:', dict(why))
        print('  recorded applications by class of their rule:', dict(apps_by_cls))
        print(f'  applications of "above" rules: {len(cover_q)}; covered by the certificate (every intermediate tape >= req): {ncov}')
        unc = [cid for cid, v in cov.items() if v != '1']
        out[(mode, 'uncovered')] = unc
    dump = {'keys': [[k[0], k[1], groups[k][0][0], k[3], len(groups[k])] for k in keys],
            'all': [out[('all', i)] for i in range(len(keys))],
            'sig': [out[('sig', i)] for i in range(len(keys))],
            'uncovered_all': out[('all', 'uncovered')], 'uncovered_sig': out[('sig', 'uncovered')],
            'groups': {f'k{i}': groups[k] for i, k in enumerate(keys)}}
    os.makedirs(f'{HERE}/work', exist_ok=True)
    with open(f'{HERE}/work/symrule_measure_{tier}.json', 'w') as f:
        json.dump(dump, f)
    print(f'details: {HERE}/work/symrule_measure_{tier}.json')


if __name__ == '__main__':
    main()
