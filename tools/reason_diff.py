#!/usr/bin/env python3
"""Differential test of the reason.rs model (bbm) against the real code (bbh).

usage (cwd = verif root):  python3 tools/reason_diff.py [exh|rand|weird|all|stress]

 exh    exhaustive 2x2: 9^4 tables x {halt,blank,spin} x depths {0,1,2,3,5,8,13,30,300}
 rand   >= 30000 random tables (fixed seed) of sizes 3x2 2x3 4x2 2x4 3x3 5x2 6x2 2x6 4x3,
        ~10% undefined slots, random goal, random depth; named machines at depths 3,30,300
 stress (not part of 'all') 300000 random tables up to 5x3, mostly complete, depths up to 1000
 weird  last row/column undefined, only-'...' programs, single-state programs,
        never-targeted states (panic cases), exhaustive 3x2 tables with state C untargeted
Case files and both outputs are written to work/reason_<suite>.{cases,h.out,m.out}.
"""
import itertools
import os
import random
import sys
import time

ROOT = os.path.dirname(os.path.dirname(os.path.abspath(__file__)))
sys.path.insert(0, ROOT)
os.chdir(ROOT)
from lib import core, gen   # noqa: E402

GOALS = ('halt', 'blank', 'spin')
SEED = 20260930


def exh_cases():
    depths = (0, 1, 2, 3, 5, 8, 13, 30, 300)
    n = 0
    for t in gen.exhaustive_tables(2, 2, first_defined=False):
        p = gen.prog_text(t)
        for g in GOALS:
            for d in depths:
                yield f'x{n}|bw|{g}|{p}|{d}'
                n += 1


def rand_cases():
    rng = random.Random(SEED)
    sizes = [(3, 2), (2, 3), (4, 2), (2, 4), (3, 3), (5, 2), (6, 2), (2, 6), (4, 3)]
    depths = (1, 2, 3, 5, 8, 13, 30, 100, 300)
    n = 0
    for i in range(36000):
        S, C = sizes[i % len(sizes)]
        t = gen.random_table(rng, S, C, p_undef=0.10)
        g = rng.choice(GOALS)
        d = rng.choice(depths)
        yield f'r{n}|bw|{g}|{gen.prog_text(t)}|{d}'
        n += 1
    for p in gen.named_machines():
        for g in GOALS:
            for d in (3, 30, 300):
                yield f'n{n}|bw|{g}|{p}|{d}'
                n += 1


def weird_cases():
    rng = random.Random(SEED + 1)
    depths = (0, 1, 2, 3, 8, 30, 300)
    progs = []
    # only-'...' programs of several shapes
    for S, C in [(1, 1), (1, 2), (2, 2), (3, 2), (2, 3), (1, 4), (4, 1)]:
        progs.append(gen.prog_text([[None] * C for _ in range(S)]))
    # all single-state programs with 1, 2 colours; random ones with 3, 4 colours
    for C in (1, 2):
        opts = gen.all_instrs(1, C) + [None]
        for combo in itertools.product(opts, repeat=C):
            progs.append(gen.prog_text([list(combo)]))
    for C in (3, 4):
        opts = gen.all_instrs(1, C) + [None]
        for _ in range(300):
            progs.append(gen.prog_text([[rng.choice(opts) for _ in range(C)]]))
    # one-colour programs (single column)
    for S in (2, 3):
        opts = gen.all_instrs(S, 1) + [None]
        for combo in itertools.product(opts, repeat=S):
            progs.append(gen.prog_text([[c] for c in combo]))
    # last row entirely undefined / last column entirely undefined / both
    for S, C in [(2, 2), (3, 2), (2, 3), (3, 3), (4, 2)]:
        for _ in range(400):
            t = gen.random_table(rng, S, C, p_undef=0.1)
            kind = rng.randrange(3)
            if kind in (0, 2):
                t[-1] = [None] * C
            if kind in (1, 2):
                for row in t:
                    row[-1] = None
            progs.append(gen.prog_text(t))
    # instructions mentioning states/colours beyond the table (params() from keys only)
    for S, C in [(2, 2), (3, 2), (2, 3)]:
        opts = gen.all_instrs(S + 1, C + 1)
        for _ in range(400):
            t = [[rng.choice(opts) if rng.random() > 0.1 else None for _ in range(C)]
                 for _ in range(S)]
            progs.append(gen.prog_text(t))
    # never-targeted states: exhaustive 3x2 over instructions that never go to C
    # (sampled), and random bigger tables avoiding one or two target states
    for S, C in [(3, 2), (4, 2), (3, 3), (2, 2)]:
        for _ in range(1500):
            avoid = set(rng.sample(range(S), rng.choice([1, 1, 2])))
            opts = [i for i in gen.all_instrs(S, C) if i[2] not in avoid]
            if not opts:
                continue
            t = [[rng.choice(opts) if rng.random() > 0.1 else None for _ in range(C)]
                 for _ in range(S)]
            progs.append(gen.prog_text(t))
    progs.append('0LB ...  1RA ...  ... 0LA')
    n = 0
    seen = set()
    for p in progs:
        if p in seen:
            continue
        seen.add(p)
        for g in GOALS:
            for d in depths:
                yield f'w{n}|bw|{g}|{p}|{d}'
                n += 1


def stress_cases():
    """extra: 300000 random tables, few/no undefined slots (deep searches), big depths"""
    rng = random.Random(SEED + 2)
    sizes = [(2, 2), (3, 2), (2, 3), (4, 2), (2, 4), (3, 3), (5, 2), (6, 2), (2, 6), (4, 3),
             (3, 4), (7, 2), (2, 5), (5, 3)]
    n = 0
    for i in range(300000):
        S, C = sizes[i % len(sizes)]
        t = gen.random_table(rng, S, C, p_undef=rng.choice([0.0, 0.0, 0.03, 0.06, 0.2]))
        g = rng.choice(GOALS)
        d = rng.choice((13, 30, 60, 100, 300, 300, 1000))
        yield f's{n}|bw|{g}|{gen.prog_text(t)}|{d}'
        n += 1


SUITES = {'exh': exh_cases, 'rand': rand_cases, 'weird': weird_cases, 'stress': stress_cases}


def run_suite(name):
    os.makedirs(core.WORK, exist_ok=True)
    lines = list(SUITES[name]())
    base = f'{core.WORK}/reason_{name}'
    open(base + '.cases', 'w').write('\n'.join(lines) + '\n')
    t0 = time.time()
    h = core.run_bbh(lines)
    t1 = time.time()
    m = core.run_bbm(lines)
    t2 = time.time()
    ids = [l.split('|', 1)[0] for l in lines]
    open(base + '.h.out', 'w').write(''.join(f'{i}|{h.get(i)}\n' for i in ids))
    open(base + '.m.out', 'w').write(''.join(f'{i}|{m.get(i)}\n' for i in ids))
    bad = [l for l, i in zip(lines, ids) if h.get(i) != m.get(i)]
    hist = {}
    for i in ids:
        k = (h.get(i) or 'MISSING').split(':')[0]
        hist[k] = hist.get(k, 0) + 1
    print(f'[{name}] cases={len(lines)} divergences={len(bad)} '
          f'bbh={t1 - t0:.1f}s bbm={t2 - t1:.1f}s')
    print(f'[{name}] answers: ' + ' '.join(f'{k}={v}' for k, v in sorted(hist.items())))
    for l in bad[:20]:
        i = l.split('|', 1)[0]
        print(f'   DIFF {l}   bbh={h.get(i)}   bbm={m.get(i)}')
    return len(bad)


def main():
    which = [a for a in sys.argv[1:] if not a.startswith('-')] or ['all']
    names = ['exh', 'rand', 'weird'] if 'all' in which else which
    total = sum(run_suite(n) for n in names)
    print('TOTAL divergences =', total)
    sys.exit(1 if total else 0)


if __name__ == '__main__':
    main()
