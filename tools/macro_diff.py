#!/usr/bin/env python3
"""Differential test of coq/Model/MacrosModel.v (ocaml/bbm) against the real
src/macros.rs (harness/target/release/bbh).

usage: tools/macro_diff.py [--seed N] [--exh N] [--rnd N] [--named N] [--specs K] [--cycles N]

Phase 1 (model only): `macroslots` runs give the macro slots reachable from the
blank tape.  Phase 2 (both runners): `macro`, `macro2`, `macrorun`,
`macroparams` cases; answers must be byte-identical.
"""
import argparse
import os
import sys
import time
from collections import Counter

sys.path.insert(0, os.path.dirname(os.path.dirname(os.path.abspath(__file__))))
from lib import core, gen  # noqa: E402

MAXCOL = 10 ** 5


def spec_list(C):
    """all specs in scope for a base program with C colours"""
    out = []
    for k in range(1, 7):
        if C ** k <= MAXCOL:
            out.append(f'block:{k}')
    for k in range(1, 4):
        if C ** k <= MAXCOL:
            out.append(f'back:{k}')
    for k in range(1, 5):
        for j in range(1, 3):
            if C ** k <= MAXCOL and C ** j <= MAXCOL:
                out.append(f'block:{k}+back:{j}')
    out += ['block:2+block:2', 'back:1+back:1', 'back:2+block:2', 'block:2+back:1+block:2']
    return out


def outer_params(S, C, spec):
    kind, k = spec.split('+')[-1].split(':')
    k = int(k)
    if kind == 'block':
        return 2 * S, C ** k
    return 2 * S * C ** k, C


def slots_field(sl):
    return ';'.join(f'{a},{b}' for a, b in sl)


def query_seq(rng, reach, S, C, spec, n_extra):
    """reachable slots shuffled with repetitions + random in-range slots
    (colour 0 and arbitrary colours, mostly not in the cache: panic path)"""
    ms, mc = outer_params(S, C, spec)
    qs = list(reach)
    rng.shuffle(qs)
    qs += [rng.choice(reach) for _ in range(len(reach) // 2 + 1)] if reach else []
    extra = []
    for _ in range(n_extra):
        r = rng.random()
        if r < 0.4:
            extra.append((rng.randrange(ms), 0))
        elif r < 0.8:
            extra.append((rng.randrange(ms), rng.randrange(mc)))
        elif r < 0.9:
            extra.append((rng.randrange(ms + 3), rng.randrange(mc + 3)))
        else:
            extra.append((rng.randrange(4 * ms + 7), rng.randrange(2 * mc + 50)))
    qs += extra
    rng.shuffle(qs)
    return qs


def main():
    ap = argparse.ArgumentParser()
    ap.add_argument('--seed', type=int, default=1)
    ap.add_argument('--exh', type=int, default=1500, help='sampled exhaustive 2x2 tables')
    ap.add_argument('--rnd', type=int, default=3000, help='random tables')
    ap.add_argument('--named', type=int, default=10 ** 9, help='max named machines')
    ap.add_argument('--specs', type=int, default=4, help='specs sampled per program (0 = all)')
    ap.add_argument('--cycles', type=int, default=300)
    ap.add_argument('--closure', type=int, default=150, help='max queries of the closure sequences')
    ap.add_argument('--keep', default=None, help='directory for cases/answers')
    a = ap.parse_args()
    rng = core.mkrng(a.seed, 'macro_diff')

    progs = []
    ex = [gen.prog_text(t) for t in gen.exhaustive_tables(2, 2)]
    progs += [(p, 2, 2, 'exh22') for p in rng.sample(ex, min(a.exh, len(ex)))]
    sizes = [(3, 2), (2, 3), (4, 2), (2, 4), (3, 3)]
    for i in range(a.rnd):
        S, C = sizes[i % len(sizes)]
        t = gen.random_table(rng, S, C, p_undef=rng.choice([0.0, 0.05, 0.1, 0.2]))
        progs.append((gen.prog_text(t), S, C, f'rnd{S}{C}'))
    named = gen.named_machines()
    rng.shuffle(named)
    for p in named[:a.named]:
        S, C = gen.dims(p)
        progs.append((p, S, C, 'named'))

    # (prog, S, C, spec) combos
    combos = []
    for p, S, C, cls in progs:
        sp = spec_list(C)
        if a.specs and len(sp) > a.specs:
            sp = rng.sample(sp, a.specs)
        for s in sp:
            combos.append((p, S, C, s, cls))
    print(f'programs={len(progs)} combos={len(combos)}')

    t0 = time.time()
    # phase 1: reachable slots from the model
    p1 = [f's{i}|macroslots|{p}|{S},{C}|{s}|{a.cycles}' for i, (p, S, C, s, _) in enumerate(combos)]
    p1 += [f'c{i}|macroclosure|{p}|{S},{C}|{s}|{a.closure}' for i, (p, S, C, s, _) in enumerate(combos)]
    r1 = core.run_bbm(p1)
    t1 = time.time()
    print(f'phase1 (model macroslots/macroclosure): {len(p1)} cases {t1 - t0:.1f}s')

    def parse_slots(ans):
        if ans in ('', 'PANIC') or ans.startswith('MODEL'):
            return []
        return [tuple(int(x) for x in q.split(',')) for q in ans.split(';')]

    cases = []
    for i, (p, S, C, s, cls) in enumerate(combos):
        reach = parse_slots(r1[f's{i}'])
        clo = parse_slots(r1[f'c{i}'])
        head = f'{p}|{S},{C}|{s}'
        # the closure in discovery order (few panics), then a perturbed copy:
        # a prefix in order, the rest shuffled, some repeated
        if clo:
            cases.append((f'k{i}', f'k{i}|macro|{head}|{slots_field(clo)}'))
            cut = rng.randrange(len(clo) + 1)
            tail = clo[cut:] + [rng.choice(clo) for _ in range(len(clo) // 3)]
            rng.shuffle(tail)
            cases.append((f'l{i}', f'l{i}|macro|{head}|{slots_field(clo[:cut] + tail)}'))
            reach = reach + rng.sample(clo, min(len(clo), 10))
        qa = query_seq(rng, reach, S, C, s, rng.choice([0, 3, 8]))
        cases.append((f'q{i}', f'q{i}|macro|{head}|{slots_field(qa)}'))
        if i % 3 == 0:
            qb = query_seq(rng, reach, S, C, s, rng.choice([0, 3, 8]))
            cases.append((f'd{i}', f'd{i}|macro2|{head}|{slots_field(qa)}|{slots_field(qb)}'))
        n = rng.choice([a.cycles, a.cycles, 10 * a.cycles, rng.randrange(0, 40)])
        cases.append((f'r{i}', f'r{i}|macrorun|{head}|{n}'))
        if i % 10 == 0:
            cases.append((f'p{i}', f'p{i}|macroparams|{S},{C}|{s}'))
    lines = [l for _, l in cases]
    t2 = time.time()
    h = core.run_bbh(lines)
    t3 = time.time()
    m = core.run_bbm(lines)
    t4 = time.time()
    bad = core.diff_answers(cases, h, m)
    if a.keep:
        os.makedirs(a.keep, exist_ok=True)
        open(f'{a.keep}/cases.txt', 'w').write('\n'.join(lines) + '\n')
        open(f'{a.keep}/h.out', 'w').write(''.join(f'{c}|{h.get(c)}\n' for c, _ in cases))
        open(f'{a.keep}/m.out', 'w').write(''.join(f'{c}|{m.get(c)}\n' for c, _ in cases))
    stats = Counter()
    for cid, line in cases:
        cmd = line.split('|')[1]
        ans = h.get(cid, '')
        stats[cmd] += 1
        if ans == 'PANIC':
            stats[cmd + ':PANIC(case)'] += 1
        elif cmd == 'macro':
            res = ans.split('|')[0].split(';')
            stats['macro:queries'] += len(res)
            stats['macro:P'] += res.count('P')
            stats['macro:none'] += res.count('-')
        elif cmd == 'macrorun':
            stats['macrorun:' + ans.split('|')[1].split(':')[0]] += 1
        if 'MODEL' in m.get(cid, '') or 'HARNESS' in ans:
            stats['runner-error'] += 1
    print(f'phase2: cases={len(cases)} bbh {t3 - t2:.1f}s bbm {t4 - t3:.1f}s')
    print('stats:', dict(sorted(stats.items())))
    print(f'DIVERGENCES: {len(bad)}')
    for cid, line, x, y in bad[:10]:
        print('  case:', line[:300])
        print('   bbh:', x[:300])
        print('   bbm:', y[:300])
    return 1 if bad or stats['runner-error'] else 0


if __name__ == '__main__':
    sys.exit(main())
