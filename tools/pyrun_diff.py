#!/usr/bin/env python3
"""pyrun_diff: ties the whole-run Python model (coq/Model/PyProverModel.v,
PyMachineModel.v, extracted: bbm `pyrunx`) to the REAL Python code
(tm/machine.py Machine.run + tm/prover.py + tm/tape.py + tm/rules.py under
CPython 3.12 with a freshly built extension: py/pyharness17x.py `pyrunx`) on
the C17 corpus (props/C17.py run_cases: named machines + leaves of the real
tree generator 2x2..4x2/2x4; every named machine at 100, 1000 and 10^4
cycles), and reports EVERY difference.

Compared per run: outcome kind, marks, rule applications, blank record
(states and step numbers), Machine.steps, Machine.cycles, number of tape
configurations, the prover's complete rule table (min-signatures, exactness
flags, rules, in list order), the susrul flag; `outside` of the model must
coincide with the harness flag nonadd/sym/limrul; an exception that run()
does not catch must be the same exception.

Third report: the guard of theorem C17_py_rs_run_agree (bbm `pyguard`, the
extracted PyRunAgree.run_inside) on every run, the reason where it fails, the
theorem's conclusion re-observed where it holds, and the two provers' rule
tables compared.

Second report (findings, not model errors): real Python vs real Rust
(bbh `rsrun`) and Python model vs Rust model (bbm `prover`) on the same runs,
classified by the reason the two implementations part.

usage: tools/pyrun_diff.py [--tier quick|thorough] [--seed N] [--pyroot DIR]
                           [--cpu SECONDS] [--out FILE]
  --pyroot DIR   use an existing scratch copy of the tree (with tm/rust_stuff.so
                 built for CPython 3.12) instead of building a fresh one
exit status 0 iff the model and the real Python code agree on every run.
"""
import argparse
import json
import os
import shutil
import sys
import time

ROOT = os.path.dirname(os.path.dirname(os.path.abspath(__file__)))
sys.path.insert(0, ROOT)

from lib import core, gen            # noqa: E402  pylint: disable = wrong-import-position

PY_SOFT = {'secdiff', 'bigdelta'}    # harness instrumentation, not state of the Machine object
PY_SYMBOLIC = {'nonadd', 'sym', 'limrul'}


def corpus(seed, tier):
    from props import C17            # pylint: disable = import-outside-toplevel
    cs, dist = C17.run_cases(seed, tier)
    have = {(p, lim) for _, p, lim in cs}
    named = gen.named_machines()
    for i, p in enumerate(named):
        for lim in (100, 1000, 10000):
            if (p, lim) not in have:
                have.add((p, lim))
                cs.append((f'N{i}_{lim}', p, lim))
    dist['named_machines_every_limit'] = [100, 1000, 10000]
    dist['whole_runs'] = len(cs)
    return cs, dist


def compare_model(py, mo):
    """real Python answer vs model answer -> (verdict, detail)
    verdict: same | same-exc | same-outside | skipped | DIFF"""
    if py.startswith('PYHARNESS') or py.startswith('budget|'):
        return 'skipped', py.split('|')[-1]
    pf, mf = py.split('|'), mo.split('|')
    pflags = set(x for x in pf[4].split(',') if x) if len(pf) > 4 else set()
    if mf[0] == 'outside':
        if pflags & PY_SYMBOLIC:
            return 'same-outside', mf[4]
        return 'DIFF', f'model says outside ({mf[4]}), Python stayed additive'
    if mf[0] == 'exc':
        if pf[0] == 'exc' and pf[4] == mf[4]:
            return 'same-exc', mf[4]
        return 'DIFF', f'model says {mf[4]}, Python {py[:80]}'
    if pf[0] == 'exc':
        return 'DIFF', f'Python raised {pf[4]}, model {mo[:80]}'
    if pflags & PY_SYMBOLIC:
        return 'DIFF', f'Python left the additive fragment ({",".join(sorted(pflags))}), model did not'
    if len(pf) != 9 or len(mf) != 9:
        return 'DIFF', f'unreadable: python {py[:80]} / model {mo[:80]}'
    names = ['kind', 'marks', 'rulapp', 'blanks', 'flags', 'steps', 'cycles', 'tpcfgs', 'rules']
    for k, (a, b) in enumerate(zip(pf, mf)):
        if k == 4:
            a = ','.join(sorted(pflags - PY_SOFT))
            b = ','.join(sorted(x for x in b.split(',') if x))
        if a != b:
            return 'DIFF', f'{names[k]}: Python {a[:200]} / model {b[:200]}'
    return 'same', 'rules' if pf[8] else ''


def run_bbm(lines):
    """core.run_bbm with a timeout that fits 10^4-cycle runs of every named machine on a loaded host"""
    return core.run_lines(core.BBM, lines, shards=min(16, max(1, len(lines) // 8)), timeout=30000)


def rust_fields(ans):
    """bbm `prover` answer -> kind|marks|rulapp|blanks (the `rsrun` format)"""
    if ans == 'PANIC':
        return 'PANIC'
    f = ans.split('|')
    # result|steps|cycles|marks|rulapp|last_slot|blanks|napps|digest
    return '|'.join([f[0], f[3], f[4], f[6]])


def main():
    ap = argparse.ArgumentParser()
    ap.add_argument('--tier', default='thorough', choices=['quick', 'thorough'])
    ap.add_argument('--seed', default=os.environ.get('VERIF_SEED', '1'))
    ap.add_argument('--pyroot')
    ap.add_argument('--cpu', type=int, default=20)
    ap.add_argument('--out', default=f'{ROOT}/work/pyrun_diff.json')
    a = ap.parse_args()
    from props import C17            # pylint: disable = import-outside-toplevel

    t0 = time.time()
    core.build_bbm()
    cs, dist = corpus(a.seed, a.tier)
    scratch = None
    if a.pyroot:
        root = os.path.abspath(a.pyroot)
    else:
        scratch, root, _ = C17.build_pyext()
    try:
        C17.PYH = f'{ROOT}/py/pyharness17x.py'
        py = C17.run_py(root, [f'{i}|pyrunx|{p}|{lim}' for i, p, lim in cs], cpu=a.cpu, timeout=30000)
    finally:
        if scratch:
            shutil.rmtree(scratch, ignore_errors=True)
    print(f'[{round(time.time() - t0)} s] real Python done ({len(cs)} runs)', flush=True)
    mo = run_bbm([f'{i}|pyrunx|{p}|{lim}' for i, p, lim in cs])
    rs = core.run_bbh([f'{i}|rsrun|{p}|{lim}' for i, p, lim in cs])
    rm = run_bbm([f'{i}|prover|{p}|{lim}' for i, p, lim in cs])
    # the guard is evaluated where the Python model finishes; the Rust model's rule
    # table is asked for where either side has one (the rest is trivially equal)
    done_py = [(i, p, lim) for i, p, lim in cs if mo.get(i, 'MISSING').split('|')[0] not in ('outside', 'exc', 'MISSING')]
    gd = run_bbm([f'{i}|pyguard|{p}|{lim}' for i, p, lim in done_py])
    with_table = [(i, p, lim) for i, p, lim in done_py
                  if mo[i].split('|')[8:9] != [''] or rm.get(i, '').split('|')[7:8] not in (['0'], [])]
    rr = run_bbm([f'{i}|rsrules|{p}|{lim}' for i, p, lim in with_table])
    print(f'[{round(time.time() - t0)} s] models done', flush=True)

    tally, diffs = {}, []
    with_rules = 0
    named_additive = set()
    for i, p, lim in cs:
        v, info = compare_model(py.get(i, 'PYHARNESS-MISSING'), mo.get(i, 'MISSING'))
        tally[v] = tally.get(v, 0) + 1
        if v == 'DIFF':
            diffs.append({'id': i, 'program': p, 'cycles': lim, 'why': info,
                          'python': py.get(i), 'model': mo.get(i)})
        if v == 'same' and info:
            with_rules += 1
        if v == 'same' and i[0] in 'nN':
            named_additive.add(p)

    # second report: where the two IMPLEMENTATIONS part (findings)
    impl, impl_list = {}, []
    model_pair, model_pair_list = {}, []
    rs_tie = 0
    for i, p, lim in cs:
        a_py, a_rs = py.get(i, 'PYHARNESS-MISSING'), rs.get(i, 'MISSING')
        if rust_fields(rm.get(i, 'PANIC')) != a_rs:
            rs_tie += 1
        v, info = C17.classify('|'.join(a_py.split('|')[:5]), a_rs)
        key = v if v != 'outside' else 'outside: ' + info
        impl[key] = impl.get(key, 0) + 1
        if v == 'diff':
            impl_list.append({'program': p, 'cycles': lim, 'why': info, 'python': a_py[:300], 'rust': a_rs})
        # model level, without the harness's outside filter: four fields of the two models
        m_py, m_rs = mo.get(i, 'MISSING'), rust_fields(rm.get(i, 'PANIC'))
        if m_py.split('|')[0] in ('outside', 'exc') or m_rs == 'PANIC':
            k2 = 'not comparable (model outside / exception / Rust panic)'
        else:
            v2, info2 = C17.classify('|'.join(m_py.split('|')[:4]) + '|', m_rs)
            k2 = v2 if v2 != 'outside' else 'outside: ' + info2
            if v2 == 'diff':
                pfl = a_py.split('|')[4] if a_py.count('|') >= 4 else ''
                model_pair_list.append({'program': p, 'cycles': lim, 'why': info2,
                                        'python_model': '|'.join(m_py.split('|')[:5]), 'rust_model': m_rs,
                                        'python_flags': pfl})
        model_pair[k2] = model_pair.get(k2, 0) + 1

    # third report: the guard of theorem C17_py_rs_run_agree on every run
    guard, guard_why = {'holds': 0, 'fails': 0}, {}
    thm_checked, thm_violations = 0, []
    tables_cmp, tables_diff = 0, []
    for i, p, lim in cs:
        m_py, m_rs = mo.get(i, 'MISSING'), rust_fields(rm.get(i, 'PANIC'))
        if i not in gd:
            continue                 # the Python model left the fragment: no PyDone, nothing to guard
        g = gd[i]
        done = m_py.split('|')[0] not in ('outside', 'exc', 'MISSING') and m_rs != 'PANIC'
        if g == '1':
            guard['holds'] += 1
            if done:
                # what the theorem states, re-observed on the extracted models
                thm_checked += 1
                v2, info2 = C17.classify('|'.join(m_py.split('|')[:4]) + '|', m_rs)
                if v2 != 'same':
                    thm_violations.append({'program': p, 'cycles': lim, 'why': info2})
        else:
            guard['fails'] += 1
            why = g.split('|')[-1]
            guard_why[why] = guard_why.get(why, 0) + 1
        # rule tables of the two provers (min-signatures: D4)
        f, rt = m_py.split('|'), rr.get(i, 'PANIC')
        if len(f) == 9 and rt != 'PANIC' and g == '1' and (f[8] or rt.split('|')[1]):
            tables_cmp += 1
            if '|'.join(f[7:9]) != rt:
                tables_diff.append({'program': p, 'cycles': lim, 'python_model': '|'.join(f[7:9])[:400],
                                    'rust_model': rt[:400]})

    rep = {
        'theorem_guard(run_inside)': guard,
        'theorem_guard_failure_reasons': guard_why,
        'theorem_instances_checked(guard holds, both runs done)': thm_checked,
        'theorem_instances_violated': thm_violations,
        'rule_tables_compared(python model vs rust model, guard holds)': tables_cmp,
        'rule_tables_different': tables_diff,
        'corpus': dist,
        'runs': len(cs),
        'python_vs_model': tally,
        'python_vs_model_same_with_proved_rules': with_rules,
        'named_machines_inside_and_equal': len(named_additive),
        'python_vs_model_differences': diffs,
        'rust_model_vs_rust_real_differences(rsrun vs bbm prover)': rs_tie,
        'python_real_vs_rust_real': impl,
        'python_real_vs_rust_real_differences': impl_list,
        'python_model_vs_rust_model(no outside filter)': model_pair,
        'python_model_vs_rust_model_differences': model_pair_list,
        'seconds': round(time.time() - t0, 1),
    }
    os.makedirs(os.path.dirname(a.out), exist_ok=True)
    json.dump(rep, open(a.out, 'w'), indent=1)
    print(f'runs {len(cs)}  ({dist.get("named_machines")} named machines x 3 limits + '
          f'{dist.get("tree_leaves_2x2_to_4x2_2x4_used")} tree leaves)')
    print('real Python vs Python model:', json.dumps(tally, sort_keys=True),
          f' [same with a non-empty rule table: {with_rules}]')
    for d in diffs[:40]:
        print('  DIFF', d['id'], d['program'], d['cycles'], '--', d['why'])
    print('real Python vs real Rust   :', json.dumps(impl, sort_keys=True))
    for d in impl_list[:20]:
        print('  PY!=RS', d['program'], d['cycles'], '--', d['why'])
    print('Python model vs Rust model  :', json.dumps(model_pair, sort_keys=True))
    for d in model_pair_list[:40]:
        print('  MODEL PY!=RS', d['program'], d['cycles'], '--', d['why'], '| python flags:', d['python_flags'])
    print(f'Rust model vs real Rust differences: {rs_tie}')
    print('guard of C17_py_rs_run_agree    :', json.dumps(guard), json.dumps(guard_why, sort_keys=True))
    print(f'  theorem instances re-observed: {thm_checked}, violated: {len(thm_violations)};'
          f' rule tables compared: {tables_cmp}, different: {len(tables_diff)}')
    for d in thm_violations[:10]:
        print('  THEOREM-INSTANCE-VIOLATED', d)
    for d in tables_diff[:10]:
        print('  RULE-TABLES-DIFFER', d['program'], d['cycles'])
    print(f'report: {a.out}   ({rep["seconds"]} s)')
    return 1 if (diffs or thm_violations) else 0


if __name__ == '__main__':
    sys.exit(main())
