#!/usr/bin/env python3
"""pycomp_diff: COMPONENT-level tie of the Python-side Gallina models to the
REAL Python objects, for the pieces whole runs rarely exercise.

  pysigc     Tape.sig_compatible(other.signature)       vs PyTapeModel.py_sig_compatible
  pyenum     tm.tape.EnumTape driven through a stream of steps, apply_rule calls
             (get_count / set_count) and get_count calls: offsets, edges and the
             underlying tape after every op                vs PyProverModel.py_et_*
  pygetrule  Prover.get_rule on a prepared rule table     vs PyProverModel.py_get_rule
  pyminsig   Prover.get_min_sig on a prepared prover      vs PyProverModel.py_get_min_sig

Real side: py/pyharness17.py (CPython 3.12, tree given by BB_PYROOT / --pyroot);
model side: ocaml/bbm (cmd_pyrun.ml).  Any difference is a correspondence failure.

From props/C17.py:   from tools import pycomp_diff
                     n, diffs, dist = pycomp_diff.check(root, seed, tier)
                     # diffs: list of (id, case line, real answer, model answer, relation)

stand-alone: tools/pycomp_diff.py [--tier quick|thorough] [--seed N] [--pyroot DIR]
exit status 0 iff no difference.
"""
import argparse
import os
import shutil
import sys

ROOT = os.path.dirname(os.path.dirname(os.path.abspath(__file__)))
sys.path.insert(0, ROOT)

from lib import core, gen            # noqa: E402  pylint: disable = wrong-import-position

COUNTS = [1, 1, 1, 2, 2, 3, 5, 7, 12]


def rnd_span(rng, colours, maxblocks):
    s, prev = [], None
    for _ in range(rng.randint(0, maxblocks)):
        c = rng.randrange(colours)
        if c == prev:
            c = (c + 1) % colours
        prev = c
        s.append((c, rng.choice(COUNTS)))
    while s and s[-1][0] == 0:       # canonical: the far block is not blank
        s.pop()
    return s


def tf(scan, l, r):
    return f'{scan}/' + ','.join(f'{c}:{n}' for c, n in l) + '/' + ','.join(f'{c}:{n}' for c, n in r)


def rnd_tape(rng, colours=4, maxblocks=4):
    return rng.randrange(colours), rnd_span(rng, colours, maxblocks), rnd_span(rng, colours, maxblocks)


# ------------------------------------------------------------ sig_compatible

def sigc_cases(rng, n):
    out, kinds = [], {}
    for i in range(n):
        sc, l, r = rnd_tape(rng)
        k = rng.randrange(9)
        sc2, l2, r2 = sc, list(l), list(r)
        if k == 0:                                   # same shape, other counts (Just <-> Mult)
            l2 = [(c, rng.choice(COUNTS)) for c, _ in l]
            r2 = [(c, rng.choice(COUNTS)) for c, _ in r]
            kind = 'same_colours_other_counts'
        elif k == 1:                                 # one colour changed
            side = l2 if (rng.random() < 0.5 and l2) or not r2 else r2
            if side:
                j = rng.randrange(len(side))
                side[j] = ((side[j][0] + 1 + rng.randrange(3)) % 4, side[j][1])
            kind = 'one_colour_changed'
        elif k == 2:                                 # signature longer than the tape
            (l2 if rng.random() < 0.5 else r2).append((1 + rng.randrange(3), rng.choice(COUNTS)))
            kind = 'signature_longer'
        elif k == 3:                                 # signature shorter than the tape
            side = l2 if (rng.random() < 0.5 and l2) or not r2 else r2
            if side:
                side.pop(rng.randrange(len(side)) if rng.random() < 0.3 else -1)
            kind = 'signature_shorter'
        elif k == 4:
            sc2 = (sc + 1 + rng.randrange(3)) % 4
            kind = 'other_scan'
        elif k == 5:                                 # the two spans exchanged
            l2, r2 = list(r), list(l)
            kind = 'spans_exchanged'
        elif k == 6:                                 # left from A, right random / vice versa
            if rng.random() < 0.5:
                r2 = rnd_span(rng, 4, 4)
            else:
                l2 = rnd_span(rng, 4, 4)
            kind = 'one_span_random'
        elif k == 7:
            kind = 'identical'
        else:
            sc2, l2, r2 = rnd_tape(rng)
            kind = 'random_pair'
        kinds[kind] = kinds.get(kind, 0) + 1
        out.append((f'sc{i}', f'pysigc|{tf(sc, l, r)}|{tf(sc2, l2, r2)}'))
    return out, kinds


# ------------------------------------------------------------ EnumTape streams

def rnd_rule(rng, nl, nr):
    """small additive rule with distinct indices, mostly near the head (the
    spans shrink and grow under the steps, so an index can be out of range:
    IndexError on both sides, which ends the stream)"""
    cand = [f'L{k}' for k in range(min(nl, 3))] + [f'R{k}' for k in range(min(nr, 3))]
    if rng.random() < 0.1 or not cand:
        cand += [f'L{nl}', f'R{nr}']
    rng.shuffle(cand)
    ents = sorted(cand[:rng.randint(1, min(3, len(cand)))], key=lambda x: (x[0] == 'R', int(x[1:])))
    out = []
    neg = rng.randrange(len(ents))
    for k, e in enumerate(ents):
        d = rng.choice([-1, -1, -2, -3]) if k == neg and rng.random() < 0.8 else rng.choice([-1, 1, 1, 2, 0])
        out.append(f'{e}:{d if d < 0 else "+" + str(d)}')
    return ','.join(out)


def enum_span(rng):
    s, prev = [], None
    for _ in range(rng.randint(1, 4)):
        c = rng.randrange(4)
        if c == prev:
            c = (c + 1) % 4
        prev = c
        s.append((c, rng.choice([1, 2, 3, 4, 6, 9])))
    if s[-1][0] == 0:
        s[-1] = (1 + rng.randrange(3), s[-1][1])
        if len(s) > 1 and s[-2][0] == s[-1][0]:
            s[-1] = ((s[-1][0] % 3) + 1, s[-1][1])
    return s


def enum_cases(rng, n):
    out = []
    nops = {'S': 0, 'A': 0, 'G': 0}
    for i in range(n):
        sc, l, r = rng.randrange(4), enum_span(rng), enum_span(rng)
        ops = []
        for _ in range(rng.randint(6, 20)):
            nl, nr = len(l), len(r)
            x = rng.random()
            if x < 0.68:
                ops.append(f'S{rng.randrange(2)},{rng.randrange(4)},{rng.randrange(2)}')
                nops['S'] += 1
            elif x < 0.9:
                ops.append('A' + rnd_rule(rng, nl, nr))
                nops['A'] += 1
            else:
                ops.append(f'G{"LR"[rng.randrange(2)]}{rng.choice([0, 0, 1, 1, 2, 3])}')
                nops['G'] += 1
        out.append((f'en{i}', f'pyenum|{tf(sc, l, r)}|{";".join(ops)}'))
    return out, nops


# ------------------------------------------------------------ prover level

def parse_rules(field):
    """rule table field -> list of (state, colour, sig field, flags, rule field)"""
    out = []
    for slot_f in (field.split(' ') if field else []):
        key, ents = slot_f.split('=')
        st, co = key.split(',')
        for e in ents.split(';'):
            g, fl, r = e.split('~')
            out.append((int(st), int(co), g, fl, r))
    return out


def tape_of_sig(rng, g, fl, perturb):
    """a tape whose signature has the min-signature [g] as prefix (exact where flagged)"""
    sc, l, r = g.split('/')

    def inst(s, exact):
        blocks = []
        for x in (s.split(',') if s else []):
            c = int(x[1:])
            blocks.append((c, 1 if x[0] == 'J' else rng.choice([2, 3, 4, 6, 9])))
        if not exact and rng.random() < 0.6:
            prev = blocks[-1][0] if blocks else None
            for _ in range(rng.randint(1, 2)):
                c = rng.randrange(1, 4)
                if c == prev:
                    c = c % 3 + 1
                prev = c
                blocks.append((c, rng.choice(COUNTS)))
        return blocks
    lb, rb = inst(l, fl[0] == '1'), inst(r, fl[1] == '1')
    sc = int(sc)
    if perturb and rng.random() < 0.5:
        k = rng.randrange(4)
        side = lb if (rng.random() < 0.5 and lb) or not rb else rb
        if k == 0 and side:
            j = rng.randrange(len(side))
            side[j] = (side[j][0], 1 if side[j][1] != 1 else 3)       # Just <-> Mult
        elif k == 1 and side:
            j = rng.randrange(len(side))
            side[j] = ((side[j][0] + 1) % 4, side[j][1])
        elif k == 2 and side:
            side.pop()
        else:
            sc = (sc + 1) % 4
    return tf(sc, lb, rb)


def prover_cases(rng, nprog, per_prog):
    """rule tables of REAL runs (of the model, which pyrun_diff ties to the real
    runner) + tapes instantiated from their min-signatures"""
    named = [p for p in gen.named_machines() if gen.dims(p)[0] * gen.dims(p)[1] <= 10]
    rng.shuffle(named)
    named = named[:nprog * 6]
    mo = core.run_bbm([f'p{i}|pyrunx|{p}|400' for i, p in enumerate(named)])
    tables = []
    for i, p in enumerate(named):
        f = mo.get(f'p{i}', '').split('|')
        if len(f) == 9 and f[8]:
            tables.append((p, f[8]))
        if len(tables) >= nprog:
            break
    gr, ms = [], []
    for k, (p, table) in enumerate(tables):
        ents = parse_rules(table)
        for j in range(per_prog):
            st, _co, g, fl, _r = rng.choice(ents)
            tape = tape_of_sig(rng, g, fl, perturb=True)
            st_q = st if rng.random() < 0.85 else rng.randrange(4)
            gr.append((f'gr{k}_{j}', f'pygetrule|{table}|{st_q}|{tape}'))
            tape2 = tape_of_sig(rng, g, fl, perturb=(rng.random() < 0.3))
            ms.append((f'ms{k}_{j}', f'pyminsig|{p}|{table}|{st_q}|{tape2}|{rng.choice([1, 2, 3, 5, 8, 13, 21, 40])}'))
        # empty table / random tapes as well
        sc, l, r = rnd_tape(rng)
        ms.append((f'ms{k}_r', f'pyminsig|{p}||{rng.randrange(3)}|{tf(sc, l, r)}|{rng.randint(1, 30)}'))
    return gr, ms, len(tables)


# ------------------------------------------------------------ driver

def cases(seed, tier):
    rng = core.mkrng(seed, 'C17comp')
    scale = 1 if tier == 'quick' else 4
    sc, sc_kinds = sigc_cases(rng, 3000 * scale)
    en, en_ops = enum_cases(rng, 2500 * scale)
    gr, ms, ntab = prover_cases(rng, 60 * scale, 12)
    dist = {'sig_compatible_pairs': len(sc), 'sig_compatible_pair_kinds': sc_kinds,
            'enum_tape_streams': len(en), 'enum_tape_ops': en_ops,
            'rule_tables_from_runs': ntab, 'get_rule_queries': len(gr), 'get_min_sig_calls': len(ms)}
    return sc + en + gr + ms, dist


RELATION = {
    'pysigc': 'tm.tape.Tape.sig_compatible (real) = PyTapeModel.py_sig_compatible',
    'pyenum': 'tm.tape.EnumTape step/get_count/set_count + tm.rules.apply_rule (real) = PyProverModel.py_et_*',
    'pygetrule': 'tm.prover.Prover.get_rule (real) = PyProverModel.py_get_rule',
    'pyminsig': 'tm.prover.Prover.get_min_sig (real) = PyProverModel.py_get_min_sig',
}


def check(root, seed, tier):
    """-> (number of cases, differences, input distribution)"""
    from props import C17            # pylint: disable = import-outside-toplevel
    cs, dist = cases(seed, tier)
    lines = [f'{i}|{l}' for i, l in cs]
    py = C17.run_py(root, lines)
    mo = core.run_bbm(lines)
    diffs = []
    answers = {}
    for i, l in cs:
        a, b = py.get(i, 'MISSING-PY'), mo.get(i, 'MISSING-M')
        cmd = l.split('|', 1)[0]
        last = a.rsplit(';', 1)[-1].split(' ')
        answers.setdefault(cmd, set()).add(a if cmd != 'pyenum' else ' '.join(last[:3]))
        if a != b:
            diffs.append((i, l, a, b, RELATION[cmd]))
    dist['distinct_answers'] = {k: len(v) for k, v in answers.items()}
    return len(cs), diffs, dist


def main():
    ap = argparse.ArgumentParser()
    ap.add_argument('--tier', default='quick', choices=['quick', 'thorough'])
    ap.add_argument('--seed', default=os.environ.get('VERIF_SEED', '1'))
    ap.add_argument('--pyroot')
    a = ap.parse_args()
    from props import C17            # pylint: disable = import-outside-toplevel
    core.build_bbm()
    scratch = None
    if a.pyroot:
        root = os.path.abspath(a.pyroot)
    else:
        scratch, root, _ = C17.build_pyext()
    try:
        n, diffs, dist = check(root, a.seed, a.tier)
    finally:
        if scratch:
            shutil.rmtree(scratch, ignore_errors=True)
    print('component cases', n, dist)
    per = {}
    for i, l, x, y, rel in diffs:
        per[rel] = per.get(rel, 0) + 1
    for i, l, x, y, rel in diffs[:12]:
        print('DIFF', i, l[:300], '\n   real :', x[:300], '\n   model:', y[:300])
    print('differences', len(diffs), per)
    return 1 if diffs else 0


if __name__ == '__main__':
    sys.exit(main())
