#!/usr/bin/env python3
"""Differential test of the segment model (coq/Model/SegmentModel.v, runner
ocaml/bbm) against the real code (/repo/src/segment.rs, runner bbh).

usage: tools/seg_diff.py [small] [exh] [rnd] [nf] [depth] [named] [weird]     (default: all)
       options: --seed N   --nrand N   --shards N
Writes work/seg_<suite>.cases / .h.out / .m.out and prints a summary.
"""
import itertools
import os
import random
import subprocess
import sys
import threading
import time
from collections import Counter

HERE = os.path.dirname(os.path.abspath(__file__))
V = os.path.dirname(HERE)
sys.path.insert(0, V)
os.chdir(V)
from lib import gen  # noqa: E402

BBH = f'{V}/harness/target/release/bbh'
BBM = f'{V}/ocaml/bbm'
WORK = f'{V}/work'
GOALS = ('halt', 'blank', 'spin')


def run_sharded(binary, lines, shards, env=None):
    """stdin -> stdout, sharded over processes; returns answers in input order."""
    shards = max(1, min(shards, len(lines) // 8 or 1))
    parts = [lines[i::shards] for i in range(shards)]
    outs = [None] * shards

    def work(i):
        p = subprocess.run([binary], input='\n'.join(parts[i]) + '\n', capture_output=True,
                           text=True, env=env)
        if p.returncode != 0:
            raise SystemExit(f'{binary} exited {p.returncode}: {p.stderr[-2000:]}')
        outs[i] = p.stdout.splitlines()
    ths = [threading.Thread(target=work, args=(i,)) for i in range(shards)]
    for t in ths:
        t.start()
    for t in ths:
        t.join()
    ans = {}
    for o in outs:
        for l in o:
            i = l.find('|')
            ans[l[:i]] = l[i + 1:]
    return [f"{l.split('|', 1)[0]}|{ans.get(l.split('|', 1)[0], 'MISSING')}" for l in lines]


def suite_exh():
    """all 9^4 2x2 tables x goals x segs 2..8, seg (params 2,2) and segpy"""
    opts = gen.all_instrs(2, 2) + [None]
    cases = []
    n = 0
    for combo in itertools.product(opts, repeat=4):
        prog = gen.prog_text([list(combo[0:2]), list(combo[2:4])])
        for goal in GOALS:
            for segs in range(2, 9):
                cases.append(f'e{n}|seg|{goal}|{prog}|2,2|{segs}')
                n += 1
                cases.append(f'e{n}|segpy|{goal}|{prog}|{segs}')
                n += 1
    return cases


def suite_small():
    """segs 0 and 1 (assert!(segs >= 2)) on a sample of 2x2 tables"""
    opts = gen.all_instrs(2, 2) + [None]
    rng = random.Random(7)
    cases = []
    n = 0
    for combo in itertools.product(opts, repeat=4):
        if rng.random() > 0.05:
            continue
        prog = gen.prog_text([list(combo[0:2]), list(combo[2:4])])
        for goal in GOALS:
            for segs in (0, 1):
                cases.append(f's{n}|seg|{goal}|{prog}|2,2|{segs}')
                n += 1
                cases.append(f's{n}|segpy|{goal}|{prog}|{segs}')
                n += 1
    return cases


SIZES = [(3, 2), (2, 3), (4, 2), (2, 4), (3, 3), (5, 2), (6, 2), (2, 6), (4, 3)]


def suite_rnd(seed, nrand):
    rng = random.Random(seed)
    cases = []
    for n in range(nrand):
        S, C = SIZES[n % len(SIZES)]
        t = gen.random_table(rng, S, C, p_undef=0.10)
        prog = gen.prog_text(t)
        goal = rng.choice(GOALS)
        segs = rng.randint(2, 8)
        cases.append(f'r{n}|seg|{goal}|{prog}|{S},{C}|{segs}')
    return cases


def suite_nf(seed, nrand):
    """normal-form first instruction (1RB), few undefined slots, larger segs:
    long searches (depth_limit, deep todo stacks)"""
    rng = random.Random(seed + 2)
    cases = []
    for n in range(nrand):
        S, C = SIZES[n % len(SIZES)]
        t = gen.random_nf_table(rng, S, C, p_undef=0.04)
        prog = gen.prog_text(t)
        goal = rng.choice(GOALS)
        segs = rng.randint(5, 8)
        cases.append(f'f{n}|seg|{goal}|{prog}|{S},{C}|{segs}')
        cases.append(f'g{n}|segpy|{goal}|{prog}|{segs}')
    return cases


# Programs whose largest `seen` set peaks at exactly MAX_DEPTH (3000: the real
# code carries on) or MAX_DEPTH + 1 (3001: the real code answers depth_limit)
# at segs = 8.  Found by comparing the real code with scratch copies of
# segment.rs compiled with MAX_DEPTH = 2999 / 3001 on 6M random tables.
DEPTH_WITNESSES = [
    ('spin', '1RB 2LA 1LA 0RA 3LB  4LB 4LA 4LA 0RB 3RA', (2, 5)),
    ('spin', '1RB 2RA 0LA  2LB 1RC 1LB  1RA 2LA 0RB', (3, 3)),
    ('spin', '1RB 1LB 5RB 3LB 1LB 0RA  5LB 2RB 5LA 4RA 3RA 2RA', (2, 6)),
    ('spin', '1RB 0RA 4RB ... 3RA 2LA  0LB 5RA ... 5LA 5LB 1LB', (2, 6)),
    ('spin', '1RB 4LB 0RA 2LA 5LB 2LB  0LB 4LA 3LB 5LA 0RA 4RB', (2, 6)),
    ('spin', '1RB 1RB 3RA 0RA 1LA  2LB 2LA 3RC 1LB 3LC  0LC 1RA 3LC 1RA 1LB', (3, 5)),
    ('halt', '1RB 2LA 0RC 2RC  2LB 2LA 1LA 3LA  2RA ... 3RA 0LC', (3, 4)),
    ('halt', '1RB 4RA 2LA 1LA 5RA 2LB  4LA 2LA 3RA ... 2LB 0LA', (2, 6)),
    ('spin', '1RB 2LC 1RA  2LD 1LD 2RB  2LC 2LA 0RC  1RA 2LA 2RC', (4, 3)),
]


def suite_depth():
    cases = []
    n = 0
    for goal, prog, (S, C) in DEPTH_WITNESSES:
        for g in GOALS:
            for segs in range(2, 11):
                cases.append(f'd{n}|seg|{g}|{prog}|{S},{C}|{segs}')
                n += 1
                cases.append(f'd{n}|segpy|{g}|{prog}|{segs}')
                n += 1
    return cases


def suite_named():
    cases = []
    n = 0
    for prog in gen.named_machines():
        S, C = gen.dims(prog)
        for goal in GOALS:
            for segs in (2, 4, 6):
                cases.append(f'n{n}|seg|{goal}|{prog}|{S},{C}|{segs}')
                n += 1
                cases.append(f'n{n}|segpy|{goal}|{prog}|{segs}')
                n += 1
    return cases


def suite_weird(seed):
    rng = random.Random(seed + 1)
    cases = []
    n = 0

    def add(prog, params_list, segs_list=(2, 3, 5, 8)):
        nonlocal n
        for goal in GOALS:
            for segs in segs_list:
                for (S, C) in params_list:
                    cases.append(f'w{n}|seg|{goal}|{prog}|{S},{C}|{segs}')
                    n += 1
                cases.append(f'w{n}|segpy|{goal}|{prog}|{segs}')
                n += 1

    # (a) last row and/or last column entirely undefined: text params vs inferred
    for k in range(1500):
        S, C = rng.choice([(2, 2), (3, 2), (2, 3), (3, 3), (4, 2), (2, 4)])
        t = gen.random_table(rng, S, C, p_undef=0.10)
        mode = k % 3
        if mode in (0, 2):
            t[S - 1] = [None] * C
        if mode in (1, 2):
            for r in range(S):
                t[r][C - 1] = None
        if t[0][0] is None:
            t[0][0] = (1, True, min(1, S - 1))
        add(gen.prog_text(t), [(S, C)])
    # (b) instructions mention a state / colour >= params: params smaller than
    #     the text, and text instructions pointing outside the text
    for k in range(1500):
        S, C = rng.choice([(2, 2), (3, 2), (2, 3), (3, 3), (4, 2)])
        t = gen.random_table(rng, S, C, p_undef=0.10)
        ps = [(S, C), (max(1, S - 1), C), (S, max(1, C - 1)), (max(1, S - 1), max(1, C - 1)),
              (S + 1, C), (S, C + 1), (S + 2, C + 2)]
        add(gen.prog_text(t), ps, segs_list=(2, 4, 6))
    for k in range(1500):
        S, C = rng.choice([(2, 2), (3, 2), (2, 3), (3, 3)])
        # table built over a bigger alphabet, then cut down to S x C text
        big = gen.random_table(rng, S + 1, C + 1, p_undef=0.10)
        t = [row[:C] for row in big[:S]]
        if t[0][0] is None:
            t[0][0] = (1, True, 1)
        add(gen.prog_text(t), [(S, C), (S + 1, C + 1)], segs_list=(2, 4, 6))
    # (c) single-state programs
    for C in (1, 2, 3, 4):
        opts = gen.all_instrs(1, C) + [None]
        combos = list(itertools.product(opts, repeat=C))
        if len(combos) > 400:
            combos = rng.sample(combos, 400)
        for combo in combos:
            add(gen.prog_text([list(combo)]), [(1, C)], segs_list=(2, 3, 4, 6, 8))
    # single-state text whose instructions point at other states
    for k in range(300):
        C = rng.choice([1, 2, 3])
        big = gen.random_table(rng, 3, C, p_undef=0.10)
        add(gen.prog_text([big[0]]), [(1, C), (3, C)], segs_list=(2, 4))
    # (d) zero params, entirely undefined tables
    add('... ...  ... ...', [(2, 2), (0, 0), (0, 2), (2, 0), (1, 1)])
    add('...', [(1, 1), (0, 0)])
    add('1RB 1LB  1LA 1RA', [(0, 0), (0, 2), (2, 0), (1, 2), (2, 1)])
    return cases


def run_suite(name, cases, shards):
    os.makedirs(WORK, exist_ok=True)
    base = f'{WORK}/seg_{name}'
    open(base + '.cases', 'w').write('\n'.join(cases) + '\n')
    t0 = time.time()
    h = run_sharded(BBH, cases, 1, env=dict(os.environ, BBH_THREADS='16'))
    t1 = time.time()
    m = run_sharded(BBM, cases, shards)
    t2 = time.time()
    open(base + '.h.out', 'w').write('\n'.join(h) + '\n')
    open(base + '.m.out', 'w').write('\n'.join(m) + '\n')
    diffs = [(c, a, b) for c, a, b in zip(cases, h, m) if a != b]
    hist = Counter(a.split('|', 1)[1].split(':')[0] for a in h)
    print(f'[{name}] cases={len(cases)} divergences={len(diffs)} '
          f'bbh={t1 - t0:.1f}s bbm={t2 - t1:.1f}s answers={dict(hist)}', flush=True)
    for c, a, b in diffs[:20]:
        print('   CASE', c)
        print('     bbh', a)
        print('     bbm', b)
    return len(diffs)


def main():
    args = sys.argv[1:]
    seed, nrand, shards = 20260930, 21000, 16
    names = []
    i = 0
    while i < len(args):
        if args[i] == '--seed':
            seed = int(args[i + 1]); i += 2
        elif args[i] == '--nrand':
            nrand = int(args[i + 1]); i += 2
        elif args[i] == '--shards':
            shards = int(args[i + 1]); i += 2
        else:
            names.append(args[i]); i += 1
    if not names:
        names = ['small', 'exh', 'rnd', 'nf', 'depth', 'named', 'weird']
    total = 0
    for nm in names:
        if nm == 'exh':
            total += run_suite('exh', suite_exh(), shards)
        elif nm == 'small':
            total += run_suite('small', suite_small(), shards)
        elif nm == 'rnd':
            total += run_suite('rnd', suite_rnd(seed, nrand), shards)
        elif nm == 'nf':
            total += run_suite('nf', suite_nf(seed, nrand), shards)
        elif nm == 'depth':
            total += run_suite('depth', suite_depth(), shards)
        elif nm == 'named':
            total += run_suite('named', suite_named(), shards)
        elif nm == 'weird':
            total += run_suite('weird', suite_weird(seed), shards)
        else:
            raise SystemExit(f'unknown suite {nm}')
    print(f'TOTAL divergences={total}')
    sys.exit(1 if total else 0)


if __name__ == '__main__':
    main()
