#!/bin/sh
# tools/confirm_pymutant.sh <worktree> <mutdir> <seeded-dir> [rebuild-ext]
# Python-side mutants: demo.py must fail with the patch and pass without; the Rust suite is run once with the patch.
WT=$1; M=$2; OUT=$3; REBUILD=$4
PY=/root/.pyenv/versions/3.12.1/bin/python
export CARGO_TARGET_DIR=$WT/target CARGO_NET_OFFLINE=true
cd $WT && git checkout -q -- .
mkdir -p $OUT
build_ext() {
  if [ -n "$REBUILD" ]; then
    PYO3_PYTHON=$PY PYO3_USE_ABI3_FORWARD_COMPATIBILITY=1 CARGO_TARGET_DIR=$WT/target_py cargo build --release --offline >/dev/null 2>&1 && cp $WT/target_py/release/librust_stuff.so $WT/tm/rust_stuff.so
  fi
}
{
echo "== suite with patch"
git apply $M/patch.diff && timeout 1500 cargo test --offline 2>&1 | grep -E "^test result|FAILED" | head -3
build_ext
echo "== demo with patch (expected: FAIL)"
PYTHONPATH=$WT timeout 900 $PY $M/demo.py > /tmp/demo_out.$$ 2>&1; echo "exit=$?"; tail -3 /tmp/demo_out.$$
git checkout -q -- .
build_ext
echo "== demo without patch (expected: ok)"
PYTHONPATH=$WT timeout 900 $PY $M/demo.py > /tmp/demo_out.$$ 2>&1; echo "exit=$?"; tail -2 /tmp/demo_out.$$
rm -f /tmp/demo_out.$$
} > $OUT/confirm.txt 2>&1
