(* commands for tape, machine, instrs, rules, graph models *)
open Bbm_model
open Bbm_util

(* ---------- commands ---------- *)
let unroll_field (t : tape) : string =
  let explicit = List.for_all (fun (_, n) -> n_fits n && int_of_n n < 64) (t.lspan @ t.rspan) in
  let l = field_of_nlist (unroll_span t.lspan) and r = field_of_nlist (unroll_span t.rspan) in
  if explicit then l ^ "/" ^ r
  else begin
    let len sp = List.fold_left (fun a (_, n) -> a + int_of_n n) 0 sp in
    "H" ^ string_of_int (len t.lspan) ^ ":" ^ fnv l ^ "/" ^ string_of_int (len t.rspan) ^ ":" ^ fnv r
  end

let tape_record (prev_sig : signature) (t : tape) (stepped : n) : string =
  let (cl, cr) = counts t in
  let (ll, rl) = span_lens t in
  String.concat " " [
    string_of_n stepped; field_of_tape t; string_of_n (marks t); b2s (blank t);
    b2s (at_edge t false); b2s (at_edge t true); string_of_n (blocks t);
    field_of_nlist cl ^ "/" ^ field_of_nlist cr;
    string_of_n ll ^ "," ^ string_of_n rl;
    field_of_sig (tape_sig t); b2s (sig_compatible t prev_sig);
    string_of_str (show_tape t);
    unroll_field t ]

let unroll_small (t : tape) : bool =
  (* explicit up to 63 cells per block; hashed up to 100000 cells in all (same rule as the harness) *)
  List.for_all (fun (_, n) -> n_fits n && int_of_n n <= 100000) (t.lspan @ t.rspan)
  && List.fold_left (fun a (_, n) -> a + int_of_n n) 0 (t.lspan @ t.rspan) <= 100000

let tape_record_safe prev_sig t stepped =
  if unroll_small t then tape_record prev_sig t stepped
  else begin
    let (cl, cr) = counts t in
    let (ll, rl) = span_lens t in
    String.concat " " [
      string_of_n stepped; field_of_tape t; string_of_n (marks t); b2s (blank t);
      b2s (at_edge t false); b2s (at_edge t true); string_of_n (blocks t);
      field_of_nlist cl ^ "/" ^ field_of_nlist cr;
      string_of_n ll ^ "," ^ string_of_n rl;
      field_of_sig (tape_sig t); b2s (sig_compatible t prev_sig);
      string_of_str (show_tape t); "big" ]
  end

let cmd_tape mode tape_f ops_f =
  let t = ref (tape_of_field tape_f) in
  let ops = if ops_f = "" then [] else split ';' ops_f in
  let recs = ref [] in
  List.iter (fun o ->
      match split ',' o with
      | [sh; co; sk] ->
        let prev_sig = tape_sig !t in
        let (t', stepped) = step !t (sh = "1") (n_of_string co) (sk = "1") in
        t := t';
        recs := tape_record_safe prev_sig t' stepped :: !recs
      | _ -> failwith "bad op") ops;
  let recs = List.rev !recs in
  if mode = "v" then String.concat ";" recs
  else
    string_of_int (List.length recs) ^ "|" ^ fnv (String.concat ";" recs) ^ "|"
    ^ (match recs with [] -> field_of_tape !t | _ -> List.nth recs (List.length recs - 1))

let field_of_mresult (r : mresult) =
  String.concat "|" [ string_of_termres r.r_result; string_of_n r.r_steps;
                      string_of_n r.r_cycles; string_of_n r.r_marks; string_of_n r.r_rulapp;
                      field_of_oslot r.r_last_slot; field_of_blanks r.r_blanks ]

let cmd_quick prog lim =
  field_of_mresult (run_quick (comp_of_text prog) (n_of_string lim))

let cmd_ref prog lim =
  let r = ref_run (to_prog (comp_of_text prog)) (n_of_string lim) in
  String.concat "|" [ string_of_termres r.rr_result; string_of_n r.rr_steps;
                      string_of_n r.rr_marks; field_of_oslot r.rr_last_slot;
                      field_of_blanks r.rr_blanks ]

let cmd_rec prog lim =
  match quick_term_or_rec (comp_of_text prog) (n_of_string lim) with
  | RLimit -> "limit" | RRecur -> "recur" | RSpinout -> "spinout"
  | RUndefined sl -> "undefined:" ^ field_of_slot sl


let cmd_mkrule c1 c2 c3 c4 =
  match unwrap (make_rule (counts_of_field c1) (counts_of_field c2)
                  (counts_of_field c3) (counts_of_field c4)) with
  | None -> "none"
  | Some r -> "rule:" ^ field_of_rule r

let cmd_capps tape_f rule_f =
  match unwrap (count_apps (tape_of_field tape_f) (rule_of_field rule_f)) with
  | None -> "none"
  | Some ((times, pos), res) ->
    string_of_n times ^ " " ^ field_of_index pos ^ " " ^ string_of_n res

let cmd_apply which tape_f rule_f =
  let t = tape_of_field tape_f and r = rule_of_field rule_f in
  let (res, t') = unwrap (match which with
      | "apply" -> apply_rule t r
      | "apply_f7" -> apply_rule_prefix apply_plus t r
      | "apply_f4" -> apply_rule_prefix apply_plus_prefix t r
      | _ -> failwith "bad apply variant") in
  (match res with None -> "none" | Some times -> "some:" ^ string_of_n times)
  ^ "|" ^ field_of_tape t'

let cmd_conn prog states =
  b2s (unwrap (is_connected (comp_of_text prog) (n_of_string states)))

let cmd_parse cps =
  match from_str (cps_of_field cps) with
  | None -> raise Model_panic
  | Some p -> field_of_comp p

let params_of_field s =
  if s = "-" then None else
    match split ',' s with
    | [a; b] -> Some (n_of_string a, n_of_string b)
    | _ -> failwith "bad params"

let cmd_show comp_f params_f =
  match show (comp_of_field comp_f) (params_of_field params_f) with
  | None -> raise Model_panic
  | Some s -> field_of_cps s

let oinstr_of_field s =
  if s = "-" then None else
    match split ',' s with
    | [pr; sh; tr] -> Some ((n_of_string pr, sh = "1"), n_of_string tr)
    | _ -> failwith "bad instr"

let cmd_tok kind cps =
  let s = cps_of_field cps in
  match kind with
  | "instr" -> (match read_instr s with
      | None -> raise Model_panic
      | Some None -> "-"
      | Some (Some i) -> field_of_instr i)
  | "slot" -> (match read_slot s with None -> raise Model_panic | Some sl -> field_of_slot sl)
  | "state" -> (match s with
      | [c] -> (match read_state c with None -> raise Model_panic | Some st -> string_of_n st)
      | _ -> failwith "bad state tok")
  | _ -> failwith "bad tok kind"

let cmd_showtok kind v =
  let o = function None -> raise Model_panic | Some s -> field_of_cps s in
  match kind with
  | "instr" -> o (show_instr (oinstr_of_field v))
  | "slot" -> (match split ',' v with
      | [a; b] -> o (show_slot (n_of_string a, n_of_string b))
      | _ -> failwith "bad slot")
  | "state" -> (match show_state (n_of_string v) with
      | None -> raise Model_panic
      | Some c -> string_of_n c)
  | _ -> failwith "bad tok kind"

let cmd_slots prog =
  let p = comp_of_text prog in
  let (ms, mc) = cp_params p in
  String.concat "|" [
    string_of_n ms ^ "," ^ string_of_n mc;
    String.concat ";" (List.map field_of_slot (halt_slots p));
    String.concat ";" (List.map field_of_slot (erase_slots p));
    String.concat ";" (List.map (fun (s, sh) -> string_of_n s ^ "," ^ b2s sh) (zr_shifts p)) ]

let cmd_cmptake a b take =
  b2s (compare_take (span_of_field a) (span_of_field b) (n_of_string take))

let cmd_aligns h1 t1 h2 t2 lm rm =
  b2s (aligns_with { ht_head = z_of_string h1; ht_tape = tape_of_field t1 }
         { ht_head = z_of_string h2; ht_tape = tape_of_field t2 }
         (z_of_string lm) (z_of_string rm))

let run_ops tape_f ops_f =
  let t = ref (tape_of_field tape_f) in
  (if ops_f <> "" then
     List.iter (fun o -> match split ',' o with
         | [sh; co; sk] -> t := fst (step !t (sh = "1") (n_of_string co) (sk = "1"))
         | _ -> failwith "bad op") (split ';' ops_f));
  !t

let cmd_tapeeq ta oa tb ob =
  let a = run_ops ta oa and b = run_ops tb ob in
  let un t = if unroll_small t then unroll_field t else "big" in
  (* a derived Hash agrees with derived == on equal values: the model answers the hash field with == *)
  b2s (tape_eqb a b) ^ "|" ^ b2s (tape_eqb a b) ^ "|" ^ field_of_tape a ^ " " ^ un a ^ "|" ^ field_of_tape b ^ " " ^ un b

let cmd_ops prog n =
  String.concat ";" (List.map (fun ((sh, co), sk) -> b2s sh ^ "," ^ string_of_n co ^ "," ^ b2s sk)
                       (quick_ops_init (comp_of_text prog) (n_of_string n)))

let cmd_plain prog lim =
  let ((r, n), _) = plain_run (to_prog (comp_of_text prog)) init_config (n_of_string lim) in
  (match r with
   | PLimit -> "limit" | PSpinout -> "spinout"
   | PHalt sl -> "halt:" ^ field_of_slot sl) ^ "|" ^ string_of_n n

let cmd_erase prog lim =
  match erase_run (to_prog (comp_of_text prog)) init_config (n_of_string lim) with
  | None -> "-" | Some n -> string_of_n n

let cmd_cert prog lim =
  match find_cert (to_prog (comp_of_text prog)) init_config (n_of_string lim) with
  | None -> "-" | Some (a, b) -> string_of_n a ^ "," ^ string_of_n b

let cmd_plainm prog lim =
  let ((r, n), (_, z)) = plain_run (to_prog (comp_of_text prog)) init_config (n_of_string lim) in
  (match r with
   | PLimit -> "limit" | PSpinout -> "spinout"
   | PHalt sl -> "halt:" ^ field_of_slot sl) ^ "|" ^ string_of_n n ^ "|" ^ string_of_n (marks_of z)

(* verified replay checker (Model/ReplayModel.v, Proofs/ReplaySound.v) *)
let cmd_replay prog q before tq after fuel =
  match replay3 (comp_of_text prog) (n_of_string q) (tape_of_field before)
          (n_of_string tq) (tape_of_field after) (n_of_string fuel) with
  | RpReached c -> "reached:" ^ string_of_n c
  | RpStopped c -> "stopped:" ^ string_of_n c
  | RpFuel -> "fuel"

let dispatch (fields : string list) : string option =
  match fields with
  | ["plainm"; prog; lim] -> Some (cmd_plainm prog lim)
  | ["replay"; prog; q; before; tq; after; fuel] -> Some (cmd_replay prog q before tq after fuel)
  | ["plain"; prog; lim] -> Some (cmd_plain prog lim)
  | ["erase"; prog; lim] -> Some (cmd_erase prog lim)
  | ["cert"; prog; lim] -> Some (cmd_cert prog lim)
  | ["ops"; prog; n] -> Some (cmd_ops prog n)
  | ["tape"; mode; tp; ops] -> Some (cmd_tape mode tp ops)
  | ["tapeeq"; ta; oa; tb; ob] -> Some (cmd_tapeeq ta oa tb ob)
  | ["quick"; prog; lim] -> Some (cmd_quick prog lim)
  | ["ref"; prog; lim] -> Some (cmd_ref prog lim)
  | ["rec"; prog; lim] -> Some (cmd_rec prog lim)
  | ["mkrule"; c1; c2; c3; c4] -> Some (cmd_mkrule c1 c2 c3 c4)
  | ["capps"; tp; rl] -> Some (cmd_capps tp rl)
  | [("apply" | "apply_f7" | "apply_f4") as w; tp; rl] -> Some (cmd_apply w tp rl)
  | ["conn"; prog; states] -> Some (cmd_conn prog states)
  | ["parse"; cps] -> Some (cmd_parse cps)
  | ["show"; comp; params] -> Some (cmd_show comp params)
  | ["tok"; kind; cps] -> Some (cmd_tok kind cps)
  | ["showtok"; kind; v] -> Some (cmd_showtok kind v)
  | ["slots"; prog] -> Some (cmd_slots prog)
  | ["cmptake"; a; b; take] -> Some (cmd_cmptake a b take)
  | ["aligns"; h1; t1; h2; t2; lm; rm] -> Some (cmd_aligns h1 t1 h2 t2 lm rm)
  | _ -> None

