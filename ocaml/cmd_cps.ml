(* commands for the cps model (coq/Model/CpsModel.v) *)
open Bbm_model
open Bbm_util

let goal_of = function
  | "halt" -> CpsHalt | "blank" -> CpsBlank | "spin" -> CpsSpinout
  | _ -> failwith "bad goal"

let ob = function Panic -> raise Model_panic | Ok b -> b2s b

(* processing orders (the model's [order] parameter: list of seen configs,
   newest first -> list in pop order).  "old" is what the differential test uses;
   the others exist to probe order (in)dependence. *)
let shuffle seed l =
  let st = Random.State.make [| seed; List.length l |] in
  let a = Array.of_list l in
  for i = Array.length a - 1 downto 1 do
    let j = Random.State.int st (i + 1) in
    let t = a.(i) in a.(i) <- a.(j); a.(j) <- t
  done;
  Array.to_list a

let order_of (name : string) : cconfig list -> cconfig list =
  match name with
  | "old" -> order_oldest_first
  | "new" -> order_newest_first
  | "sort" -> List.sort (fun a b -> compare (config_key a) (config_key b))
  | "rsort" -> List.sort (fun a b -> compare (config_key b) (config_key a))
  | _ when String.length name > 4 && String.sub name 0 4 = "shuf" ->
    shuffle (int_of_string (String.sub name 4 (String.length name - 4)))
  | _ -> failwith "bad order"

let cmd_cps order goal prog rad =
  let p = comp_of_text prog in
  let r = n_of_string rad in
  ob (match goal with
      | "halt" -> cps_cant_halt order p r
      | "blank" -> cps_cant_blank order p r
      | "spin" -> cps_cant_spin_out order p r
      | _ -> failwith "bad goal")

let cmd_cps1 order goal prog rad =
  ob (cps_cant_reach order (comp_of_text prog) (n_of_string rad) (goal_of goal))

(* one pass at exactly radius rad, with statistics:
   answer, number of sweeps started, final |seen| *)
let cmd_cpsstat order goal prog rad =
  let p = comp_of_text prog in
  let r = n_of_string rad in
  let g = goal_of goal in
  match configs_init r with
  | Panic -> raise Model_panic
  | Ok c0 ->
    let fuel = while_fuel p r in
    let rec go c i =
      if i >= int_of_n mAX_LOOPS then ("0", i, c)
      else match cps_loop_body order p g fuel c with
        | Inl c' -> go c' (i + 1)
        | Inr Panic -> ("PANIC", i + 1, c)
        | Inr (Ok b) -> (b2s b, i + 1, c) in
    let (a, loops, c) = go c0 0 in
    Printf.sprintf "%s loops=%d seen=%s" a loops (string_of_n c.c_seen.set_len)

let dispatch (fields : string list) : string option =
  match fields with
  | ["cps"; goal; prog; rad] -> Some (cmd_cps order_oldest_first goal prog rad)
  | ["cpspy"; goal; prog; rad] -> Some (cmd_cps order_oldest_first goal prog rad)
  | ["cps1"; goal; prog; rad] -> Some (cmd_cps1 order_oldest_first goal prog rad)
  | ["cpso"; ord; goal; prog; rad] -> Some (cmd_cps (order_of ord) goal prog rad)
  | ["cps1o"; ord; goal; prog; rad] -> Some (cmd_cps1 (order_of ord) goal prog rad)
  | ["cpsstat"; ord; goal; prog; rad] -> Some (cmd_cpsstat (order_of ord) goal prog rad)
  | _ -> None
