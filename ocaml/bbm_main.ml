(* bbm: runs the extracted Coq models on case lines (stdin) and prints one
   canonical answer line per case (stdout).  Glue only. *)
open Bbm_util

let dispatchers : (string list -> string option) list =
  [ Cmd_core.dispatch; Cmd_cps.dispatch; Cmd_reason.dispatch; Cmd_segment.dispatch;
    Cmd_macro.dispatch; Cmd_tree.dispatch; Cmd_prover.dispatch ]

let dispatch fields =
  let rec go = function
    | [] -> failwith "unknown command"
    | d :: ds -> (match d fields with Some a -> a | None -> go ds) in
  go dispatchers

let () =
  let rec loop () =
    match input_line stdin with
    | exception End_of_file -> ()
    | line ->
      (if line <> "" then
         match String.split_on_char '|' line with
         | id :: fields ->
           let ans = try dispatch fields with
             | Model_panic -> "PANIC"
             | Stack_overflow -> "MODEL-STACK-OVERFLOW"
             | Failure m -> "MODEL-ERROR:" ^ m
             | Not_found -> "MODEL-ERROR:not_found"
             | Invalid_argument m -> "MODEL-ERROR:" ^ m in
           print_string id; print_char '|'; print_string ans; print_newline ()
         | [] -> ());
      loop () in
  loop ()
