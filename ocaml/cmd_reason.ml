(* commands for the reason model *)
open Bbm_model
open Bbm_util

let dispatch (fields : string list) : string option =
  match fields with
  | _ -> None
