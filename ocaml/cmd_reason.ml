(* commands for the reason model (coq/Model/ReasonModel.v).  Glue only.
     bw|<goal>|<prog>|<depth>             faithful model
     bw_nodrop|<goal>|<prog>|<depth>      counterfactual: switch sw_nodrop
     bw_fullparams|<goal>|<prog>|<depth>  counterfactual: switch sw_fullparams *)
open Bbm_model
open Bbm_util

let string_of_bw = function
  | BwInit -> "init"
  | BwLinRec -> "linrec"
  | BwSpinout -> "spinout"
  | BwStepLimit -> "step_limit"
  | BwDepthLimit -> "depth_limit"
  | BwRefuted step -> "refuted:" ^ string_of_n step

let cmd_bw (sw : bw_switches) goal prog depth : string =
  let comp = comp_of_text prog in
  let depth = n_of_string depth in
  let r = match goal with
    | "halt" -> cant_halt_sw sw comp depth
    | "blank" -> cant_blank_sw sw comp depth
    | "spin" -> cant_spin_out_sw sw comp depth
    | _ -> failwith "bad goal" in
  string_of_bw (unwrap r)

(* the string wrappers are pure functions of (prog, depth, goal): the model
   answers a sequence of questions independently *)
let cmd_bwpyseq prog depth goals =
  String.concat "," (List.map (fun g ->
      try cmd_bw bw_faithful g prog depth with Model_panic -> "PANIC")
      (String.split_on_char ',' goals))

(* the decidable guards of the guarded global theorem C04_bw_refuted_sound_guarded, evaluated on
   the model with the F1 branch repaired (sw_nodrop) and the faithful table size *)
let cmd_bwguard goal prog depth =
  let comp = comp_of_text prog in
  let sw = { sw_nodrop = true; sw_fullparams = false } in
  let gc = match goal with
    | "halt" -> halt_configs sw | "blank" -> erase_configs | _ -> zero_reflexive_configs in
  let ((r, _fired), unjust) = cant_reach_i sw comp (n_of_string depth) gc in
  let box_ok = (cp_params_full comp = cp_params comp) in
  let a0 = (match cp_get comp (N0, N0) with Some _ -> true | None -> false) in
  string_of_bw (unwrap r) ^ "|" ^ b2s box_ok ^ "|" ^ b2s (not unjust) ^ "|" ^ b2s a0

let dispatch (fields : string list) : string option =
  match fields with
  | ["bwguard"; goal; prog; depth] -> Some (cmd_bwguard goal prog depth)
  | ["bwpyseq"; prog; depth; goals] -> Some (cmd_bwpyseq prog depth goals)
  | ["bw"; goal; prog; depth] -> Some (cmd_bw bw_faithful goal prog depth)
  | ["bw_nodrop"; goal; prog; depth] ->
    Some (cmd_bw { sw_nodrop = true; sw_fullparams = false } goal prog depth)
  | ["bw_fullparams"; goal; prog; depth] ->
    Some (cmd_bw { sw_nodrop = false; sw_fullparams = true } goal prog depth)
  | ["bw_both"; goal; prog; depth] ->      (* both repairs at once: a refutation can rest on F1 AND F2 *)
    Some (cmd_bw { sw_nodrop = true; sw_fullparams = true } goal prog depth)
  | _ -> None
