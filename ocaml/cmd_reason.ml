(* commands for the reason model (coq/Model/ReasonModel.v).  Glue only.
     bw|<goal>|<prog>|<depth>             faithful model
     bw_nodrop|<goal>|<prog>|<depth>      counterfactual: switch sw_nodrop
     bw_fullparams|<goal>|<prog>|<depth>  counterfactual: switch sw_fullparams *)
open Bbm_model
open Bbm_util

let string_of_bw = function
  | BwInit -> "init"
  | BwLinRec -> "linrec"
  | BwSpinout -> "spinout"
  | BwStepLimit -> "step_limit"
  | BwDepthLimit -> "depth_limit"
  | BwRefuted step -> "refuted:" ^ string_of_n step

let cmd_bw (sw : bw_switches) goal prog depth : string =
  let comp = comp_of_text prog in
  let depth = n_of_string depth in
  let r = match goal with
    | "halt" -> cant_halt_sw sw comp depth
    | "blank" -> cant_blank_sw sw comp depth
    | "spin" -> cant_spin_out_sw sw comp depth
    | _ -> failwith "bad goal" in
  string_of_bw (unwrap r)

(* the string wrappers are pure functions of (prog, depth, goal): the model
   answers a sequence of questions independently *)
let cmd_bwpyseq prog depth goals =
  String.concat "," (List.map (fun g ->
      try cmd_bw bw_faithful g prog depth with Model_panic -> "PANIC")
      (String.split_on_char ',' goals))

let dispatch (fields : string list) : string option =
  match fields with
  | ["bwpyseq"; prog; depth; goals] -> Some (cmd_bwpyseq prog depth goals)
  | ["bw"; goal; prog; depth] -> Some (cmd_bw bw_faithful goal prog depth)
  | ["bw_nodrop"; goal; prog; depth] ->
    Some (cmd_bw { sw_nodrop = true; sw_fullparams = false } goal prog depth)
  | ["bw_fullparams"; goal; prog; depth] ->
    Some (cmd_bw { sw_nodrop = false; sw_fullparams = true } goal prog depth)
  | _ -> None
