(* commands for the num.py models (C18): Spec/NumExpr.v and Model/PyNumModModel.v.  Glue only.

   expression text:  <int> | [+ a b] | [* a b] | [/ a <int>] | [^ <int> e]   with round parentheses

     numeval|<expr>          -> integer | none            Spec eval (exact division)
     numevalf|<expr>         -> integer | none            Spec eval_floor (what int() computes)
     numevalmod|<expr>|<m>   -> integer | none            Spec eval_mod
     numwf|<expr>            -> 1 | 0                     Spec exps_gt1 (hypothesis of C18_mod_sound)
     nummod|<expr>|<m>       -> v | raise:<Class> | unmodelled     Model mod_top
     nummodpre|<expr>|<m>    -> same, for the pre-fix model (F5/F5b history)
     numtables               -> <mod>:<k>=<v>,...;...     Model special_tables
   A guard (glue) answers `toobig` instead of evaluating when the value would have more than
   ~40000 bits: the extracted Z arithmetic is unary-recursive on binary digits and Z.pow is linear. *)
open Bbm_model
open Bbm_util

let tokens (s : string) : string list =
  let b = Buffer.create (String.length s + 16) in
  String.iter (fun c -> match c with
      | '(' -> Buffer.add_string b " ( "
      | ')' -> Buffer.add_string b " ) "
      | c -> Buffer.add_char b c) s;
  List.filter (fun t -> t <> "") (String.split_on_char ' ' (Buffer.contents b))

let parse_expr (s : string) : nexpr =
  let toks = ref (tokens s) in
  let next () = match !toks with
    | t :: r -> toks := r; t
    | [] -> failwith "bad expr: unexpected end" in
  let rec go () =
    let t = next () in
    if t = "(" then begin
      let op = next () in
      let e =
        match op with
        | "+" -> let a = go () in let b = go () in NAdd (a, b)
        | "*" -> let a = go () in let b = go () in NMul (a, b)
        | "/" -> let a = go () in let d = next () in NDiv (a, z_of_string d)
        | "^" -> let b = next () in let x = go () in NExp (z_of_string b, x)
        | _ -> failwith ("bad expr: operator " ^ op) in
      if next () <> ")" then failwith "bad expr: ) expected";
      e
    end else NInt (z_of_string t) in
  let e = go () in
  if !toks <> [] then failwith "bad expr: trailing tokens";
  e

let z_bits = function Z0 -> 1. | Zpos p | Zneg p -> float_of_int (pos_bits p)
let z_small = function Z0 -> Some 0 | Zpos p -> if pos_bits p <= 24 then Some (int_of_pos p) else None
                       | Zneg p -> if pos_bits p <= 24 then Some (- (int_of_pos p)) else None

(* upper estimate of the number of bits of the value *)
let rec bits (e : nexpr) : float =
  match e with
  | NInt z -> z_bits z
  | NAdd (l, r) -> Float.max (bits l) (bits r) +. 1.
  | NMul (l, r) -> bits l +. bits r
  | NDiv (n, _) -> bits n
  | NExp (b, x) ->
    if bits x > 24. then infinity
    else (match eval x with
        | Some k -> (match z_small k with
            | Some k -> if k < 0 then 1. else float_of_int k *. z_bits b +. 1.
            | None -> infinity)
        | None -> 1.)

let big e = bits e > 40000.

let show_oz = function Some z -> string_of_z z | None -> "none"

let show_exc = function
  | PxAssertionError -> "AssertionError"
  | PxNotImplementedError -> "NotImplementedError"
  | PxExpModLimit -> "ExpModLimit"
  | PxModDepthLimit -> "ModDepthLimit"
  | PxPeriodLimit -> "PeriodLimit"

let show_mres = function
  | MVal v -> string_of_z v
  | MRaise x -> "raise:" ^ show_exc x
  | MUnmodelled -> "unmodelled"

let show_tables () =
  String.concat ";" (List.map (fun (m, rows) ->
      string_of_z m ^ ":" ^ String.concat "," (List.map (fun (k, v) -> string_of_z k ^ "=" ^ string_of_z v) rows))
      special_tables)

let dispatch (fields : string list) : string option =
  match fields with
  | ["numeval"; e] -> let e = parse_expr e in Some (if big e then "toobig" else show_oz (eval e))
  | ["numevalf"; e] -> let e = parse_expr e in Some (if big e then "toobig" else show_oz (eval_floor e))
  | ["numevalmod"; e; m] -> let e = parse_expr e in
    Some (if big e then "toobig" else show_oz (eval_mod e (z_of_string m)))
  | ["numwf"; e] -> let e = parse_expr e in Some (if big e then "toobig" else b2s (exps_gt1 e))
  | ["nummod"; e; m] -> Some (show_mres (mod_top (parse_expr e) (z_of_string m)))
  | ["nummodpre"; e; m] ->
    let m = z_of_string m in
    Some (match m with Zpos _ -> show_mres (mod_model_prefix (parse_expr e) m) | _ -> "unmodelled")
  | ["numtables"] -> Some (show_tables ())
  | _ -> None
