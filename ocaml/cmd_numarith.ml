(* commands for the int-operand fragment of num.py's simplifier (C18): Model/PyNumArithModel.v.
   Glue only.  Expression text and parser are those of cmd_num.ml.

     numarith|<op>|<expr>|<n>      -> <result tree> | raise:<Class> | unmodelled     Model arith_top false
     numarithchk|<op>|<expr>|<n>   -> same for arith_top true (the restriction the soundness theorem is
                                      about: gcd(l, Exp) with a symbolic exponent refuses when the exponent's value
                                      is too small for the returned power to divide);
                                      `toobig` when the glue guard of cmd_num.ml refuses to evaluate
     numarithpre|<op>|<expr>|<n>   -> same for arith_prefix_top (HISTORY: the transcription of the library
                                      before the repair of gcd() and of Exp.__floordiv__)
     numgcd|<l>|<expr>             -> g | raise:<Class> | unmodelled                 Model gcd_h false
     numgcdpre|<l>|<expr>          -> same for gcd_h_prefix

   <op> is one of  add radd sub rsub neg mul rmul floordiv pow mkexp
   (x + n, n + x, x - n, n - x, -x, x * n, n * x, x // n, x ** n, make_exp(n, x)); <n> is ignored by neg.
   The result tree is printed in the format of py/pyharness.py `ser`. *)
open Bbm_model
open Bbm_util

let rec show_expr (e : nexpr) : string =
  match e with
  | NInt z -> string_of_z z
  | NAdd (l, r) -> "(+ " ^ show_expr l ^ " " ^ show_expr r ^ ")"
  | NMul (l, r) -> "(* " ^ show_expr l ^ " " ^ show_expr r ^ ")"
  | NDiv (n, d) -> "(/ " ^ show_expr n ^ " " ^ string_of_z d ^ ")"
  | NExp (b, x) -> "(^ " ^ string_of_z b ^ " " ^ show_expr x ^ ")"

let show_axc = function
  | AxAssertion -> "AssertionError"
  | AxValue -> "ValueError"
  | AxType -> "TypeError"
  | AxZeroDivision -> "ZeroDivisionError"
  | AxNotImplemented -> "NotImplementedError"

let show_ares show = function
  | AVal v -> show v
  | ARaise x -> "raise:" ^ show_axc x
  | AUnm -> "unmodelled"

let op_of (s : string) (n : z) : aop =
  match s with
  | "add" -> OAddI n
  | "radd" -> ORadd n
  | "sub" -> OSubI n
  | "rsub" -> ORsub n
  | "neg" -> ONeg
  | "mul" -> OMulI n
  | "rmul" -> ORmul n
  | "floordiv" -> OFdiv n
  | "pow" -> OPow n
  | "mkexp" -> OMkExp n
  | _ -> failwith ("bad arith op " ^ s)

let dispatch (fields : string list) : string option =
  match fields with
  | ["numarith"; op; e; n] ->
    Some (show_ares show_expr (arith_top false (op_of op (z_of_string n)) (Cmd_num.parse_expr e)))
  | ["numarithchk"; op; e; n] ->
    let x = Cmd_num.parse_expr e in
    Some (if Cmd_num.big x then "toobig"
          else show_ares show_expr (arith_top true (op_of op (z_of_string n)) x))
  | ["numarithpre"; op; e; n] ->
    Some (show_ares show_expr (arith_prefix_top (op_of op (z_of_string n)) (Cmd_num.parse_expr e)))
  | ["numgcd"; l; e] -> Some (show_ares string_of_z (gcd_h false (z_of_string l) (Cmd_num.parse_expr e)))
  | ["numgcdpre"; l; e] -> Some (show_ares string_of_z (gcd_h_prefix (z_of_string l) (Cmd_num.parse_expr e)))
  | _ -> None
