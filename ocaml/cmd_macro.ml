(* commands for the macro model (coq/Model/MacrosModel.v). Glue only:
   parsing of the case fields, printing of the answers, FNV hashing. *)
open Bbm_model
open Bbm_util

(* "block:3+back:1" = backsymbol(1) over block(3) over the base program.
   Every layer receives the SAME (S,C) params given in the command.
   "backfix:k" (model only) = backsymbol logic with split_at(self.cells).
   Params field "S,C,chain": the innermost layer receives (S,C), every
   further layer receives params() of the layer below it.
   Result: logics OUTERMOST first. *)
let logics_of_spec (spec : string) ((params, chain) : (n * n) * bool) : logic list =
  let one params e =
    match split ':' e with
    | ["block"; k] -> unwrap (logic_new LkBlock false (n_of_string k) params)
    | ["back"; k] -> unwrap (logic_new LkBacksymbol false (n_of_string k) params)
    | ["backfix"; k] -> unwrap (logic_new LkBacksymbol true (n_of_string k) params)
    | _ -> failwith "bad macro spec" in
  (* construction order = base outward; a panic in a constructor is a PANIC of the case *)
  let els = split '+' spec in
  let n = List.length els in
  let (_, _, acc) = List.fold_left (fun (i, params, acc) e ->
      let lg = one params e in
      (* MacroProg::params() of this layer is evaluated only when a further layer is built *)
      let next = if chain && i + 1 < n then unwrap (macro_params lg) else params in
      (i + 1, next, lg :: acc)) (0, params, []) els in
  acc

let params_of s = match split ',' s with
  | [a; b] -> ((n_of_string a, n_of_string b), false)
  | [a; b; "chain"] -> ((n_of_string a, n_of_string b), true)
  | _ -> failwith "bad params"

let slots_of_field (s : string) : slot list =
  if s = "" then [] else
    List.map (fun q -> match split ',' q with
        | [a; b] -> (n_of_string a, n_of_string b)
        | _ -> failwith "bad slot") (split ';' s)

let field_of_answer = function
  | Panic -> "P"
  | Ok None -> "-"
  | Ok (Some i) -> field_of_instr i

let n_compare a b = match N.compare a b with Eq -> 0 | Lt -> -1 | Gt -> 1

(* colours whose cache entry is dumped: 0..31, the colours of the queries and
   of the answers and, for an outermost backsymbol layer, the backspan colour
   (state / 2) mod backsymbols of every query state and answer state *)
let dump_candidates (outer : logic) (qs : slot list) (ans : (instr option) outcome list) : n list =
  let base = List.init 32 n_of_int in
  let insts = List.concat_map (function Ok (Some i) -> [i] | _ -> []) ans in
  let cols = List.map snd qs @ List.map (fun ((co, _), _) -> co) insts in
  let sts = List.map fst qs @ List.map (fun (_, tr) -> tr) insts in
  let bks = match outer.lg_kind with
    | LkBacksymbol when outer.lg_backsymbols <> N0 ->
      List.map (fun st -> snd (N.div_eucl (fst (N.div_eucl st (n_of_int 2))) outer.lg_backsymbols)) sts
    | _ -> [] in
  List.sort_uniq n_compare (base @ cols @ bks)

let dump_state (outer : logic) (m : mstate) qs ans : string =
  let cands = dump_candidates outer qs ans in
  let entries = List.concat_map (fun c ->
      match color_to_tape m c with
      | Ok t -> [string_of_n c ^ "=" ^ field_of_nlist t]
      | Panic -> []) cands in
  "c2t:" ^ String.concat ";" entries ^ "|memo:" ^ field_of_comp m.ms_instrs

let cmd_macro prog params spec queries =
  let comp = comp_of_text prog in
  let lgs = logics_of_spec spec (params_of params) in
  let qs = slots_of_field queries in
  let (ans, st) = stack_queries comp lgs (stack_new lgs) qs in
  String.concat ";" (List.map field_of_answer ans) ^ "|"
  ^ dump_state (List.hd lgs) (List.hd st) qs ans

(* model only, experiment: like `macro` but a panicking query is rolled back
   (the whole stack state is restored).  Used to show that the real code
   does NOT behave like that for nested macros. *)
let cmd_macro_rollback prog params spec queries =
  let comp = comp_of_text prog in
  let lgs = logics_of_spec spec (params_of params) in
  let qs = slots_of_field queries in
  let st = ref (stack_new lgs) in
  let ans = List.map (fun q ->
      let (r, st') = stack_get comp lgs !st q in
      (match r with Panic -> () | _ -> st := st');
      r) qs in
  String.concat ";" (List.map field_of_answer ans) ^ "|"
  ^ dump_state (List.hd lgs) (List.hd !st) qs ans

let cmd_macro2 prog params spec qa qb =
  let comp = comp_of_text prog in
  let lgs = logics_of_spec spec (params_of params) in
  let (ra, rb) = stack_queries2 comp lgs (stack_new lgs) (stack_new lgs)
      (slots_of_field qa) (slots_of_field qb) in
  String.concat ";" (List.map field_of_answer ra) ^ "|"
  ^ String.concat ";" (List.map field_of_answer rb)

let log_string (log : (slot * (instr option) outcome) list) : string =
  String.concat ";" (List.rev_map (fun (sl, a) -> field_of_slot sl ^ ">" ^ field_of_answer a) log)

let run_macro prog params spec n =
  let comp = comp_of_text prog in
  let lgs = logics_of_spec spec (params_of params) in
  macro_run comp lgs (n_of_string n)

let cmd_macrorun prog params spec n =
  let (stop, s) = run_macro prog params spec n in
  String.concat "|" [
    string_of_n s.rn_cycles;
    (match stop with
     | RsLimit -> "limit" | RsUndef sl -> "undef:" ^ field_of_slot sl
     | RsSpinout -> "spinout" | RsPanic -> "P");
    fnv (log_string s.rn_log);
    field_of_tape s.rn_tape ]

(* model only: the distinct slots queried by a macrorun, in first-query order *)
let cmd_macroslots prog params spec n =
  let (_, s) = run_macro prog params spec n in
  let seen = Hashtbl.create 64 in
  let out = ref [] in
  List.iter (fun (sl, _) ->
      let k = field_of_slot sl in
      if not (Hashtbl.mem seen k) then (Hashtbl.add seen k (); out := k :: !out))
    (List.rev s.rn_log);
  String.concat ";" (List.rev !out)

(* model only: the full log of a macrorun *)
let cmd_macrolog prog params spec n =
  let (_, s) = run_macro prog params spec n in
  log_string s.rn_log

(* model only, test generation: breadth-first closure of the slots whose
   colours are (or become) known to the outermost converter, starting from
   colour 0; prints the queries in the order made (at most maxq). *)
let cmd_macroclosure prog params spec maxq =
  let comp = comp_of_text prog in
  let lgs = logics_of_spec spec (params_of params) in
  let outer = List.hd lgs in
  let (bs, bc) = (outer.lg_base_states, outer.lg_base_colors) in
  let maxq = int_of_string maxq in
  let seen = Hashtbl.create 64 in
  let queue = Queue.create () in
  let push sl =
    let k = field_of_slot sl in
    if not (Hashtbl.mem seen k) then (Hashtbl.add seen k (); Queue.add sl queue) in
  let nstates = int_of_n bs in
  let ncolors = int_of_n bc in
  (match outer.lg_kind with
   | LkBlock -> for s = 0 to 2 * nstates - 1 do push (n_of_int s, N0) done
   | LkBacksymbol ->
     let b = int_of_n outer.lg_backsymbols in
     for s = 0 to nstates - 1 do
       for e = 0 to 1 do
         for c = 0 to ncolors - 1 do push (n_of_int (2 * (s * b) + e), n_of_int c) done
       done
     done);
  let st = ref (stack_new lgs) in
  let out = ref [] in
  let nq = ref 0 in
  while not (Queue.is_empty queue) && !nq < maxq do
    let sl = Queue.pop queue in
    incr nq;
    out := field_of_slot sl :: !out;
    let (r, st') = stack_get comp lgs !st sl in
    st := st';
    (match r with
     | Ok (Some ((co, _), tr)) ->
       (match outer.lg_kind with
        | LkBlock -> for s = 0 to 2 * nstates - 1 do push (n_of_int s, co) done
        | LkBacksymbol ->
          let t = int_of_n tr in
          for c = 0 to ncolors - 1 do
            push (n_of_int t, n_of_int c);
            push (n_of_int (t lxor 1), n_of_int c)
          done)
     | _ -> ())
  done;
  String.concat ";" (List.rev !out)

let cmd_macroparams params spec =
  let lgs = logics_of_spec spec (params_of params) in
  let (s, c) = unwrap (macro_params (List.hd lgs)) in
  string_of_n s ^ "," ^ string_of_n c

let dispatch (fields : string list) : string option =
  match fields with
  | ["macro"; prog; params; spec; queries] -> Some (cmd_macro prog params spec queries)
  | ["macro_rollback"; prog; params; spec; queries] -> Some (cmd_macro_rollback prog params spec queries)
  | ["macro2"; prog; params; spec; qa; qb] -> Some (cmd_macro2 prog params spec qa qb)
  | ["macrorun"; prog; params; spec; n] -> Some (cmd_macrorun prog params spec n)
  | ["macroslots"; prog; params; spec; n] -> Some (cmd_macroslots prog params spec n)
  | ["macrolog"; prog; params; spec; n] -> Some (cmd_macrolog prog params spec n)
  | ["macroclosure"; prog; params; spec; maxq] -> Some (cmd_macroclosure prog params spec maxq)
  | ["macroparams"; params; spec] -> Some (cmd_macroparams params spec)
  | _ -> None
