(* commands for the tree model (coq/Model/TreeModel.v). Glue only:
   printing with the model's [show], sorting, duplicate count, FNV. *)
open Bbm_model
open Bbm_util

let params_of s = match split ',' s with
  | [a; b] -> (n_of_string a, n_of_string b)
  | _ -> failwith "bad params"

(* wrappers.rs tree_progs: comp.show(Some(params)) inside the harvester *)
let show_all params (progs : comp_prog list) : string list =
  List.rev (List.rev_map (fun p ->
      match show p (Some params) with
      | Some s -> string_of_str s
      | None -> raise Model_panic) progs)

let count_dups (l : string list) : int =
  let h = Hashtbl.create 1024 in
  let d = ref 0 in
  List.iter (fun s -> if Hashtbl.mem h s then incr d else Hashtbl.add h s ()) l;
  !d

let summary (l : string list) : string =
  let sorted = List.sort compare l in
  string_of_int (List.length l) ^ "|" ^ fnv (String.concat "\n" sorted)
  ^ "|dups=" ^ string_of_int (count_dups l)

let tree_strings params halt lim =
  let params = params_of params in
  show_all params (unwrap (build_tree params (halt = "1") (n_of_string lim)))

let cmd_tree params halt lim = summary (tree_strings params halt lim)

let cmd_treedump params halt lim =
  String.concat ";" (List.sort compare (tree_strings params halt lim))

let cmd_treesub params halt lim instr =
  let params = params_of params in
  let i = match split ',' instr with
    | [co; sh; tr] -> ((n_of_string co, sh = "1"), n_of_string tr)
    | _ -> failwith "bad instr" in
  summary (show_all params
             (List.rev (unwrap (build_subtree params (halt = "1") (n_of_string lim) i []))))

let dispatch (fields : string list) : string option =
  match fields with
  | ["tree"; params; halt; lim] -> Some (cmd_tree params halt lim)
  | ["treedump"; params; halt; lim] -> Some (cmd_treedump params halt lim)
  | ["treesub"; params; halt; lim; instr] -> Some (cmd_treesub params halt lim instr)
  | _ -> None
