(* commands for C17: the Python-side models (PyTapeModel, PyRulesModel) and the
   `tape3` record format of the three-way tape comparison.  Glue only.
     pytape|<mode>|<tape>|<ops>   PyTapeModel.py_step + py_* observers
     tape3|<mode>|<tape>|<ops>    TapeModel.step + observers (the Rust model)
   both in the tape3 record format:
     stepped tape marks blank edgeL edgeR counts lens sig display
   (display is "-" when a count reaches 10^12, where Python abbreviates)
     pydiff|a,b,c,d   pymkrule|c1|c2|c3|c4   pycapps|<tape>|<rule>   pyapply|<tape>|<rule> *)
open Bbm_model
open Bbm_util

let n10_12 = n_of_int 1_000_000_000_000
let is_big (n : n) = match N.compare n n10_12 with Lt -> false | _ -> true

let record3 ~marks ~blank ~at_edge ~counts ~span_lens ~tsig ~show (t : tape) (stepped : n) =
  let (cl, cr) = counts t in
  let (ll, rl) = span_lens t in
  let big = List.exists is_big (cl @ cr) in
  String.concat " " [
    string_of_n stepped; field_of_tape t; string_of_n (marks t); b2s (blank t);
    b2s (at_edge t false); b2s (at_edge t true);
    field_of_nlist cl ^ "/" ^ field_of_nlist cr;
    string_of_n ll ^ "," ^ string_of_n rl;
    field_of_sig (tsig t);
    (if big then "-" else string_of_str (show t)) ]

let rs_record = record3 ~marks ~blank ~at_edge ~counts ~span_lens ~tsig:tape_sig ~show:show_tape
let py_record = record3 ~marks:py_marks ~blank:py_blank ~at_edge:py_at_edge ~counts:py_counts
    ~span_lens:py_span_lens ~tsig:py_signature ~show:py_show_tape

let cmd_tape3 stepf record mode tape_f ops_f =
  let t = ref (tape_of_field tape_f) in
  let ops = if ops_f = "" then [] else split ';' ops_f in
  let recs = ref [] in
  List.iter (fun o ->
      match split ',' o with
      | [sh; co; sk] ->
        let (t', stepped) = stepf !t (sh = "1") (n_of_string co) (sk = "1") in
        t := t';
        recs := record t' stepped :: !recs
      | _ -> failwith "bad op") ops;
  let recs = List.rev !recs in
  if mode = "v" then String.concat ";" recs
  else
    string_of_int (List.length recs) ^ "|" ^ fnv (String.concat ";" recs) ^ "|"
    ^ (match recs with [] -> field_of_tape !t | _ -> List.nth recs (List.length recs - 1))

let exc_name = function
  | ExUnknownRule -> "UnknownRule" | ExInfiniteRule -> "InfiniteRule"
  | ExSuspectedRule (a, s) -> "SuspectedRule:" ^ string_of_z a ^ "," ^ string_of_z s
  | ExSecondDiffRule -> "SecondDiffRule" | ExZeroDivision -> "ZeroDivisionError"
  | ExIndexError -> "IndexError" | ExValueError -> "ValueError"
  | ExAssertion -> "AssertionError" | ExUnmodelled -> "UNMODELLED"

let pyres f = function
  | Raise ExUnmodelled -> "unmodelled"
  | Raise e -> "raise:" ^ exc_name e
  | Ret a -> f a

let cmd_pydiff f =
  match List.map n_of_string (split ',' f) with
  | [a; b; c; d] ->
    pyres (function None -> "none" | Some o -> field_of_op o) (py_calculate_diff a b c d)
  | _ -> failwith "bad counts"

let cmd_pymkrule c1 c2 c3 c4 =
  pyres (function None -> "none" | Some r -> "rule:" ^ field_of_rule r)
    (py_make_rule (counts_of_field c1) (counts_of_field c2) (counts_of_field c3) (counts_of_field c4))

let cmd_pycapps tape_f rule_f =
  pyres (function
      | None -> "none"
      | Some ((times, pos), res) ->
        string_of_n times ^ " " ^ field_of_index pos ^ " " ^ string_of_n res)
    (py_count_apps (tape_of_field tape_f) (rule_of_field rule_f))

let has_mult (r : rule) = List.exists (fun (_, o) -> match o with MultOp _ -> true | _ -> false) r

let cmd_pyapply tape_f rule_f =
  let r = rule_of_field rule_f in
  (* the Python harness does not call apply_rule on a rule with a multiplicative entry *)
  if has_mult r then "unmodelled" else
  pyres (fun (res, t') ->
      (match res with None -> "none" | Some times -> "some:" ^ string_of_n times)
      ^ "|" ^ field_of_tape t')
    (py_apply_rule (tape_of_field tape_f) r)

let dispatch (fields : string list) : string option =
  match fields with
  | ["pytape"; mode; tp; ops] -> Some (cmd_tape3 py_step py_record mode tp ops)
  | ["tape3"; mode; tp; ops] -> Some (cmd_tape3 step rs_record mode tp ops)
  | ["pydiff"; f] -> Some (cmd_pydiff f)
  | ["pymkrule"; c1; c2; c3; c4] -> Some (cmd_pymkrule c1 c2 c3 c4)
  | ["pycapps"; tp; rl] -> Some (cmd_pycapps tp rl)
  | ["pyapply"; tp; rl] -> Some (cmd_pyapply tp rl)
  | _ -> None
