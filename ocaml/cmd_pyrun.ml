(* commands for the whole-run Python model (PyProverModel, PyMachineModel).  Glue only.
     pyrun|<prog>|<cycles>    PyMachineModel.py_run -> kind|marks|rulapp|blanks|flags
                              (the format of py/pyharness17.py `pyrun`; flags: susrul;
                               outside|-|-|-|<why> when the run leaves the additive fragment;
                               exc|-|-|-|exc:<PythonExceptionName> when run() would raise)
     rsrules|<prog>|<cycles>  tpcfgs|rules of the Rust model's prover after run_prover (diagnostic)
     pyrunx|<prog>|<cycles>   the same + |steps|cycles|tpcfgs|rules  (py/pyharness17x.py `pyrunx`)
     pysigc / pyenum / pygetrule / pyminsig: component commands, see below
   rules: the prover's rule table, slots sorted, entries in list order:
     <state>,<colour>=<sig>~<lex><rex>~<rule>;...  joined by spaces *)
open Bbm_model
open Bbm_util

let exc_name = function
  | ExUnknownRule -> "UnknownRule" | ExInfiniteRule -> "InfiniteRule"
  | ExSuspectedRule (_, _) -> "SuspectedRule"
  | ExSecondDiffRule -> "SecondDiffRule" | ExZeroDivision -> "ZeroDivisionError"
  | ExIndexError -> "IndexError" | ExValueError -> "ValueError"
  | ExAssertion -> "AssertionError" | ExUnmodelled -> "UNMODELLED"

let pexc_name = function
  | PeRules e -> exc_name e
  | PeConfigLimit -> "ConfigLimit"
  | PeOverflowError -> "OverflowError"
  | PeUnboundLocal -> "UnboundLocalError"
  | PeOutside _ -> "OUTSIDE"

let why_name = function
  | OwNonAdditive -> "nonadd"
  | OwPastConfigsWrap -> "pastconfigs-i32-wrap"

let kind_name = function
  | PkUndfnd -> "undfnd" | PkSpnout -> "spnout" | PkInfrul -> "infrul"
  | PkXlimit -> "xlimit" | PkCfglim -> "cfglim"

let n_lt a b = match N.compare a b with Lt -> true | _ -> false

let field_of_zblanks (b : (n * z) list) : string =
  let sorted = List.sort (fun (a, _) (c, _) -> if n_lt a c then -1 else if n_lt c a then 1 else 0) b in
  String.concat "," (List.map (fun (s, v) -> string_of_n s ^ ":" ^ string_of_z v) sorted)

let field_of_pyrules (m : ((n * n) * ((signature * (bool * bool)) * rule) list) list) : string =
  let cmp ((s1, c1), _) ((s2, c2), _) =
    if n_lt s1 s2 then -1 else if n_lt s2 s1 then 1
    else if n_lt c1 c2 then -1 else if n_lt c2 c1 then 1 else 0 in
  let entry ((g, (lex, rex)), r) = field_of_sig g ^ "~" ^ b2s lex ^ b2s rex ^ "~" ^ field_of_rule r in
  String.concat " "
    (List.map (fun ((st, co), es) ->
         string_of_n st ^ "," ^ string_of_n co ^ "=" ^ String.concat ";" (List.map entry es))
        (List.sort cmp m))

let cmd_pyrun ext prog lim =
  match py_run (comp_of_text prog) (n_of_string lim) with
  | PyOutside w -> "outside|-|-|-|" ^ why_name w
  | PyCrash e -> "exc|-|-|-|exc:" ^ pexc_name e
  | PyDone r ->
    let flags = (match r.pr_kind with PkCfglim -> ["cfglim"] | _ -> [])
                @ (match r.pr_susrul with Some _ -> ["susrul"] | None -> []) in
    let base = String.concat "|" [
        kind_name r.pr_kind; string_of_n r.pr_marks; string_of_n r.pr_rulapp;
        field_of_zblanks r.pr_blanks; String.concat "," flags ] in
    if not ext then base else
      String.concat "|" [
        base; string_of_z r.pr_steps; string_of_n r.pr_cycles;
        string_of_n r.pr_prover.pp_count; field_of_pyrules r.pr_prover.pp_rules ]

(* diagnostic: the rule table of the RUST model's prover (ProverModel) after
   run_prover, in the same format -- obtained by iterating the extracted
   [prover_body] (run_prover itself does not return its prover) *)
let cmd_rsrules prog lim =
  let comp = comp_of_text prog in
  let lim = int_of_n (n_of_string lim) in
  let rec go i (s : pstate) =
    if i >= lim then Some s
    else match prover_body comp s with
      | Inl s' -> go (i + 1) s'
      | Inr Panic -> None
      | Inr (Ok (_, s')) -> Some s' in
  match go 0 prover_init with
  | None -> "PANIC"
  | Some s -> string_of_n s.ps_prover.pv_count ^ "|" ^ field_of_pyrules s.ps_prover.pv_rules

(* ---------------- component commands (tie of the pieces whole runs rarely reach) ---------------- *)

(* pysigc|<tapeA>|<tapeB>   A.sig_compatible(B.signature)  (PyTapeModel) *)
let cmd_pysigc ta tb =
  b2s (py_sig_compatible (tape_of_field ta) (py_signature (tape_of_field tb)))

let pyexc_name = function
  | ExUnmodelled -> "UNMODELLED"
  | e -> exc_name e

(* pyenum|<tape>|<ops>   EnumTape driven through ops; ops joined by ';':
     S<shift>,<colour>,<skip>   EnumTape.step
     A<rule>                    tm.rules.apply_rule(rule, enum_tape)
     G<index>                   EnumTape.get_count(index)
   one record per op:  <result> <l_offset>,<r_offset> <l_edge><r_edge> <tape>
   an exception ends the stream with the record raise:<Name> *)
let et_record res (et : enum_tape) =
  let (lo, ro) = py_et_offsets et in
  let (le, re) = py_et_edges et in
  String.concat " " [ res; string_of_n lo ^ "," ^ string_of_n ro; b2s le ^ b2s re;
                      field_of_tape (et_erase et) ]

let cmd_pyenum tape_f ops_f =
  let ops = if ops_f = "" then [] else split ';' ops_f in
  let rec go (et : enum_tape) = function
    | [] -> []
    | o :: rest ->
      let arg = String.sub o 1 (String.length o - 1) in
      (match o.[0] with
       | 'S' ->
         (match split ',' arg with
          | [sh; co; sk] ->
            let et' = py_et_step et (sh = "1") (n_of_string co) (sk = "1") in
            et_record "-" et' :: go et' rest
          | _ -> failwith "bad step op")
       | 'A' ->
         (match py_et_apply_rule et (rule_of_field arg) with
          | Raise e -> ["raise:" ^ pyexc_name e]
          | Ret (res, et') ->
            et_record (match res with None -> "none" | Some k -> "some:" ^ string_of_n k) et'
            :: go et' rest)
       | 'G' ->
         (match py_et_get_count et (index_of_field arg) with
          | Raise e -> ["raise:" ^ pyexc_name e]
          | Ret (c, et') -> et_record (string_of_n c) et' :: go et' rest)
       | _ -> failwith "bad enum op") in
  String.concat ";" (go (py_to_enum (tape_of_field tape_f)) ops)

let cc_of_field s =
  let c = n_of_string (String.sub s 1 (String.length s - 1)) in
  if s.[0] = 'J' then Just c else Mult c
let sigspan_of_field s = if s = "" then [] else List.map cc_of_field (split ',' s)
let sig_of_field s : signature =
  match split '/' s with
  | [sc; l; r] -> { sig_scan = n_of_string sc; sig_l = sigspan_of_field l; sig_r = sigspan_of_field r }
  | _ -> failwith "bad signature"

(* <state>,<colour>=<sig>~<lex><rex>~<rule>;...  joined by spaces; loaded with set_rule in this order *)
let prover_of_field (s : string) : py_prover =
  if s = "" then py_prover_new else
    List.fold_left (fun p slot_f ->
        match split '=' slot_f with
        | [key; ents] ->
          let st = n_of_string (List.hd (split ',' key)) in
          List.fold_left (fun p e ->
              match split '~' e with
              | [g; fl; r] ->
                py_set_rule p (rule_of_field r) st (sig_of_field g, (fl.[0] = '1', fl.[1] = '1'))
              | _ -> failwith "bad rule entry") p (split ';' ents)
        | _ -> failwith "bad rules field") py_prover_new (split ' ' s)

(* pygetrule|<rules>|<state>|<tape>   Prover.get_rule(state, tape) *)
let cmd_pygetrule rules_f st tape_f =
  let t = tape_of_field tape_f in
  match py_get_rule (prover_of_field rules_f) (n_of_string st) t.scan (fun () -> py_signature t) with
  | None -> "none"
  | Some r -> "rule:" ^ field_of_rule r

(* pyminsig|<prog>|<rules>|<state>|<tape>|<steps>
   Prover.get_min_sig(steps, state, tape.to_enum(), tape.signature) *)
let cmd_pyminsig prog rules_f st tape_f steps =
  let t = tape_of_field tape_f in
  match py_get_min_sig (comp_of_text prog) (prover_of_field rules_f) (z_of_string steps)
          (n_of_string st) (py_to_enum t) (py_signature t) with
  | PRaise e -> "raise:" ^ pexc_name e
  | PRet (g, (lex, rex)) -> field_of_sig g ^ "~" ^ b2s lex ^ b2s rex

(* ---------------- the guard of the whole-run theorem (Proofs/PyRunAgree.v) ---------------- *)

(* pyguard|<prog>|<cycles>  ->  1  when PyRunAgree.run_inside holds (then theorem
   C17_py_rs_run_agree applies to this run), else 0|<cycle>|<reason>.
   The VERDICT is the extracted [run_inside]; the reason is a diagnostic found by
   re-evaluating the parts of [iter_inside] at the first iteration where it fails
   (labels D1..D6 as in Proofs/PyRunAgree.v). *)
let z_le a b = match Z.compare a b with Gt -> false | _ -> true
let z90000 = z_of_string "90000"
let n2_31 = n_of_string "2147483648"

let why_try comp (pp : py_prover) cyc st (t : tape) : string =
  let sg = py_signature t in
  match py_get_rule pp st t.scan (fun () -> sg) with
  | Some _ -> "?known-rule"
  | None ->
    (match cfg_get pp.pp_configs sg with
     | None -> "?new-config"
     | Some pcs ->
       (match pcs_next_deltas pcs st (Z.of_N cyc) with
        | Panic | Ok (None, _) -> "?no-deltas"
        | Ok (Some ((d1, d2), d3), pcs1) ->
          if not (z_le d1 z90000 && z_le d2 z90000 && z_le d3 z90000) then "D1:delta>90000" else
          let p1 = { pp_rules = pp.pp_rules; pp_configs = cfg_set pp.pp_configs sg pcs1;
                     pp_count = pp.pp_count } in
          let round d tags =
            if not (sim_inside comp p1 (Z.to_N d) st tags) then Some "D5:count>=2^31 inside a confirmation run"
            else if not (round_inside comp p1 st sg d tags) then
              (match py_run_simulator comp p1 d st tags with
               | PRet (Some (_, tags')) ->
                 if not (tape_small tags') then Some "D5:count>=2^31 after a confirmation run"
                 else
                   (* what the two try_rule calls answer in spite of the different sig_compatible *)
                   let rs = (match try_rule comp (rs_view pp) cyc st t with
                       | Panic -> "panic" | Ok (None, _) -> "none" | Ok (Some (Got _), _) -> "rule"
                       | Ok (Some InfiniteRule, _) -> "infrul" | Ok (Some MultRule, _) -> "mulrul"
                       | Ok (Some ConfigLimit, _) -> "cfglim") in
                   let py = (match fst (py_try_rule comp pp cyc st t) with
                       | PRet None -> "none" | PRet (Some _) -> "rule"
                       | PRaise (PeRules ExInfiniteRule) -> "infrul" | PRaise _ -> "raise") in
                   Some ("D2:sig_compatible (span lengths) [this call: rust " ^ rs ^ ", python " ^ py ^ "]")
               | _ -> Some "?round")
            else None in
          let next d tags k =
            match round d tags with
            | Some w -> w
            | None -> (match py_sim_round comp p1 st sg d tags with
                | PRet (Some tags') -> k tags'
                | _ -> "?round-ended") in
          next d1 t (fun t1 -> next d2 t1 (fun t2 -> next d3 t2 (fun t3 ->
              match py_make_rule_raw (py_counts t) (py_counts t1) (py_counts t2) (py_counts t3) with
              | Raise (ExSuspectedRule (_, _)) | Ret None -> "?make-rule"
              | Raise _ -> "X:make_rule raises"
              | Ret (Some (rule, sd)) ->
                if sd then "D3:second-difference column" else
                if py_all_nonneg rule || py_has_mult rule || py_same_abs_exclusion rule t then "?rule"
                else "D4:min-signature (get_count registers)")))))

let cmd_pyguard prog lim =
  let comp = comp_of_text prog in
  let limn = n_of_string lim in
  if run_inside comp limn then "1" else begin
    let lim = int_of_n limn in
    let rec go i (m : py_machine) =
      if i >= lim then "0|" ^ string_of_int i ^ "|?not-found"
      else if not (iter_inside comp m) then
        "0|" ^ string_of_int i ^ "|" ^
        (if not (tape_small m.pm_tape) then "D5:count>=2^31 on the tape"
         else if not (n_lt m.pm_cycle n2_31) then "D6:cycle>=2^31"
         else why_try comp m.pm_prover m.pm_cycle m.pm_state m.pm_tape)
      else match py_body comp m with
        | Inl m' -> go (i + 1) m'
        | Inr _ -> "0|" ^ string_of_int i ^ "|?ended" in
    go 0 py_machine_init
  end

let dispatch (fields : string list) : string option =
  match fields with
  | ["pyguard"; prog; lim] -> Some (cmd_pyguard prog lim)
  | ["pysigc"; ta; tb] -> Some (cmd_pysigc ta tb)
  | ["pyenum"; tp; ops] -> Some (cmd_pyenum tp ops)
  | ["pygetrule"; rl; st; tp] -> Some (cmd_pygetrule rl st tp)
  | ["pyminsig"; prog; rl; st; tp; steps] -> Some (cmd_pyminsig prog rl st tp steps)
  | ["rsrules"; prog; lim] -> Some (cmd_rsrules prog lim)
  | ["pyrun"; prog; lim] -> Some (cmd_pyrun false prog lim)
  | ["pyrunx"; prog; lim] -> Some (cmd_pyrun true prog lim)
  | _ -> None
