(* commands for the segment model *)
open Bbm_model
open Bbm_util

let string_of_sg_result = function
  | SgrHalt -> "halt"
  | SgrBlank -> "blank"
  | SgrRepeat -> "repeat"
  | SgrSpinout -> "spinout"
  | SgrDepthLimit -> "depth_limit"
  | SgrSegmentLimit -> "segment_limit"
  | SgrRefuted step -> "refuted:" ^ string_of_n step

let params_of_field (s : string) : n * n =
  match split ',' s with
  | [a; b] -> (n_of_string a, n_of_string b)
  | _ -> failwith "bad params"

(* id|seg|<goal>|<prog>|<S>,<C>|<segs> *)
let cmd_seg goal prog params segs =
  let p = comp_of_text prog in
  let pr = params_of_field params in
  let sg = n_of_string segs in
  let f = match goal with
    | "halt" -> sg_seg_cant_halt
    | "blank" -> sg_seg_cant_blank
    | "spin" -> sg_seg_cant_spin_out
    | _ -> failwith "bad goal" in
  string_of_sg_result (unwrap (f p pr sg))

(* id|segpy|<goal>|<prog>|<segs> *)
let cmd_segpy goal prog segs =
  let p = comp_of_text prog in
  let sg = n_of_string segs in
  let f = match goal with
    | "halt" -> sg_py_segment_cant_halt
    | "blank" -> sg_py_segment_cant_blank
    | "spin" -> sg_py_segment_cant_spin_out
    | _ -> failwith "bad goal" in
  string_of_sg_result (unwrap (f p sg))

let dispatch (fields : string list) : string option =
  match fields with
  | ["seg"; goal; prog; params; segs] -> Some (cmd_seg goal prog params segs)
  | ["segpy"; goal; prog; segs] -> Some (cmd_segpy goal prog segs)
  | _ -> None
