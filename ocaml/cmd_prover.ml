(* commands for the prover model *)
open Bbm_model
open Bbm_util

(* same as Cmd_core.field_of_mresult *)
let field_of_mresult (r : mresult) =
  String.concat "|" [ string_of_termres r.r_result; string_of_n r.r_steps;
                      string_of_n r.r_cycles; string_of_n r.r_marks; string_of_n r.r_rulapp;
                      field_of_oslot r.r_last_slot; field_of_blanks r.r_blanks ]

let app_record (a : rule_app) : string =
  String.concat " " [ string_of_n a.app_cycle; string_of_n a.app_state;
                      field_of_tape a.app_before; field_of_rule a.app_rule;
                      string_of_n a.app_times; field_of_tape a.app_after ]

let cmd_prover trace prog lim =
  let (r, apps) = unwrap (run_prover_trace (comp_of_text prog) (n_of_string lim)) in
  let recs = String.concat ";" (List.map app_record apps) in
  field_of_mresult r ^ "|" ^ string_of_int (List.length apps) ^ "|" ^ fnv recs
  ^ (if trace then "|" ^ recs else "")

(* proverrules|prog|lim -> <n>|<hash>|<slot sig lex rex rule;...>: the stored rules at the end of the run *)
let cmd_proverrules prog lim =
  let rm = unwrap (run_prover_rules (comp_of_text prog) (n_of_string lim)) in
  let recs = List.concat_map (fun ((slot : slot), rs) ->
      List.map (fun (((g : signature), (lex, rex)), (r : rule)) ->
          String.concat " " [ string_of_n (fst slot) ^ "," ^ string_of_n (snd slot); field_of_sig g;
                              b2s lex ^ b2s rex; field_of_rule r ]) rs) rm in
  let txt = String.concat ";" recs in
  string_of_int (List.length recs) ^ "|" ^ fnv txt ^ "|" ^ txt

(* Diagnostic: at which site does the model panic?  Replays the main loop with
   the extracted [prover_body] and classifies the Panic by re-evaluating the parts
   of that iteration; the labels are the Rust source locations of the
   corresponding panics (compared with the harness command of the same name). *)
let cmd_proverwhy prog lim =
  let comp = comp_of_text prog in
  let lim = int_of_n (n_of_string lim) in
  let big x = N.ltb u64_max x in
  let step_site (q : qstate) =
    let q' = (match quick_body comp q with Inl q' -> q' | Inr (_, q') -> q') in
    let stepped = N.sub q'.q_steps q.q_steps in
    if big stepped then "tape.rs:173"
    else if big (head_count q'.q_tape.lspan) || big (head_count q'.q_tape.rspan) then "tape.rs:65"
    else if big q'.q_steps then "machine.rs:275"
    else "?step" in
  let classify (s : pstate) =
    let q = s.ps_q in
    match try_rule comp s.ps_prover q.q_cycle q.q_state q.q_tape with
    | Panic -> "prover.rs:try_rule"
    | Ok (res, _) ->
      (match res with
       | Some (Got r) ->
         (match apply_rule q.q_tape r with
          | Panic -> "rules.rs:apply_rule"
          | Ok (Some times, _) -> if big (N.add s.ps_rulapp times) then "machine.rs:244" else "?apply"
          | Ok (None, _) -> step_site q)
       | Some _ -> "?result"
       | None -> step_site q) in
  let napps (s : pstate) = string_of_int (List.length s.ps_apps) in
  let fin s x = (match finish_prover s x with
      | Panic -> "PANIC napps=" ^ napps s ^ " at marks"
      | Ok _ -> "ok napps=" ^ napps s) in
  let rec go i (s : pstate) =
    if i >= lim then fin s (Inl s.ps_q)
    else match prover_body comp s with
      | Inl s' -> go (i + 1) s'
      | Inr Panic ->
        let site = classify s in
        (* the hook records the application before [rulapp += times] overflows *)
        let n = List.length s.ps_apps + (if site = "machine.rs:244" then 1 else 0) in
        "PANIC napps=" ^ string_of_int n ^ " at " ^ site
      | Inr (Ok (((res, cyc), ls), s')) -> fin s' (Inr (((res, cyc), ls), s'.ps_q)) in
  go 0 prover_init

(* verified symbolic rule checker (Model/SymRule.v, Proofs/SymRuleSound.v) *)
let rec nat_of_int (i : int) : nat = if i <= 0 then O else S (nat_of_int (i - 1))
let field_of_bounds ((l, r) : bounds) = field_of_nlist l ^ "/" ^ field_of_nlist r
let bounds_of_field s : bounds = counts_of_field s
let why_of_code c = match int_of_n c with
  | 1 | 3 -> "negcount" | 2 -> "two-unknowns" | 10 -> "cycles" | 11 -> "halts" | 12 -> "spinout"
  | 20 -> "badrule" | 21 -> "restarts" | 22 -> "depth" | k -> "code" ^ string_of_int k
let mask_of_mode mode t0 = match mode with
  | "all" -> mask_all | "sig" -> mask_sig t0 | _ -> failwith "bad mode"
let field_of_mask ((l, r) : smask) =
  String.concat "" (List.map b2s l) ^ "/" ^ String.concat "" (List.map b2s r)
(* answers  cert:<cycles>:<req>:<all|sig|above>:<detail>   or   nocert:<why>:<req reached>
   all / sig : the verified case split [cover] succeeds from the guard of rules.rs (mode all: every
               block an unknown >= 1; mode sig: blocks of count 1 pinned, the others >= 2): detail =
               number of certificates used
   above     : certified for counts >= req only; detail = first boundary case that fails
               (tape with the pinned counts; mask, 0 = pinned; why; requirement reached) *)
let cmd_symrule prog q before rule cycles mode restarts =
  let t0 = tape_of_field before in
  let r = rule_of_field rule in
  let comp = comp_of_text prog and q = n_of_string q in
  let m = mask_of_mode mode t0 in
  let cy = nat_of_int (int_of_string cycles) and rs = nat_of_int (int_of_string restarts) in
  match check_rule comp q t0 r m cy rs with
  | CCert (n, req) ->
    let g = guard_bounds (n_of_int (if mode = "all" then 1 else 2)) m r t0 in
    let tail = (match cover_diag comp q r cy rs g (nat_of_int 8) m t0 with
        | CvOk k ->
          (* the verified boolean agrees by construction; it is what the theorem is about *)
          if (if mode = "all" then cover comp q r cy rs g (nat_of_int 8) m t0
              else cover_sig comp q r cy rs (nat_of_int 8) t0)
          then mode ^ ":" ^ string_of_n k else "above:diag-mismatch"
        | CvFail (m', t', w, req') ->
          "above:" ^ field_of_tape t' ^ ";" ^ field_of_mask m' ^ ";" ^ why_of_code w ^ ";" ^ field_of_bounds req') in
    "cert:" ^ string_of_n n ^ ":" ^ field_of_bounds req ^ ":" ^ tail
  | CNo (w, req) -> "nocert:" ^ why_of_code w ^ ":" ^ field_of_bounds req
(* symcert|prog|state|tape|rule[|cycles[|mode[|restarts]]]   (mode: sig (default) | all)
     -> cert|<cycles per application>|<free_l>/<free_r>|<T_l>/<T_r>|<complete|above>
        free: 1 = the block is an unknown, 0 = pinned to its count in <tape>
        T   : threshold of every block (0 for a pinned block)
        THEOREM C03_check_rule_sound: one application of the rule in <state> is a run of >= 1
        real steps on EVERY canonical tape t with the colours of <tape>, whose pinned blocks have
        the counts of <tape> and whose other blocks ALL have count >= T (not only the decreasing ones)
        complete: moreover the verified case split closes the gap between the guard of rules.rs
                  and T (C03_cover_rule_valid for mode all; C03_cover_sig_apply_sound for mode sig)
     -> nocert|<reason>|<thresholds reached> *)
let cmd_symcert prog q before rule cycles mode restarts =
  let t0 = tape_of_field before in
  let r = rule_of_field rule in
  let comp = comp_of_text prog and q = n_of_string q in
  let m = mask_of_mode mode t0 in
  let cy = nat_of_int (int_of_string cycles) and rs = nat_of_int (int_of_string restarts) in
  let free sd s = String.concat "" (List.mapi (fun i _ -> b2s (mask_get m (sd, nat_of_int i))) s) in
  match check_rule comp q t0 r m cy rs with
  | CCert (n, req) ->
    let complete =
      if mode = "all" then cover comp q r cy rs (guard_bounds (n_of_int 1) m r t0) (nat_of_int 8) m t0
      else cover_sig comp q r cy rs (nat_of_int 8) t0 in
    String.concat "|" [ "cert"; string_of_n n; free false t0.lspan ^ "/" ^ free true t0.rspan;
                        field_of_bounds req; (if complete then "complete" else "above") ]
  | CNo (w, req) -> "nocert|" ^ why_of_code w ^ "|" ^ field_of_bounds req
(* symsplit|mode|<T_l>/<T_r>|tape of the certificate|tape before|rule|times
     -> <K>|<tape before + K.rule>     K = number of leading single applications that start
        above the threshold (theorem C03_apply_split_above: real run up to that tape) *)
let cmd_symsplit mode req before0 before rule times =
  let t0 = tape_of_field before0 and t = tape_of_field before in
  let r = rule_of_field rule in
  let k = max_covered (mask_of_mode mode t0) (bounds_of_field req) t0 t r (n_of_string times) in
  string_of_n k ^ "|" ^ field_of_tape (shift_tape_N r k t)
let cmd_symcover mode req before0 before rule times =
  let t0 = tape_of_field before0 in
  b2s (app_covered (mask_of_mode mode t0) (bounds_of_field req) t0 (tape_of_field before)
         (rule_of_field rule) (n_of_string times))

let dispatch (fields : string list) : string option =
  match fields with
  | ["prover"; prog; lim] -> Some (cmd_prover false prog lim)
  | ["provertrace"; prog; lim] -> Some (cmd_prover true prog lim)
  | ["proverwhy"; prog; lim] -> Some (cmd_proverwhy prog lim)
  | ["proverrules"; prog; lim] -> Some (cmd_proverrules prog lim)
  | ["symrule"; prog; q; before; rule; cycles] -> Some (cmd_symrule prog q before rule cycles "all" "64")
  | ["symrule"; prog; q; before; rule; cycles; mode] -> Some (cmd_symrule prog q before rule cycles mode "64")
  | ["symrule"; prog; q; before; rule; cycles; mode; restarts] ->
    Some (cmd_symrule prog q before rule cycles mode restarts)
  | ["symcert"; prog; q; before; rule] -> Some (cmd_symcert prog q before rule "2000" "sig" "64")
  | ["symcert"; prog; q; before; rule; cycles] -> Some (cmd_symcert prog q before rule cycles "sig" "64")
  | ["symcert"; prog; q; before; rule; cycles; mode] -> Some (cmd_symcert prog q before rule cycles mode "64")
  | ["symcert"; prog; q; before; rule; cycles; mode; restarts] ->
    Some (cmd_symcert prog q before rule cycles mode restarts)
  | ["symsplit"; mode; req; before0; before; rule; times] ->
    Some (cmd_symsplit mode req before0 before rule times)
  | ["symcover"; mode; req; before0; before; rule; times] ->
    Some (cmd_symcover mode req before0 before rule times)
  | _ -> None
