(* commands for the prover model *)
open Bbm_model
open Bbm_util

(* same as Cmd_core.field_of_mresult *)
let field_of_mresult (r : mresult) =
  String.concat "|" [ string_of_termres r.r_result; string_of_n r.r_steps;
                      string_of_n r.r_cycles; string_of_n r.r_marks; string_of_n r.r_rulapp;
                      field_of_oslot r.r_last_slot; field_of_blanks r.r_blanks ]

let app_record (a : rule_app) : string =
  String.concat " " [ string_of_n a.app_cycle; string_of_n a.app_state;
                      field_of_tape a.app_before; field_of_rule a.app_rule;
                      string_of_n a.app_times; field_of_tape a.app_after ]

let cmd_prover trace prog lim =
  let (r, apps) = unwrap (run_prover_trace (comp_of_text prog) (n_of_string lim)) in
  let recs = String.concat ";" (List.map app_record apps) in
  field_of_mresult r ^ "|" ^ string_of_int (List.length apps) ^ "|" ^ fnv recs
  ^ (if trace then "|" ^ recs else "")

(* Diagnostic: at which site does the model panic?  Replays the main loop with
   the extracted [prover_body] and classifies the Panic by re-evaluating the parts
   of that iteration; the labels are the Rust source locations of the
   corresponding panics (compared with the harness command of the same name). *)
let cmd_proverwhy prog lim =
  let comp = comp_of_text prog in
  let lim = int_of_n (n_of_string lim) in
  let big x = N.ltb u64_max x in
  let step_site (q : qstate) =
    let q' = (match quick_body comp q with Inl q' -> q' | Inr (_, q') -> q') in
    let stepped = N.sub q'.q_steps q.q_steps in
    if big stepped then "tape.rs:173"
    else if big (head_count q'.q_tape.lspan) || big (head_count q'.q_tape.rspan) then "tape.rs:65"
    else if big q'.q_steps then "machine.rs:275"
    else "?step" in
  let classify (s : pstate) =
    let q = s.ps_q in
    match try_rule comp s.ps_prover q.q_cycle q.q_state q.q_tape with
    | Panic -> "prover.rs:try_rule"
    | Ok (res, _) ->
      (match res with
       | Some (Got r) ->
         (match apply_rule q.q_tape r with
          | Panic -> "rules.rs:apply_rule"
          | Ok (Some times, _) -> if big (N.add s.ps_rulapp times) then "machine.rs:244" else "?apply"
          | Ok (None, _) -> step_site q)
       | Some _ -> "?result"
       | None -> step_site q) in
  let napps (s : pstate) = string_of_int (List.length s.ps_apps) in
  let fin s x = (match finish_prover s x with
      | Panic -> "PANIC napps=" ^ napps s ^ " at marks"
      | Ok _ -> "ok napps=" ^ napps s) in
  let rec go i (s : pstate) =
    if i >= lim then fin s (Inl s.ps_q)
    else match prover_body comp s with
      | Inl s' -> go (i + 1) s'
      | Inr Panic ->
        let site = classify s in
        (* the hook records the application before [rulapp += times] overflows *)
        let n = List.length s.ps_apps + (if site = "machine.rs:244" then 1 else 0) in
        "PANIC napps=" ^ string_of_int n ^ " at " ^ site
      | Inr (Ok (((res, cyc), ls), s')) -> fin s' (Inr (((res, cyc), ls), s'.ps_q)) in
  go 0 prover_init

let dispatch (fields : string list) : string option =
  match fields with
  | ["prover"; prog; lim] -> Some (cmd_prover false prog lim)
  | ["provertrace"; prog; lim] -> Some (cmd_prover true prog lim)
  | ["proverwhy"; prog; lim] -> Some (cmd_proverwhy prog lim)
  | _ -> None
