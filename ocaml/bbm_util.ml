(* bbm_util: number/string/field conversion shared by all command modules. Glue only. *)
open Bbm_model

(* ---------- number conversion ---------- *)
let rec pos_of_int (i : int) : positive =
  if i = 1 then XH
  else if i land 1 = 0 then XO (pos_of_int (i lsr 1))
  else XI (pos_of_int (i lsr 1))
let n_of_int (i : int) : n = if i = 0 then N0 else Npos (pos_of_int i)
let rec int_of_pos (p : positive) : int =
  match p with XH -> 1 | XO q -> 2 * int_of_pos q | XI q -> 2 * int_of_pos q + 1
let rec pos_bits = function XH -> 1 | XO q | XI q -> 1 + pos_bits q
let n_fits = function N0 -> true | Npos p -> pos_bits p <= 61
let int_of_n = function N0 -> 0 | Npos p -> int_of_pos p
let n10_18 = n_of_int 1_000_000_000_000_000_000
let rec string_of_n (x : n) : string =
  if n_fits x then string_of_int (int_of_n x)
  else
    let (q, r) = N.div_eucl x n10_18 in
    string_of_n q ^ Printf.sprintf "%018d" (int_of_n r)
let n_of_string (s : string) : n =
  let s = String.trim s in
  if String.length s <= 18 then n_of_int (int_of_string s)
  else begin
    (* Horner in chunks of 18 digits *)
    let len = String.length s in
    let first = len mod 18 in
    let acc = ref (if first = 0 then N0 else n_of_int (int_of_string (String.sub s 0 first))) in
    let i = ref first in
    while !i < len do
      acc := N.add (N.mul !acc n10_18) (n_of_int (int_of_string (String.sub s !i 18)));
      i := !i + 18
    done;
    !acc
  end
let string_of_z = function
  | Z0 -> "0" | Zpos p -> string_of_n (Npos p) | Zneg p -> "-" ^ string_of_n (Npos p)
let z_of_string (s : string) : z =
  let s = String.trim s in
  if String.length s > 0 && s.[0] = '-' then
    (match n_of_string (String.sub s 1 (String.length s - 1)) with N0 -> Z0 | Npos p -> Zneg p)
  else if String.length s > 0 && s.[0] = '+' then
    (match n_of_string (String.sub s 1 (String.length s - 1)) with N0 -> Z0 | Npos p -> Zpos p)
  else (match n_of_string s with N0 -> Z0 | Npos p -> Zpos p)

(* ---------- strings ---------- *)
let str_of_string (s : string) : n list =
  List.init (String.length s) (fun i -> n_of_int (Char.code s.[i]))
let string_of_str (l : n list) : string =
  let b = Buffer.create 64 in
  List.iter (fun c -> let i = int_of_n c in
              if i < 128 then Buffer.add_char b (Char.chr i)
              else Buffer.add_string b (Printf.sprintf "\\u{%x}" i)) l;
  Buffer.contents b
let cps_of_field (s : string) : n list =
  if s = "" then [] else List.map n_of_string (String.split_on_char ',' s)
let field_of_cps (l : n list) : string = String.concat "," (List.map string_of_n l)

let split c s = String.split_on_char c s
let b2s b = if b then "1" else "0"

(* ---------- FNV-1a 64 ---------- *)
let fnv (s : string) : string =
  let h = ref 0xcbf29ce484222325L in
  String.iter (fun ch ->
      h := Int64.logxor !h (Int64.of_int (Char.code ch));
      h := Int64.mul !h 0x100000001b3L) s;
  Printf.sprintf "%016Lx" !h

(* ---------- tapes ---------- *)
let span_of_field (s : string) : span =
  if s = "" then [] else
    List.map (fun b -> match split ':' b with
        | [c; n] -> (n_of_string c, n_of_string n)
        | _ -> failwith "bad block") (split ',' s)
let tape_of_field (s : string) : tape =
  match split '/' s with
  | [sc; l; r] -> { scan = n_of_string sc; lspan = span_of_field l; rspan = span_of_field r }
  | _ -> failwith "bad tape"
let field_of_span (s : span) : string =
  String.concat "," (List.map (fun (c, n) -> string_of_n c ^ ":" ^ string_of_n n) s)
let field_of_tape (t : tape) : string =
  string_of_n t.scan ^ "/" ^ field_of_span t.lspan ^ "/" ^ field_of_span t.rspan
let field_of_cc = function Just c -> "J" ^ string_of_n c | Mult c -> "M" ^ string_of_n c
let field_of_sig (g : signature) : string =
  string_of_n g.sig_scan ^ "/" ^ String.concat "," (List.map field_of_cc g.sig_l)
  ^ "/" ^ String.concat "," (List.map field_of_cc g.sig_r)
let field_of_nlist l = String.concat "," (List.map string_of_n l)
let nlist_of_field s = if s = "" then [] else List.map n_of_string (split ',' s)

(* ---------- programs ---------- *)
exception Model_panic
let comp_of_text (s : string) : comp_prog =
  match from_str (str_of_string s) with Some p -> p | None -> raise Model_panic
let field_of_slot (s, c) = string_of_n s ^ "," ^ string_of_n c
let field_of_oslot = function None -> "-" | Some sl -> field_of_slot sl
let field_of_instr ((co, sh), tr) = string_of_n co ^ "," ^ b2s sh ^ "," ^ string_of_n tr
let field_of_comp (p : comp_prog) : string =
  String.concat ";" (List.map (fun (sl, i) -> field_of_slot sl ^ "=" ^ field_of_instr i) p)
let comp_of_field (s : string) : comp_prog =
  if s = "" then [] else
    List.fold_left (fun acc e ->
        match split '=' e with
        | [sl; i] ->
          (match split ',' sl, split ',' i with
           | [st; co], [pr; sh; tr] ->
             cp_insert (n_of_string st, n_of_string co)
               ((n_of_string pr, sh = "1"), n_of_string tr) acc
           | _ -> failwith "bad entry")
        | _ -> failwith "bad entry") [] (split ';' s)
let field_of_blanks b =
  String.concat "," (List.map (fun (s, n) -> string_of_n s ^ ":" ^ string_of_n n) b)
let string_of_termres = function
  | Xlimit -> "xlimit" | Cfglim -> "cfglim" | Infrul -> "infrul"
  | Spnout -> "spnout" | Undfnd -> "undfnd" | Mulrul -> "mulrul"

(* ---------- rules ---------- *)
let field_of_op = function
  | Plus d -> (match d with Zneg _ -> string_of_z d | _ -> "+" ^ string_of_z d)
  | MultOp (q, r) -> "*" ^ string_of_z q ^ "_" ^ string_of_z r
let field_of_index (side, pos) = (if side then "R" else "L") ^ string_of_n pos
let field_of_rule (r : rule) : string =
  String.concat "," (List.map (fun (ix, o) -> field_of_index ix ^ ":" ^ field_of_op o) r)
let index_of_field s = (s.[0] = 'R', n_of_string (String.sub s 1 (String.length s - 1)))
let rule_of_field (s : string) : rule =
  if s = "" then [] else
    List.map (fun e -> match split ':' e with
        | [ix; o] ->
          let o' = if o.[0] = '*' then
              (match split '_' (String.sub o 1 (String.length o - 1)) with
               | [q; r] -> MultOp (z_of_string q, z_of_string r)
               | _ -> failwith "bad op")
            else Plus (z_of_string o) in
          (index_of_field ix, o')
        | _ -> failwith "bad rule") (split ',' s)
let counts_of_field s =
  match split '/' s with
  | [l; r] -> (nlist_of_field l, nlist_of_field r)
  | _ -> failwith "bad counts"


let unwrap = function Panic -> raise Model_panic | Ok a -> a
