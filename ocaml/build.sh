#!/bin/sh
# builds /verif/ocaml/bbm from the extracted model
set -e
mkdir -p /verif/ocaml/gen
cd /verif/ocaml/gen
coqc -Q /verif/coq BB /verif/coq/Extract.v > extract.log 2>&1
cp ../bbm.ml .
ocamlfind ocamlopt -O3 -w -a -o ../bbm bbm_model.mli bbm_model.ml bbm.ml 2>/dev/null \
  || ocamlfind ocamlopt -w -a -o ../bbm bbm_model.mli bbm_model.ml bbm.ml
