(* bbm: runs the extracted Coq models on case lines (stdin) and prints one
   canonical answer line per case (stdout).  Glue only: parsing, printing.
   Protocol: see DESIGN.md Appendix B / lib/protocol.md. *)
open Bbm_model

(* ---------- number conversion ---------- *)
let rec pos_of_int (i : int) : positive =
  if i = 1 then XH
  else if i land 1 = 0 then XO (pos_of_int (i lsr 1))
  else XI (pos_of_int (i lsr 1))
let n_of_int (i : int) : n = if i = 0 then N0 else Npos (pos_of_int i)
let rec int_of_pos (p : positive) : int =
  match p with XH -> 1 | XO q -> 2 * int_of_pos q | XI q -> 2 * int_of_pos q + 1
let rec pos_bits = function XH -> 1 | XO q | XI q -> 1 + pos_bits q
let n_fits = function N0 -> true | Npos p -> pos_bits p <= 61
let int_of_n = function N0 -> 0 | Npos p -> int_of_pos p
let n10_18 = n_of_int 1_000_000_000_000_000_000
let rec string_of_n (x : n) : string =
  if n_fits x then string_of_int (int_of_n x)
  else
    let (q, r) = N.div_eucl x n10_18 in
    string_of_n q ^ Printf.sprintf "%018d" (int_of_n r)
let n_of_string (s : string) : n =
  let s = String.trim s in
  if String.length s <= 18 then n_of_int (int_of_string s)
  else begin
    (* Horner in chunks of 18 digits *)
    let len = String.length s in
    let first = len mod 18 in
    let acc = ref (if first = 0 then N0 else n_of_int (int_of_string (String.sub s 0 first))) in
    let i = ref first in
    while !i < len do
      acc := N.add (N.mul !acc n10_18) (n_of_int (int_of_string (String.sub s !i 18)));
      i := !i + 18
    done;
    !acc
  end
let string_of_z = function
  | Z0 -> "0" | Zpos p -> string_of_n (Npos p) | Zneg p -> "-" ^ string_of_n (Npos p)
let z_of_string (s : string) : z =
  let s = String.trim s in
  if String.length s > 0 && s.[0] = '-' then
    (match n_of_string (String.sub s 1 (String.length s - 1)) with N0 -> Z0 | Npos p -> Zneg p)
  else if String.length s > 0 && s.[0] = '+' then
    (match n_of_string (String.sub s 1 (String.length s - 1)) with N0 -> Z0 | Npos p -> Zpos p)
  else (match n_of_string s with N0 -> Z0 | Npos p -> Zpos p)

(* ---------- strings ---------- *)
let str_of_string (s : string) : n list =
  List.init (String.length s) (fun i -> n_of_int (Char.code s.[i]))
let string_of_str (l : n list) : string =
  let b = Buffer.create 64 in
  List.iter (fun c -> let i = int_of_n c in
              if i < 128 then Buffer.add_char b (Char.chr i)
              else Buffer.add_string b (Printf.sprintf "\\u{%x}" i)) l;
  Buffer.contents b
let cps_of_field (s : string) : n list =
  if s = "" then [] else List.map n_of_string (String.split_on_char ',' s)
let field_of_cps (l : n list) : string = String.concat "," (List.map string_of_n l)

let split c s = String.split_on_char c s
let b2s b = if b then "1" else "0"

(* ---------- FNV-1a 64 ---------- *)
let fnv (s : string) : string =
  let h = ref 0xcbf29ce484222325L in
  String.iter (fun ch ->
      h := Int64.logxor !h (Int64.of_int (Char.code ch));
      h := Int64.mul !h 0x100000001b3L) s;
  Printf.sprintf "%016Lx" !h

(* ---------- tapes ---------- *)
let span_of_field (s : string) : span =
  if s = "" then [] else
    List.map (fun b -> match split ':' b with
        | [c; n] -> (n_of_string c, n_of_string n)
        | _ -> failwith "bad block") (split ',' s)
let tape_of_field (s : string) : tape =
  match split '/' s with
  | [sc; l; r] -> { scan = n_of_string sc; lspan = span_of_field l; rspan = span_of_field r }
  | _ -> failwith "bad tape"
let field_of_span (s : span) : string =
  String.concat "," (List.map (fun (c, n) -> string_of_n c ^ ":" ^ string_of_n n) s)
let field_of_tape (t : tape) : string =
  string_of_n t.scan ^ "/" ^ field_of_span t.lspan ^ "/" ^ field_of_span t.rspan
let field_of_cc = function Just c -> "J" ^ string_of_n c | Mult c -> "M" ^ string_of_n c
let field_of_sig (g : signature) : string =
  string_of_n g.sig_scan ^ "/" ^ String.concat "," (List.map field_of_cc g.sig_l)
  ^ "/" ^ String.concat "," (List.map field_of_cc g.sig_r)
let field_of_nlist l = String.concat "," (List.map string_of_n l)
let nlist_of_field s = if s = "" then [] else List.map n_of_string (split ',' s)

(* ---------- programs ---------- *)
exception Model_panic
let comp_of_text (s : string) : comp_prog =
  match from_str (str_of_string s) with Some p -> p | None -> raise Model_panic
let field_of_slot (s, c) = string_of_n s ^ "," ^ string_of_n c
let field_of_oslot = function None -> "-" | Some sl -> field_of_slot sl
let field_of_instr ((co, sh), tr) = string_of_n co ^ "," ^ b2s sh ^ "," ^ string_of_n tr
let field_of_comp (p : comp_prog) : string =
  String.concat ";" (List.map (fun (sl, i) -> field_of_slot sl ^ "=" ^ field_of_instr i) p)
let comp_of_field (s : string) : comp_prog =
  if s = "" then [] else
    List.fold_left (fun acc e ->
        match split '=' e with
        | [sl; i] ->
          (match split ',' sl, split ',' i with
           | [st; co], [pr; sh; tr] ->
             cp_insert (n_of_string st, n_of_string co)
               ((n_of_string pr, sh = "1"), n_of_string tr) acc
           | _ -> failwith "bad entry")
        | _ -> failwith "bad entry") [] (split ';' s)
let field_of_blanks b =
  String.concat "," (List.map (fun (s, n) -> string_of_n s ^ ":" ^ string_of_n n) b)
let string_of_termres = function
  | Xlimit -> "xlimit" | Cfglim -> "cfglim" | Infrul -> "infrul"
  | Spnout -> "spnout" | Undfnd -> "undfnd" | Mulrul -> "mulrul"

(* ---------- rules ---------- *)
let field_of_op = function
  | Plus d -> (match d with Zneg _ -> string_of_z d | _ -> "+" ^ string_of_z d)
  | MultOp (q, r) -> "*" ^ string_of_z q ^ "_" ^ string_of_z r
let field_of_index (side, pos) = (if side then "R" else "L") ^ string_of_n pos
let field_of_rule (r : rule) : string =
  String.concat "," (List.map (fun (ix, o) -> field_of_index ix ^ ":" ^ field_of_op o) r)
let index_of_field s = (s.[0] = 'R', n_of_string (String.sub s 1 (String.length s - 1)))
let rule_of_field (s : string) : rule =
  if s = "" then [] else
    List.map (fun e -> match split ':' e with
        | [ix; o] ->
          let o' = if o.[0] = '*' then
              (match split '_' (String.sub o 1 (String.length o - 1)) with
               | [q; r] -> MultOp (z_of_string q, z_of_string r)
               | _ -> failwith "bad op")
            else Plus (z_of_string o) in
          (index_of_field ix, o')
        | _ -> failwith "bad rule") (split ',' s)
let counts_of_field s =
  match split '/' s with
  | [l; r] -> (nlist_of_field l, nlist_of_field r)
  | _ -> failwith "bad counts"

(* ---------- commands ---------- *)
let tape_record (prev_sig : signature) (t : tape) (stepped : n) : string =
  let (cl, cr) = counts t in
  let (ll, rl) = span_lens t in
  String.concat " " [
    string_of_n stepped; field_of_tape t; string_of_n (marks t); b2s (blank t);
    b2s (at_edge t false); b2s (at_edge t true); string_of_n (blocks t);
    field_of_nlist cl ^ "/" ^ field_of_nlist cr;
    string_of_n ll ^ "," ^ string_of_n rl;
    field_of_sig (tape_sig t); b2s (sig_compatible t prev_sig);
    string_of_str (show_tape t);
    field_of_nlist (unroll_span t.lspan) ^ "/" ^ field_of_nlist (unroll_span t.rspan) ]

let unroll_small (t : tape) : bool =
  (* only unroll when counts are small *)
  List.for_all (fun (_, n) -> n_fits n && int_of_n n < 64) (t.lspan @ t.rspan)

let tape_record_safe prev_sig t stepped =
  if unroll_small t then tape_record prev_sig t stepped
  else begin
    let (cl, cr) = counts t in
    let (ll, rl) = span_lens t in
    String.concat " " [
      string_of_n stepped; field_of_tape t; string_of_n (marks t); b2s (blank t);
      b2s (at_edge t false); b2s (at_edge t true); string_of_n (blocks t);
      field_of_nlist cl ^ "/" ^ field_of_nlist cr;
      string_of_n ll ^ "," ^ string_of_n rl;
      field_of_sig (tape_sig t); b2s (sig_compatible t prev_sig);
      string_of_str (show_tape t); "big" ]
  end

let cmd_tape mode tape_f ops_f =
  let t = ref (tape_of_field tape_f) in
  let ops = if ops_f = "" then [] else split ';' ops_f in
  let recs = ref [] in
  List.iter (fun o ->
      match split ',' o with
      | [sh; co; sk] ->
        let prev_sig = tape_sig !t in
        let (t', stepped) = step !t (sh = "1") (n_of_string co) (sk = "1") in
        t := t';
        recs := tape_record_safe prev_sig t' stepped :: !recs
      | _ -> failwith "bad op") ops;
  let recs = List.rev !recs in
  if mode = "v" then String.concat ";" recs
  else
    string_of_int (List.length recs) ^ "|" ^ fnv (String.concat ";" recs) ^ "|"
    ^ (match recs with [] -> field_of_tape !t | _ -> List.nth recs (List.length recs - 1))

let field_of_mresult (r : mresult) =
  String.concat "|" [ string_of_termres r.r_result; string_of_n r.r_steps;
                      string_of_n r.r_cycles; string_of_n r.r_marks; string_of_n r.r_rulapp;
                      field_of_oslot r.r_last_slot; field_of_blanks r.r_blanks ]

let cmd_quick prog lim =
  field_of_mresult (run_quick (comp_of_text prog) (n_of_string lim))

let cmd_ref prog lim =
  let r = ref_run (to_prog (comp_of_text prog)) (n_of_string lim) in
  String.concat "|" [ string_of_termres r.rr_result; string_of_n r.rr_steps;
                      string_of_n r.rr_marks; field_of_oslot r.rr_last_slot;
                      field_of_blanks r.rr_blanks ]

let cmd_rec prog lim =
  match quick_term_or_rec (comp_of_text prog) (n_of_string lim) with
  | RLimit -> "limit" | RRecur -> "recur" | RSpinout -> "spinout"
  | RUndefined sl -> "undefined:" ^ field_of_slot sl

let unwrap = function Panic -> raise Model_panic | Ok a -> a

let cmd_mkrule c1 c2 c3 c4 =
  match unwrap (make_rule (counts_of_field c1) (counts_of_field c2)
                  (counts_of_field c3) (counts_of_field c4)) with
  | None -> "none"
  | Some r -> "rule:" ^ field_of_rule r

let cmd_capps tape_f rule_f =
  match unwrap (count_apps (tape_of_field tape_f) (rule_of_field rule_f)) with
  | None -> "none"
  | Some ((times, pos), res) ->
    string_of_n times ^ " " ^ field_of_index pos ^ " " ^ string_of_n res

let cmd_apply which tape_f rule_f =
  let t = tape_of_field tape_f and r = rule_of_field rule_f in
  let (res, t') = unwrap (match which with
      | "apply" -> apply_rule t r
      | "apply_f7" -> apply_rule_prefix apply_plus t r
      | "apply_f4" -> apply_rule_prefix apply_plus_prefix t r
      | _ -> failwith "bad apply variant") in
  (match res with None -> "none" | Some times -> "some:" ^ string_of_n times)
  ^ "|" ^ field_of_tape t'

let cmd_conn prog states =
  b2s (unwrap (is_connected (comp_of_text prog) (n_of_string states)))

let cmd_parse cps =
  match from_str (cps_of_field cps) with
  | None -> raise Model_panic
  | Some p -> field_of_comp p

let params_of_field s =
  if s = "-" then None else
    match split ',' s with
    | [a; b] -> Some (n_of_string a, n_of_string b)
    | _ -> failwith "bad params"

let cmd_show comp_f params_f =
  match show (comp_of_field comp_f) (params_of_field params_f) with
  | None -> raise Model_panic
  | Some s -> field_of_cps s

let oinstr_of_field s =
  if s = "-" then None else
    match split ',' s with
    | [pr; sh; tr] -> Some ((n_of_string pr, sh = "1"), n_of_string tr)
    | _ -> failwith "bad instr"

let cmd_tok kind cps =
  let s = cps_of_field cps in
  match kind with
  | "instr" -> (match read_instr s with
      | None -> raise Model_panic
      | Some None -> "-"
      | Some (Some i) -> field_of_instr i)
  | "slot" -> (match read_slot s with None -> raise Model_panic | Some sl -> field_of_slot sl)
  | "state" -> (match s with
      | [c] -> (match read_state c with None -> raise Model_panic | Some st -> string_of_n st)
      | _ -> failwith "bad state tok")
  | _ -> failwith "bad tok kind"

let cmd_showtok kind v =
  let o = function None -> raise Model_panic | Some s -> field_of_cps s in
  match kind with
  | "instr" -> o (show_instr (oinstr_of_field v))
  | "slot" -> (match split ',' v with
      | [a; b] -> o (show_slot (n_of_string a, n_of_string b))
      | _ -> failwith "bad slot")
  | "state" -> (match show_state (n_of_string v) with
      | None -> raise Model_panic
      | Some c -> string_of_n c)
  | _ -> failwith "bad tok kind"

let cmd_slots prog =
  let p = comp_of_text prog in
  let (ms, mc) = cp_params p in
  String.concat "|" [
    string_of_n ms ^ "," ^ string_of_n mc;
    String.concat ";" (List.map field_of_slot (halt_slots p));
    String.concat ";" (List.map field_of_slot (erase_slots p));
    String.concat ";" (List.map (fun (s, sh) -> string_of_n s ^ "," ^ b2s sh) (zr_shifts p)) ]

let cmd_cmptake a b take =
  b2s (compare_take (span_of_field a) (span_of_field b) (n_of_string take))

let cmd_aligns h1 t1 h2 t2 lm rm =
  b2s (aligns_with { ht_head = z_of_string h1; ht_tape = tape_of_field t1 }
         { ht_head = z_of_string h2; ht_tape = tape_of_field t2 }
         (z_of_string lm) (z_of_string rm))

let cmd_ops prog n =
  String.concat ";" (List.map (fun ((sh, co), sk) -> b2s sh ^ "," ^ string_of_n co ^ "," ^ b2s sk)
                       (quick_ops_init (comp_of_text prog) (n_of_string n)))

let dispatch (fields : string list) : string =
  match fields with
  | ["ops"; prog; n] -> cmd_ops prog n
  | ["tape"; mode; tp; ops] -> cmd_tape mode tp ops
  | ["quick"; prog; lim] -> cmd_quick prog lim
  | ["ref"; prog; lim] -> cmd_ref prog lim
  | ["rec"; prog; lim] -> cmd_rec prog lim
  | ["mkrule"; c1; c2; c3; c4] -> cmd_mkrule c1 c2 c3 c4
  | ["capps"; tp; rl] -> cmd_capps tp rl
  | [("apply" | "apply_f7" | "apply_f4") as w; tp; rl] -> cmd_apply w tp rl
  | ["conn"; prog; states] -> cmd_conn prog states
  | ["parse"; cps] -> cmd_parse cps
  | ["show"; comp; params] -> cmd_show comp params
  | ["tok"; kind; cps] -> cmd_tok kind cps
  | ["showtok"; kind; v] -> cmd_showtok kind v
  | ["slots"; prog] -> cmd_slots prog
  | ["cmptake"; a; b; take] -> cmd_cmptake a b take
  | ["aligns"; h1; t1; h2; t2; lm; rm] -> cmd_aligns h1 t1 h2 t2 lm rm
  | _ -> failwith "unknown command"

let () =
  let rec loop () =
    match input_line stdin with
    | exception End_of_file -> ()
    | line ->
      (if line <> "" then
         match split '|' line with
         | id :: fields ->
           let ans = try dispatch fields with
             | Model_panic -> "PANIC"
             | Stack_overflow -> "MODEL-STACK-OVERFLOW"
             | Failure m -> "MODEL-ERROR:" ^ m
             | Not_found -> "MODEL-ERROR:not_found"
             | Invalid_argument m -> "MODEL-ERROR:" ^ m in
           print_string id; print_char '|'; print_string ans; print_newline ()
         | [] -> ());
      loop () in
  loop ()
